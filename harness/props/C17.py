"""C17 — arbitrary LLM output never breaks a turn and is treated as data   (partial proof by design)

Case kinds
  ws      the whitespace / line-boundary tables of Py/Str.lean vs the running interpreter (exhaustive over all code points)
  fn      one string through every real text helper (utils.py, output_parsers.py, v2 helpers) vs the Lean model
  act     one completion through a real generation *action* (FakeLLM serving it) vs the model's post-processing
  botmsg  generate_bot_message with predefined / context-variable / LLM branches, `_render_string` instrumented
  e2e     hostile completions at every LLM call position of multi-turn conversations through the real
          `LLMRails.generate`, all generation modes (search territory: oracle only, no model); includes the
          stored-then-quoted family: LLM text that is stored (last bot message, generated value, action result) and quoted
          in a LATER step/turn by a predefined message (`$var`, `{{ var }}`), a `bot $var` step or a 2.x `bot say $v`
  asm     a list of NEW EVENTS handed to the real `LLMRails.generate_async` (the runtime's answer is replaced): the response assembly
          that runs after the runtime returned, outside every try/except, vs Models/LlmAssemble.lean (spec regenerated from llmrails.py)
  e2e/ctrl (phase 5) the texts that the code AFTER the generation actions interprets - string literals that llmrails.py, the runtimes,
          the verbose / streaming handlers compare with or splice around a text, scanned from the source by the translator - as the
          exact message at every message position of every mode (first and later utterance of the call), near misses, flow forms;
          and the public interfaces of `generate` (options with every log on, `prompt=`, explicit state, streaming handler, an
          instance created with verbose=True, an empty events cache = second instance / restart)
Static tie: ast scan of both generation.py files for every call of a render function and the provenance of its argument.
"""
import ast
import asyncio
import contextlib
import io
import json
import os
import re
import sys
import warnings
import zlib

from ..impl import c17_env as E
from ..translate.util import TieBroken, find_def, parse

PROPERTY = "C17"
THEOREM_MODULE = "NemoVerif.Theorems.C17"
EXHAUSTIVE = {"quick": False, "thorough": False}
RULE = ("fn/act: structured completions (lines built from Colang/verbose prefixes, quotes, comments, separators incl. every Unicode "
        "line boundary and whitespace class, template/variable syntax, escape_flow_name keywords) plus a malformed stream over a "
        "hostile alphabet; e2e: every base conversation of every mode (dialog, single_call, multi_step, general, passthrough, "
        "v2 intent/flow/value/utterance, and the stored-then-quoted conversations dialog_q/single_call_q/v2_quote) with a hostile or mutated completion at each LLM call position; "
        "control family: every string literal the post-processing compares with a text (scanned from the source) as the exact message at every message position of every mode incl. later-utterance bases, near misses, flow forms, through every public interface of generate; asm: event lists over the assembly's type / script literals and near misses; "
        "value family: the literal_eval grammar structurally - every atom kind (None, bool, int, float, str, bytes, complex, Ellipsis, an int json.dumps cannot print, a string holding a literal) at every position (top, list/tuple/set element, dict value, dict KEY, inside tuple keys and tuple set-elements, nested, 5/12/40 levels deep, last of 150 elements) + random literal trees + near-literals, through the real GenerateValueAction (act) and as the completion of the value-generation call of the 2.x value conversations (e2e; once, twice, uttered / copied / interpolated later); "
        "quote family: a marked payload of template/variable/escape tokens at the position whose text is stored and later quoted. non-trivial = the text has "
        ">= 2 lines or a recognised prefix/quote/template token (fn/act), or a hostile completion was actually consumed (e2e); "
        "distinct = distinct case JSON.")
TRUSTED_BASE = [
    "correspondence harness harness/props/C17.py + harness/impl/c17_env.py (FakeLLM, fake embeddings, CPU watchdog) + Drive/C17.lean",
    "static tie: ast scan of actions/llm/generation.py and actions/v2_x/generation.py for render call sites",
    "CPython str methods are the reference for Py/Str.lean (whitespace and line-boundary tables compared exhaustively on every run)",
    "Jinja2, literal_eval, the Colang 1.0 parser and compute_next_steps are ORACLES of the models (any result, any exception); their real behaviour is observed by the differential tasks (parse spy, the literal literal_eval returned as a tree, step table) and exercised end-to-end",
    "dataflow translator harness/translate/c17.py: provenance roots by name, intra-procedural, closures = join of what their body reads",
    "assembly translator harness/translate/c17.py::assembly (shape of the two `for event in new_events` loops of generate_async -> Generated/C17Assembly.lean; any other shape breaks the tie) and the literal scan control_literals (which texts the generator feeds)",
]
ASSUMPTIONS = [
    "the theorems cover the text post-processing inside the generation actions, the dispatcher's containment, the try/except structure of v1 _process_start_flow and the generate_events loop (parser / compute_next_steps as oracles) and the literal_eval wrapper of 2.x GenerateValueAction; v2 AddFlowsAction + the execution of generated flows, eval_expression and Jinja itself are search territory",
    "multi_step_never_raises_repaired and generate_value_v2_total are about the repaired code (both repairs are in /repo: e77d9e1, 98bf321); generate_value_v2_storable_repaired is about the PROPOSED repair fixes/C17-v2-generated-value-printable-int.diff: on the unpatched tree the as-is statement is generate_value_v2_storable_partial (hypothesis: literal_eval returned no int beyond CPython's int->str limit) and the differential accepts the repaired guard inside that open finding's region (plain literal with such an int)",
    "state_to_json is modelled on literal values only (Lit.encodable = the branches of encode_to_dict a literal_eval result can reach, Lit.printable = json.dumps' int limit); the serialisation of the rest of the state (flows, events, actions) is exercised end-to-end, not modelled; the model is tied by the round trip of every generated literal through the real state_to_json / json_to_state",
    "escape_flow_name's `\\b\\d+\\b` step is modelled for ASCII text only (non-ASCII strings are compared up to the replace chain by the oracle-only stream)",
    "assemble_total / assembleV2_total assume that the events the runtimes create carry the keys their type promises (`script`, `final_script`, `action_uid`); without it only KeyError is possible (assemble_only_key_error); the `asm` differential feeds event lists with and without these keys",
    "the control script `(remove last message)` as LLM-written message text IS interpreted by generate_async (the reply loses the previous utterance): the property statement speaks of template and variable syntax, so this is recorded (design_notes/C17.md, phase 5), not reported",
    "completions longer than 4000 characters are only run end-to-end (the model driver recurses over List Char)",
]

SENT_EXPR = "{{ 191*7 }}"
SENT_VALUE = "1337"
SENT_V2 = "{191*7}"  # Colang 2.x string interpolation syntax
MARK_L, MARK_R = "ZQX", "QXZ"
FIXED_REPLIES = ["I'm sorry, an internal error has occurred.", "I'm not sure what to say."]

# ----------------------------------------------------------------------------- translator + static tie
_TINFO = {}

EXPECTED_SINKS = [
    ("actions/llm/generation.py", "generate_user_intent", "render_task_prompt", "Task.GENERATE_USER_INTENT"),
    ("actions/llm/generation.py", "generate_user_intent", "render_task_prompt", "Task.GENERAL"),
    ("actions/llm/generation.py", "generate_next_step", "render_task_prompt", "Task.GENERATE_NEXT_STEPS"),
    ("actions/llm/generation.py", "_render_string", "from_string", "template_str"),
    ("actions/llm/generation.py", "generate_bot_message", "_render_string", "bot_utterance"),
    ("actions/llm/generation.py", "generate_bot_message", "render_task_prompt", "Task.GENERATE_BOT_MESSAGE"),
    ("actions/llm/generation.py", "generate_value", "render_task_prompt", "Task.GENERATE_VALUE"),
    ("actions/llm/generation.py", "generate_intent_steps_message", "render_task_prompt", "Task.GENERATE_INTENT_STEPS_MESSAGE"),
    ("actions/llm/generation.py", "generate_intent_steps_message", "render_task_prompt", "Task.GENERAL"),
    ("actions/v2_x/generation.py", "generate_user_intent", "render_task_prompt", "Task.GENERATE_USER_INTENT_FROM_USER_ACTION"),
    ("actions/v2_x/generation.py", "generate_user_intent_and_bot_action", "render_task_prompt", "Task.GENERATE_USER_INTENT_AND_BOT_ACTION_FROM_USER_ACTION"),
    ("actions/v2_x/generation.py", "generate_flow_from_instructions", "render_task_prompt", "Task.GENERATE_FLOW_FROM_INSTRUCTIONS"),
    ("actions/v2_x/generation.py", "generate_flow_from_name", "render_task_prompt", "Task.GENERATE_FLOW_FROM_NAME"),
    ("actions/v2_x/generation.py", "generate_flow_continuation", "render_task_prompt", "Task.GENERATE_FLOW_CONTINUATION"),
    ("actions/v2_x/generation.py", "generate_value", "render_task_prompt", "Task.GENERATE_VALUE_FROM_INSTRUCTION"),
    ("actions/v2_x/generation.py", "generate_flow", "_render_string", "textwrap.dedent(docstring)"),
    ("actions/v2_x/generation.py", "generate_flow", "render_task_prompt", "Task.GENERATE_FLOW_CONTINUATION_FROM_NLD"),
]


def translate():
    """dataflow IR of the three anchored modules + `re` Unicode tables -> Generated/C17Dataflow.lean, C17Tables.lean"""
    from ..translate import c17 as tr

    info = tr.run()
    _TINFO.clear()
    _TINFO.update(info)
    a = info.get("assembly", {})
    _TINFO["assembly"] = a
    _TINFO["assembly_literals"] = [a.get(k) for k in ("utter_type", "remove_script", "exception_suffix", "v2_finished") if a.get(k)] or None
    return info



def _call_name(node):
    f = node.func
    if isinstance(f, ast.Attribute):
        return f.attr
    if isinstance(f, ast.Name):
        return f.id
    return None


def value_wrapper_tie(src):
    """shape of the tail of 2.x `generate_value` that `generateValueV2R` models: every value the action returns is the result of ONE
    `literal_eval(...)` call inside a `try` whose handlers raise, and passes `if not _is_plain_value(<it>): raise` before the (only) return"""
    tree = ast.parse(src)
    guard = next((n for n in tree.body if isinstance(n, ast.FunctionDef) and n.name == "_is_plain_value"), None)
    if guard is None:
        return "module function `_is_plain_value` is gone"
    fn = next((n for n in ast.walk(tree) if isinstance(n, ast.AsyncFunctionDef) and n.name == "generate_value"), None)
    if fn is None:
        return "`generate_value` is gone"
    nodes = [n for n in ast.walk(fn)]
    rets = [n for n in nodes if isinstance(n, ast.Return)]
    if len(rets) != 1 or not isinstance(rets[0].value, ast.Name):
        return f"`generate_value` has {len(rets)} return statements / returns an expression (model: one `return <the literal>`)"
    x = rets[0].value.id
    assigns = [n for n in nodes if isinstance(n, (ast.Assign, ast.AugAssign, ast.AnnAssign, ast.NamedExpr)) and any(isinstance(t, ast.Name) and t.id == x for t in ast.walk(n.targets[0] if isinstance(n, ast.Assign) else n.target))]
    if len(assigns) != 1 or not (isinstance(assigns[0], ast.Assign) and isinstance(assigns[0].value, ast.Call) and isinstance(assigns[0].value.func, ast.Name) and assigns[0].value.func.id == "literal_eval"):
        return f"the returned variable `{x}` is assigned {len(assigns)} times / not from a single `literal_eval(...)` call"
    a = assigns[0]
    tries = [n for n in nodes if isinstance(n, ast.Try) and a in n.body]
    if len(tries) != 1 or not tries[0].handlers or not all(any(isinstance(s, ast.Raise) for s in h.body) for h in tries[0].handlers) or any(h.type is not None and ast.unparse(h.type) != "Exception" for h in tries[0].handlers):
        return "`literal_eval` is not inside `try: … except Exception: raise …`"
    guards = [n for n in fn.body if isinstance(n, ast.If) and ast.unparse(n.test) == f"not _is_plain_value({x})" and any(isinstance(s, ast.Raise) for s in n.body) and not n.orelse]
    if len(guards) != 1 or not (tries[0].lineno < guards[0].lineno < rets[0].lineno) or rets[0] not in fn.body:
        return f"no top-level `if not _is_plain_value({x}): raise …` between the `literal_eval` and the return"
    # nothing may touch the literal between the guard and the return
    between = [s for s in fn.body if guards[0].lineno < s.lineno < rets[0].lineno]
    if between:
        return f"statements between the guard and the return (line {between[0].lineno}): the returned value may not be the guarded one"
    return None


def static_tie():
    """Every call of a template renderer in the two generation modules, with the provenance of its argument.
    Expected: v1 generation.py — exactly one `_render_string` call, inside generate_bot_message, in the branch
    `if bot_intent in self.config.bot_messages`, on a value read from `self.bot_messages[...]`; `from_string`/`render`
    only inside `_render_string`.  v2 generation.py — exactly one `_render_string` call, on the flow docstring."""
    problems = []
    if _TINFO.get("assembly_tie_broken"):
        problems.append("response assembly of generate_async: " + _TINFO["assembly_tie_broken"] + " (Models/LlmAssemble.lean models the previous shape)")
    if _TINFO.get("sinks") is not None:
        got = [(x["file"].replace("nemoguardrails/", ""), x["function"], x["callee"], x["template"]) for x in _TINFO["sinks"] if "taskmanager" not in x["file"]]
        if got != EXPECTED_SINKS:
            new = [g for g in got if g not in EXPECTED_SINKS]
            gone = [g for g in EXPECTED_SINKS if g not in got]
            problems.append(f"template sink inventory of the generation modules changed (the dataflow theorem is re-checked on the new IR, the hand model is not): new {new} gone {gone}")
    tree = parse("nemoguardrails/actions/llm/generation.py")
    cls = find_def(tree, "LLMGenerationActions")
    sites = []
    for fn in [n for n in ast.walk(cls) if isinstance(n, (ast.FunctionDef, ast.AsyncFunctionDef))]:
        for node in ast.walk(fn):
            if isinstance(node, ast.Call) and _call_name(node) in ("_render_string", "from_string", "render", "render_async", "Template"):
                sites.append((fn.name, _call_name(node), node))
    allowed_inside_render = {("_render_string", "from_string"), ("_render_string", "render")}
    rs = [(f, n, c) for f, n, c in sites if n == "_render_string"]
    for f, n, c in sites:
        if n != "_render_string" and (f, n) not in allowed_inside_render:
            problems.append(f"new template-engine call `{n}` in LLMGenerationActions.{f} (line {c.lineno}): provenance of its argument is not covered by llm_text_not_rendered")
    if len(rs) != 1 or rs[0][0] != "generate_bot_message":
        problems.append("render call sites changed: expected exactly one `_render_string` call, in generate_bot_message; found " + str([(f, c.lineno) for f, _, c in rs]))
    else:
        gbm = find_def(cls, "generate_bot_message")
        call = rs[0][2]
        # the call must sit in the body of `if bot_intent in self.config.bot_messages:` and its argument must be assigned, in that
        # same body, only from `self.bot_messages[...]`
        ok = False
        for node in ast.walk(gbm):
            if isinstance(node, ast.If) and "bot_intent in self.config.bot_messages" == ast.unparse(node.test):
                body_nodes = [x for st in node.body for x in ast.walk(st)]
                if call in body_nodes:
                    arg = call.args[0] if call.args else None
                    if isinstance(arg, ast.Name):
                        srcs = []
                        for st in body_nodes:
                            if isinstance(st, ast.Assign) and any(isinstance(t, ast.Name) and t.id == arg.id for t in st.targets) and st.value is not call:
                                srcs.append(ast.unparse(st.value))
                        if srcs and all("self.bot_messages[bot_intent]" in s for s in srcs):
                            ok = True
        if not ok:
            problems.append("the argument of `_render_string` in generate_bot_message is no longer provably a predefined bot message (self.bot_messages[bot_intent]) inside `if bot_intent in self.config.bot_messages`")
    tree2 = parse("nemoguardrails/actions/v2_x/generation.py")
    rs2 = []
    for fn in [n for n in ast.walk(tree2) if isinstance(n, (ast.FunctionDef, ast.AsyncFunctionDef))]:
        for node in ast.walk(fn):
            if isinstance(node, ast.Call) and _call_name(node) in ("_render_string", "from_string", "render", "Template"):
                rs2.append((fn.name, _call_name(node), ast.unparse(node.args[0]) if node.args else ""))
    # the wrapper around literal_eval that `generateValueV2R` models (the guard's own behaviour is tied by differential on every literal)
    with open(os.path.join(E.REPO, "nemoguardrails/actions/v2_x/generation.py")) as f:
        wt = value_wrapper_tie(f.read())
    if wt:
        problems.append("2.x GenerateValueAction: " + wt + " (Models/LlmGen.lean `generateValueV2R` models: try literal_eval / except raise; if not _is_plain_value: raise; return)")
    if rs2 != [("generate_flow", "_render_string", "textwrap.dedent(docstring)")]:
        problems.append("v2 render call sites changed: expected only generate_flow: _render_string(textwrap.dedent(docstring)); found " + str(rs2))
    return problems


# ----------------------------------------------------------------------------- generators

WORDS = ["ask", "name", "express greeting", "inform", "x", "general response", "hello there", "a and b", "1 or 22", "go as 3x", "it's", "(ok)", "re-do", "42", "4 2", "user", "bot", "und", "é", "名前"]
PREFIXES = ["bot ", "user ", "Bot intent: ", "User intent: ", "Bot message: ", "User message: ", "bot intent: ", "user intent: ",
            "bot message: ", "user message: ", "bot action: ", "user action: ", "  and ", "  or ", "  ", " ", "#", "# ", "$", "\"", "  \"", "bot", "user",
            "Bot intent:", "bot action:", "define flow", "flow ", "...", "$x = ", "execute ", "codeblock", "await "]
TEMPLATES = [SENT_EXPR, "{% if 1 %}a{% endif %}", "$secret", "{$secret}", "{{secret}}", "${{ 1 }}", "{# c #}", "{{", "}}", "{%", "\\n", "\\\\n", "{", "}"]
QUOTES = ["\"", "\"\"", "'", "\"x\"", "\"x", "x\"", "“x”", "\"\"\"", "'''"]
SEPS = ["\n", "\n", "\n", "\n\n", "\r\n", "\r", "\n  ", " \n", "\nuser", "\nuser ", "\nUser ", "\x0b", "\x0c", "\x1c", "\x1d", "\x1e", "\x85", "\u2028", "\u2029", "\t\n"]
SPACES = [" ", "  ", "\t", "\xa0", "\u3000", "\u2003", "\x1f", "\u1680", "\u202f", "\u205f", "\ufeff", "\u200b"]
PUNCT = [",", ";", ":", ", ", "; ", ": ", ".", "!", "?", "-", "(", ")", "_", "=", "\\", "/", "<", ">", "]", "["]
HOSTILE_ALPHABET = list(" \t\n\r\"'$#{}%\\,;:_-()0123456789abUuBb") + ["\x00", "\x0b", "\x0c", "\x1c", "\x85", "\xa0", "\u2028", "\u3000", "é", "ß", "İ", "ǅ", "名", "😀", "\U0001d7d8", "٣", "\u0301", "\ufeff"]


def g_line(rng):
    parts = []
    n = rng.choice([0, 1, 1, 2, 2, 3, 4])
    if rng.random() < 0.6:
        parts.append(rng.choice(PREFIXES))
    for _ in range(n):
        r = rng.random()
        if r < 0.45:
            parts.append(rng.choice(WORDS))
        elif r < 0.6:
            parts.append(rng.choice(QUOTES))
        elif r < 0.72:
            parts.append(rng.choice(TEMPLATES))
        elif r < 0.85:
            parts.append(rng.choice(PUNCT))
        else:
            parts.append(rng.choice(PREFIXES))
        if rng.random() < 0.5:
            parts.append(rng.choice(SPACES))
    return "".join(parts)


def g_structured(rng):
    n = rng.choice([0, 1, 1, 1, 2, 2, 3, 4, 6])
    out = []
    if rng.random() < 0.3:
        out.append(rng.choice(SEPS + SPACES))
    for i in range(n):
        out.append(g_line(rng))
        if i < n - 1 or rng.random() < 0.3:
            out.append(rng.choice(SEPS))
    return "".join(out)


def g_malformed(rng):
    n = rng.choice([0, 1, 2, 3, 5, 8, 13, 30])
    return "".join(rng.choice(HOSTILE_ALPHABET) for _ in range(n))


WELL_FORMED = [
    "  express greeting", "user express greeting", "User intent: express greeting", "bot express greeting", "bot inform name",
    "Bot intent: inform name", "  \"Hello there!\"", "Bot message: \"Hello there!\"", "\"Paris\"", "'Paris';", "42",
    "  ask name\nbot inform name\n  \"I am a bot.\"", "User intent: ask name\nBot intent: inform name\nBot message: \"I am a bot.\"",
    "bot inform name\nbot express greeting", "user intent: user asked something", "user expressed greeting",
    "bot intent: bot tell joke\nbot action: bot say \"Why?\"", "bot action: bot say \"a\"\n  and bot gesture \"b\"",
    "  bot say \"Hi\"\n  user said \"x\"", "  \"multi\n  line\"\nuser \"next\"",
]


def mutate(rng, s):
    ops = rng.choice([1, 1, 2, 3])
    for _ in range(ops):
        r = rng.random()
        pos = rng.randrange(len(s) + 1)
        if r < 0.3:
            s = s[:pos] + rng.choice(TEMPLATES + QUOTES + SEPS + SPACES + PUNCT) + s[pos:]
        elif r < 0.5 and s:
            end = min(len(s), pos + rng.choice([1, 1, 2, 5]))
            s = s[:pos] + s[end:]
        elif r < 0.65:
            s = s[:pos]
        elif r < 0.75:
            s = s + rng.choice(SEPS) + rng.choice(WELL_FORMED)
        elif r < 0.85:
            s = rng.choice(PREFIXES) + s
        elif r < 0.93:
            s = s.upper() if rng.random() < 0.5 else s.replace(" ", rng.choice(SPACES))
        else:
            s = s[:pos] + s[pos:][::-1]
    return s


# ---- Python literals: the whole grammar `ast.literal_eval` accepts, as TREES (kind, payload), rendered to source text.
# Every atom kind can stand at every position of a container: list / tuple / set element, dict value, dict KEY, inside a tuple that
# is a dict key or a set element, nested.  (Hashability is respected: keys and set elements are atoms or tuples of hashables.)
LIT_ATOMS = {
    "none": ["None"],
    "bool": ["True", "False"],
    "int": ["42", "0", "-7", "0x1f", "1_000", "+3", "0b101", "-0"],
    "float": ["1.5", "1e3", "-0.0", "1e999", "-1e999", ".5", "1_0.0"],
    "str": ["'pizza'", "\"a b\"", "\"\"", "\"\"\"x\"\"\"", "'ZQX $secret QXZ'", "\"{{ 191*7 }}\"", "r'\\n'", "'a' 'b'", "\"\\x41\\n\"", "'__type'", "'ref'"],
    "bytes": ["b'item'", "b\"\"", "B'\\x00'", "b'a' b'b'", "rb'x'"],
    "complex": ["2j", "2+3j", "-1j", "1-2j", "0j", "1.5e3J"],
    "ellipsis": ["..."],
    # a literal whose VALUE is plain data but cannot be printed: CPython refuses int -> str beyond 4300 digits (hex has no such limit on input)
    "hugeint": ["0x" + "f" * 3600, "-0x1" + "0" * 3600],
    # a STRING whose text is itself a literal (a wrapper that evaluates until a fixpoint / twice would reach the inner literal)
    "strlit": ["'...'", "\"b'x'\"", "'{...: 1}'", "'2j'", "\"'...'\"", "'[1, (2, ...)]'", "'\"\\\"...\\\"\"'"],
}
PLAIN_KINDS = ["none", "bool", "int", "float", "str", "strlit"]
NONPLAIN_KINDS = ["bytes", "complex", "ellipsis"]
# one-hole position templates (`@` = the hole); `key` = the hole needs a hashable literal
LIT_POSITIONS = [
    ("top", "@"), ("list-elem", "[@]"), ("list-elem-last", "[1, 'a', @]"), ("list-elem-first", "[@, 1]"), ("tuple-elem", "(@,)"), ("tuple-elem-last", "(1, @)"),
    ("set-elem", "{@}"), ("set-elem-2", "{1, @}"), ("dict-value", "{'k': @}"), ("dict-value-last", "{1: 'a', 'k': @}"),
    ("dict-key", "{@: 'pizza'}"), ("dict-key-last", "{'a': 1, @: 'pizza'}"), ("dict-key-first", "{@: 1, 'b': 2}"), ("dict-key-and-value", "{@: @}"),
    ("tuple-key", "{(@,): 'pizza'}"), ("tuple-key-last", "{(1, @): 'pizza'}"), ("tuple-key-nested", "{(1, (2, @)): 'pizza'}"), ("tuple-in-set", "{(1, @)}"),
    ("nested-dict-key", "{'order': {@: 'pizza'}}"), ("list-of-dict-tuple-key", "[{(1, @): 'pizza'}]"), ("nested-list", "[[@]]"), ("tuple-dict-list", "({'a': [@]},)"),
    ("deep-dict-value", "{'a': {'b': {'c': @}}}"), ("deep-dict-key", "{'a': {'b': {@: 'c'}}}"), ("key-of-dict-in-list-in-dict", "{'items': [1, {@: 2}]}"),
    ("dict-in-tuple-key-value", "{(1, 2): {@: 3}}"), ("set-in-list", "[{@}, 2]"), ("dict-in-set-like", "{'s': {(@, 1)}}"),
]
# the same hole DEEP inside (a guard that stops looking after some levels) ...
for _n in (5, 12, 40):
    LIT_POSITIONS.append(("deep-list-%d" % _n, "[" * _n + "@" + "]" * _n))
    LIT_POSITIONS.append(("deep-dict-value-%d" % _n, "{'k': " * _n + "@" + "}" * _n))
    LIT_POSITIONS.append(("deep-tuple-key-%d" % _n, "{" + "(1, " * _n + "@" + ")" * _n + ": 'pizza'}"))
    LIT_POSITIONS.append(("deep-mixed-%d" % _n, "".join(["[", "{'k': ", "(0, "][i % 3] for i in range(_n)) + "{@: 1}" + "".join(["]", "}", ")"][i % 3] for i in reversed(range(_n)))))
# ... and at the END of a LONG container (a guard that samples / looks at a prefix only)
_N_LONG = 150
LIT_POSITIONS += [
    ("long-list-last", "[" + "0, " * _N_LONG + "@]"), ("long-tuple-last", "(" + "'a', " * _N_LONG + "@)"),
    ("long-set-last", "{" + ", ".join(str(i) for i in range(_N_LONG)) + ", @}"),
    ("long-dict-last-key", "{" + ", ".join("%d: %d" % (i, i) for i in range(_N_LONG)) + ", @: 1}"),
    ("long-dict-last-value", "{" + ", ".join("'k%d': %d" % (i, i) for i in range(_N_LONG)) + ", 'last': @}"),
    ("long-tuple-key-last", "{(" + "1, " * _N_LONG + "@): 'pizza'}"),
]


def literal_positions(kinds=None, first_only=False, n_atoms=None):
    """the structural enumeration: every atom kind at every position (text, kind, position name)"""
    out = []
    for kind, atoms in LIT_ATOMS.items():
        if kinds is not None and kind not in kinds:
            continue
        for a in (atoms[:1] if first_only else atoms[:n_atoms]):
            for name, tpl in LIT_POSITIONS:
                out.append((tpl.replace("@", a), kind, name))
    return out


def lit_text(t):
    k = t[0]
    if k == "atom":
        return t[1]
    if k == "list":
        return "[" + ", ".join(lit_text(x) for x in t[1]) + "]"
    if k == "tuple":
        return "(" + ", ".join(lit_text(x) for x in t[1]) + ("," if len(t[1]) == 1 else "") + ")"
    if k == "set":
        return "{" + ", ".join(lit_text(x) for x in t[1]) + "}" if t[1] else "set()"
    return "{" + ", ".join(lit_text(a) + ": " + lit_text(b) for a, b in t[1]) + "}"


def g_lit_tree(rng, depth=0, hashable=False, p_nonplain=0.18):
    """random literal tree; `hashable`: usable as a dict key / set element (atom or tuple of hashables)"""
    r = rng.random()
    if depth < 3 and r < (0.5 if depth == 0 else 0.3):
        kinds = ["tuple"] if hashable else ["list", "tuple", "set", "dict", "dict"]
        k = rng.choice(kinds)
        n = rng.choice([0, 1, 1, 2, 2, 3])
        if k in ("list", "tuple"):
            return (k, [g_lit_tree(rng, depth + 1, hashable, p_nonplain) for _ in range(n)])
        if k == "set":
            return (k, [g_lit_tree(rng, depth + 1, True, p_nonplain) for _ in range(n)])
        return (k, [(g_lit_tree(rng, depth + 1, True, p_nonplain), g_lit_tree(rng, depth + 1, False, p_nonplain)) for _ in range(n)])
    kind = rng.choice(NONPLAIN_KINDS) if rng.random() < p_nonplain else rng.choice(PLAIN_KINDS + ["str", "int"])
    if kind == "strlit" and depth < 3 and rng.random() < 0.5:
        return ("atom", repr(lit_text(g_lit_tree(rng, depth + 2, hashable, 0.5))))
    if rng.random() < 0.01:
        kind = "hugeint"
    return ("atom", rng.choice(LIT_ATOMS[kind]))


NEAR_LITERALS = ["Ellipsis", "1 + 1", "-x", "[1, 2", "{'a'", "'a' + 'b'", "inf", "nan", "f'{1}'", "{**{}}", "[*[]]", "set([1])", "dict()", "frozenset()", "1 if 1 else 2", "(1)(2)", "{1: }", "{: 1}",
                 "{[1]: 2}", "{{1}: 2}", "{{}: 1}", "[1,, 2]", "1 + 2j + 3", "-'a'", "+b'x'", "1j + 1", "{...: }", "(... : 1)", "b'\\xff' 'a'", "None.x", "True[0]", "..."  + ".", ". . .", "…"]


def g_literal(rng, depth=0):
    """text of a Python literal (what a cooperative LLM answers at a value-generation call): a random tree over the whole grammar
    (non-plain atoms - `...`, bytes, complex - at any position incl. dict keys and tuple keys), or a near-literal"""
    r = rng.random()
    if r < 0.12:
        return rng.choice(NEAR_LITERALS)
    if r < 0.2:
        # a well-formed tree with one sub-literal replaced by a near-literal
        return lit_text(g_lit_tree(rng)).replace("42", rng.choice(NEAR_LITERALS), 1)
    return lit_text(g_lit_tree(rng, depth))


def g_value_text(rng):
    t = g_literal(rng)
    r = rng.random()
    if r < 0.1:
        t = t + ";"
    elif r < 0.18:
        t = "  " + t + "\n" + g_line(rng)
    elif r < 0.24:
        t = rng.choice(["$v = ", "v = ", "Answer: "]) + t
    return t


def g_text(rng):
    r = rng.random()
    if r < 0.55:
        return g_structured(rng)
    if r < 0.8:
        return mutate(rng, rng.choice(WELL_FORMED))
    return g_malformed(rng)


def msg_with_sentinel(tok):
    return f"{MARK_L} {tok} {MARK_R}"


HOSTILE = [
    "", " ", "\n", "\n\n\n", "   \n\t\n", "\xa0\u3000", "\"", "\"\"", "\"\n", "  \"", "'", "#", "# only a comment", "#\n#", "$", "$secret", "bot", "bot ", "bot ,", "bot \"", "bot $secret",
    "bot $", "bot ,,\"x", "user", "user ", "user \"", "User intent: ", "Bot intent: ", "Bot message: ", "Bot intent: $secret", "bot action: ", "bot intent: ", "user intent: ",
    "user intent:", ":", "::", "a:b", "define flow", "define flow x", "define user foo\n  \"x\"", "define bot foo\n  \"x\"", "define flow a\n  bot x\ndefine flow b\n  bot y",
    "define subflow q\n  bot x", "flow x", "flow main\n  bot say \"x\"", "if $x\n  bot y", "if", "else", "when", "while True\n  bot x", "  bot x\n bot y", "\tbot x", "bot x\n\tbot y",
    "$x = x", "$x = 1 +", "if $y.z\n  bot a", "bot a\n$x = x", "execute foo", "execute generate_value(instructions=\"x\")", "$x = ...", "$x = execute foo()", "bot x\n$y = ...\nbot z", "stop", "abort", "return", "...", "meta", "import core", "include \"x\"",
    "bot inform\n  \"unterminated", "bot inform \"x\" \"y\"", "bot say \"{$secret}\"", "bot action: bot say \"" + msg_with_sentinel("{$secret}") + "\"", "bot action: bot say \"" + msg_with_sentinel(SENT_EXPR) + "\"",
    "bot action: bot say \"" + msg_with_sentinel(SENT_V2) + "\"", "bot intent: bot tell joke\nbot action: bot say \"" + msg_with_sentinel(SENT_V2) + "\"", "\"" + msg_with_sentinel(SENT_V2) + "\"",
    "bot action: await UtteranceBotAction(script=$secret)", "bot action: send Foo(", "bot action: $x = 1/0", "bot action: ", "bot intent: bot x\nbot action: bot say 'y'", "bot action: bot say \"unterminated",
    "user intent: user said \"x\"\nbot action: bot say \"y\"", "  bot say \"x\"", "flow\n", "flow a b c\n  bot say \"x\"", "bot say", "await", "await Foo", "bot say \"a\" and bot say \"b\"",
    "  \"" + msg_with_sentinel(SENT_EXPR) + "\"", "  \"" + msg_with_sentinel("$secret") + "\"", "  \"" + msg_with_sentinel("{$secret}") + "\"", "  \"" + msg_with_sentinel("{% if 1 %}EVIL{% endif %}") + "\"",
    "  \"" + msg_with_sentinel("{{ secret }}") + "\"", "\"" + msg_with_sentinel(SENT_EXPR + " $secret {$secret}") + "\"", msg_with_sentinel(SENT_EXPR), msg_with_sentinel("$secret"),
    "{{", "{%", "{{ 1/0 }}", "{% for x in y %}", "}}", "{#", "${{secret}}", "{{ ''.__class__ }}", "$secret.x", "${secret}",
    "None", "True", "1", "1.5", "[1, 2", "{'a': 1}", "__import__('os')", "\"a\" + \"b\"", "\"x\";", "';'", ";", "lambda: 1", "(1,)", "\"\\x00\"", "\"" + "\\" + "\"", "x" * 50,
    "\"" + msg_with_sentinel(SENT_EXPR) + "\"", "\"" + msg_with_sentinel("{$secret}") + "\"", "\"" + msg_with_sentinel("$secret") + "\"", "'" + msg_with_sentinel("{$secret}") + "'",
    "  ask name\nbot $secret\n  \"x\"", "  ask name\nbot\n", "\n\n  ask name", "  ask name\n", "user ask name\nbot inform name", "  ask name\nbot inform name\n  \"" + msg_with_sentinel(SENT_EXPR + " $secret") + "\"",
    "User intent: ask name\nBot intent: inform name\nBot message: \"" + msg_with_sentinel("$secret") + "\"", "# c\n# d\n", "#\n  x\n#\n  y", "  x\n  x\n  x",
    "名前 😀", "\ud7ff\ue000", "é" * 30, "\u202ebot x", "bot x\x00y", "\x00", "\x1b[31m", "\r", "\r\nbot x\r\n", "bot x\u2028bot y", "\x85",
    "b'x'", "1j", "(1, ...)", "{1: ...}", "[b'a', 2]", "\"ZQX \" + str(191*7) + \" QXZ\"", "str(191*7)", "f\"{191*7}\"",
    "A" * 100000, "bot " + "a " * 50000, "\n" * 20000, "  \"" + "{{ 1 }}" * 10000 + "\"", "bot a\n" * 3000, "((((" * 5000,
]


def base_conversations():
    """(mode, turns, well-formed completions, message positions, fallback) — the completions a cooperative LLM would give."""
    S = E.SECRET
    return [
        ("dialog", ["zzz", "hi", "qqq"], ["  ask something", "bot inform thing", "  \"It is fine.\"", "  express greeting", "  ask other", "bot inform other", "  \"Other.\""], [2, 6], "  \"fb\""),
        ("dialog", ["how is the weather"], ["  ask weather", "\"Paris\"", "  \"Sunny.\""], [2], "  \"fb\""),
        ("dialog", ["what is your name", "zzz"], ["  ask name", "  \"I am a bot.\"", "  ask something", "bot inform templated"], [1], "  \"fb\""),
        ("single_call", ["zzz", "hi"], ["  ask something\nbot inform thing\n  \"It is fine.\"", "  express greeting\nbot express greeting\n  \"Hello, there!\""], [0, 1], "  ask x\nbot y\n  \"fb\""),
        ("multi_step", ["zzz", "qqq"], ["  ask something", "bot inform thing\nbot express greeting", "  \"A\"", "  ask other", "bot inform other", "  \"B\""], [2, 5], "  \"fb\""),
        ("general", ["zzz", "qqq"], ["It is fine.", "\"Quoted.\""], [0, 1], "fb"),
        ("passthrough", ["zzz", "qqq"], ["It is fine.", "Second."], [0, 1], "fb"),
        ("v2_intent", ["hello there", "meh"], ["user expressed greeting", "user expressed to be bored"], [], "user expressed greeting"),
        ("v2_flowgen", ["tell me a joke", "another"], ["user asked for a joke", "bot intent: bot tell joke\nbot action: bot say \"Why?\"", "user asked again", "bot intent: bot tell another\nbot action: bot say \"Because.\""], [], "bot action: bot say \"fb\""),
        ("v2_value", ["I like trains", "ok"], ["\"trains\""], [0], "\"fb\""),
        ("v2_value2", ["I like trains", "and planes", "bye", "ok"], ["\"trains\"", "\"planes\"", "\"See you!\""], [0, 1, 2], "\"fb\""),
        ("v2_utter", ["tell me a joke", "more"], ["user intent: user asked for joke\nbot intent: bot tell joke\nbot action: bot say \"Why?\"", "user intent: user asked more\nbot intent: bot tell more\nbot action: bot say \"More.\""], [], "bot action: bot say \"fb\""),
    ] + [(mode, turns, script, [store], fb) for mode, turns, script, store, _wrap, fb in QUOTE_BASES]


# ---- stored-then-quoted family ---------------------------------------------------------------------------------------------
# (mode, user turns, cooperative completions, position whose text is STORED, wrapper of the payload at that position, fallback)
QUOTE_BASES = [
    # the LLM-written reply of turn 1 is quoted by `$last_bot_message` (turn 2), `{{ last_bot_message }}` (turn 3: a quote of the quote) and again
    ("dialog_q", ["zzz", "can you repeat that", "once more", "can you repeat that"],
     ["  ask something", "bot inform thing", "  \"It is fine.\"", "  ask to repeat", "  ask to repeat again", "  ask to repeat"], 2, "  \"%s\"", "  \"fb\""),
    # a generated value quoted in the same turn (`$name`), then by `{{ last_bot_message }}` + `$name` in a later turn
    ("dialog_q", ["my name is John", "recap", "can you repeat that"], ["  introduce self", "\"John\"", "  ask recap", "  ask to repeat"], 1, "\"%s\"", "\"fb\""),
    ("dialog_q", ["my name is John", "once more"], ["  introduce self", "'John'", "  ask to repeat again"], 1, "'%s'", "\"fb\""),
    # `bot $name`: the value is the whole message; quoted afterwards
    ("dialog_q", ["say my name", "can you repeat that", "recap"], ["  ask raw name", "\"John\"", "  ask to repeat", "  ask recap"], 1, "\"%s\"", "\"fb\""),
    # the result of an action that returns LLM text
    ("dialog_q", ["look it up", "once more"], ["  ask lookup", "Lookup text.", "  ask to repeat again"], 1, "%s", "fb"),
    ("single_call_q", ["zzz", "can you repeat that", "once more"],
     ["  ask something\nbot inform thing\n  \"It is fine.\"", "  ask to repeat\nbot repeat last message\n  \"unused\"", "  ask to repeat again\nbot repeat last message again\n  \"unused\""],
     0, "  ask something\nbot inform thing\n  \"%s\"", "  ask x\nbot y\n  \"fb\""),
    ("single_call_q", ["my name is John", "recap"], ["  introduce self\nbot greet by name\n  \"unused\"", "\"John\"", "  ask recap\nbot recap\n  \"unused\""], 1, "\"%s\"", "\"fb\""),
    ("v2_quote", ["a", "b", "c"], ["\"trains\""], 0, "\"%s\"", "\"fb\""),
]
QUOTE_TOKENS = [SENT_EXPR, "{{ 7*7 }}", "{{ secret }}", "{{secret}}", "{{ last_user_message }}", "{{ last_bot_message }}", "{{ name }}", "{% for x in y %}", "{% if 1 %}EVIL{% endif %}",
                "{% raw %}", "{# c #}", "{{", "}}", "{%", "%}", "$secret", "$name", "$last_bot_message", "$other_var", "$x", "{$secret}", "{$x}", "${{secret}}", "${secret}", "$secret.x", "$lst[0]",
                SENT_V2, "{$v}", "\\", "\\\\", "\\t", "\\x41", "\\u0041", "'", "it's", "`", "<b>", "&amp;", "%s", "%(x)s", "{}", "{0}", "#", "50%", "a_b"]
QUOTE_WORDS = ["use", "or", "in a template", "hello", "x", "1337?", "é", "名前"]


def g_payload(rng):
    """a marked message text made of template / variable / escape tokens (no newline, no double quote: it must survive the
    first-line and strip_quotes post-processing of every position unchanged, so that `literally` is decidable)"""
    n = rng.choice([1, 1, 2, 2, 3, 4])
    parts = []
    for _ in range(n):
        if rng.random() < 0.35:
            parts.append(rng.choice(QUOTE_WORDS))
        parts.append(rng.choice(QUOTE_TOKENS))
    return MARK_L + " " + " ".join(parts) + " " + MARK_R


def gen_quote(rng, n):
    out = []
    for i in range(n):
        mode, turns, script, store, wrap, fb = QUOTE_BASES[i % len(QUOTE_BASES)]
        resp = list(script)
        payload = g_payload(rng)
        if "'" in payload and wrap.startswith("'"):
            wrap = "\"%s\""
        resp[store] = wrap % payload
        pos = [store]
        if rng.random() < 0.15:
            # a second hostile completion somewhere else in the same conversation
            p2 = rng.randrange(len(script))
            if p2 != store:
                resp[p2] = rng.choice(HOSTILE[:120]) if rng.random() < 0.5 else mutate(rng, script[p2])
                pos = sorted(pos + [p2])
        out.append({"kind": "e2e", "mode": mode, "turns": turns, "llm": resp, "fallback": fb, "pos": pos, "msgpos": [store], "quote": True})
    return out


# ---- phase 5: texts that the code AFTER the generation actions interprets -------------------------------------------------------
# `control_texts()` comes from the translator (string literals that llmrails.py / the runtimes / the verbose handler / the streaming
# handler compare with, search in or split at a text): a new control script or marker in the source becomes a hostile text of the
# next run without touching this file.
CTRL_BASES = [
    # (mode, turns, cooperative completions, fallback): the LLM-written message is a LATER utterance of the call (after a predefined one) …
    ("dialog_c", ["two things", "zzz"], ["  ask two things", "  \"Second.\"", "  ask something", "bot inform thing", "  \"Fine.\""], "  \"fb\""),
    # … stands before and after the flow-authored `bot remove last message` …
    ("dialog_c", ["say and retract", "two things"], ["  ask and retract", "  \"First.\"", "  \"Third.\"", "  ask two things", "  \"Second.\""], "  \"fb\""),
    # … two LLM-written utterances in one call
    ("dialog_c", ["three things"], ["  ask three things", "  \"First.\"", "  \"Second.\""], "  \"fb\""),
    ("single_call_c", ["two things", "zzz"], ["  ask two things\nbot express greeting\n  \"unused\"", "  \"Second.\"", "  ask something\nbot inform thing\n  \"Fine.\""], "  ask x\nbot y\n  \"fb\""),
    ("multi_step_c", ["two things", "zzz"], ["  ask two things", "  \"Second.\"", "  ask something", "bot express greeting\nbot inform thing", "  \"Fine.\""], "  \"fb\""),
]


def control_texts():
    """{"all": [...], "priority": [...]} - from the translator run of this process, else scanned now (workers, replay)"""
    ct = _TINFO.get("control_literals")
    if ct is None:
        from ..translate import c17 as tr

        ct = tr.control_literals()
        _TINFO["control_literals"] = ct
    return ct


_PINNED = None


def _pinned_literals():
    global _PINNED
    if _PINNED is None:
        with open(os.path.join(os.path.dirname(os.path.dirname(os.path.abspath(__file__))), "impl", "c17_literals.json")) as f:
            _PINNED = set(json.load(f)["priority"])
    return _PINNED


def near_misses(lit):
    """the literal and texts one edit away from it (what an exact comparison must NOT confuse with the literal)"""
    out = [lit, lit + " ", " " + lit, lit.upper(), lit.lower(), lit[:-1], lit[1:], lit + lit, lit + "\n" + lit, lit + " x", "x " + lit, "(" + lit + ")", "[" + lit + "]"]
    if lit.startswith("(") and lit.endswith(")"):
        out += [lit[1:-1], lit[:-1] + " )", lit.replace(" ", "  ")]
    seen, res = set(), []
    for x in out:
        if x not in seen:
            seen.add(x)
            res.append(x)
    return res


_Q_RE = re.compile(r'"([^"\n]*)"(?=[^"]*$)')


def message_wrapper(completion):
    """`%s`-wrapper that puts a text where the cooperative completion has its message: the last double-quoted segment, else the whole
    completion.  (None: the text would not survive as THE message - it contains a quote / newline the position cannot carry.)"""
    m = _Q_RE.search(completion)
    if m:
        return completion[: m.start(1)].replace("%", "%%") + "%s" + completion[m.end(1):].replace("%", "%%")
    return "%s"


def message_positions(script, msgpos):
    return sorted(set(msgpos) | {i for i, c in enumerate(script) if _Q_RE.search(c)})


def all_control_bases():
    """every base conversation of every mode + the later-utterance bases, as (mode, turns, script, message positions, fallback)"""
    out = []
    for mode, turns, script, msgpos, fb in base_conversations():
        out.append((mode, turns, script, message_positions(script, msgpos), fb))
    return out


def base_conversations_ctrl():
    return [(mode, turns, script, message_positions(script, []), fb) for mode, turns, script, fb in CTRL_BASES]


def as_flow_texts(lit):
    """the literal where an LLM-written next step / flow can put it (1.0 multi-step bodies, 2.x generated flows)"""
    w = re.sub(r"[^A-Za-z0-9_ ]", "", lit).strip() or "x"
    return [f"bot {lit}", f"execute {w}", f"execute {w}(event=\"x\")", f"execute {w}(event={{\"_type\": \"{w}\"}})", f"execute create_event(event={{\"_type\": \"{w}\"}})",
            f"$x = execute {w}", f"bot action: send {w}()", f"bot action: await {w}()", f"bot action: send Start{w}Action()", f"bot action: bot say \"{lit}\"",
            f"bot intent: bot {w}\nbot action: send {w}Finished(final_script=\"x\")", f"user intent: user {w}", f"  {lit}\nbot {lit}\n  \"{lit}\""]


# texts whose REPLY (after the quote stripping of the general / message positions) begins or ends with a character that some consumer of
# the reply may interpret: every punctuation class once, single and doubled, at both ends
SHAPE_CHARS = ["\"", "'", "`", "{", "}", "[", "]", "(", ")", "<", ">", "$", "#", "%", "\\", "/", "&", "*", "_", "-", "=", "+", "|", "~", "^", "@", "!", "?", ":", ";", ",", "."]
REPLY_SHAPES = [c + "x" for c in SHAPE_CHARS] + ["x" + c for c in SHAPE_CHARS] + [c + c + "x" + c + c for c in SHAPE_CHARS] + [c + c + "x" + c for c in SHAPE_CHARS] + [c + "x" + c + c for c in SHAPE_CHARS] + [
    "{\"a\": 1}", "[1, 2]", "null", "true", "NaN", "-1", "0", "0x10", "1e999", "\"\\\"", "%s", "%(x)s", "{0}", "{}", "<b>x</b>", "&amp;", "x\ty", "\\u0041", "\\x41"]


def api_choices(mode):
    if mode.startswith("v2"):
        return E.APIS_V2
    if mode.startswith("single_call"):
        # the scripted LLM does not stream: single-call mode with a streaming handler waits for tokens that never come (harness limit)
        return [a for a in E.APIS_V1 if a != "stream"]
    return E.APIS_V1


def gen_control(rng, n, tier):
    """(1) systematic: every PRIORITY literal as the exact message text at every message position of every base of every mode
    (first utterance) and of the later-utterance bases, plain `messages` interface;   (2) random: any literal / near miss / flow form
    at any call position, through every public interface (options+log, prompt, state, streaming handler, verbose instance)."""
    ct = control_texts()
    bases = all_control_bases() + base_conversations_ctrl()
    out = []
    for lit in ct["priority"]:
        if "\n" in lit or "\"" in lit:
            continue
        for mode, turns, script, mpos, fb in bases:
            for pos in mpos:
                resp = list(script)
                resp[pos] = message_wrapper(script[pos]) % lit
                out.append({"kind": "e2e", "mode": mode, "turns": turns, "llm": resp, "fallback": fb, "pos": [pos], "msgpos": [pos], "ctrl": lit})
    if _TINFO.get("assembly_literals") is None:
        from ..translate import c17 as tr

        try:
            a = tr.assembly()["assembly"]
        except TieBroken:
            a = {}
        _TINFO["assembly"] = a
        _TINFO["assembly_literals"] = [a.get(k) for k in ("utter_type", "remove_script", "exception_suffix", "v2_finished") if a.get(k)]
    if not _TINFO.get("assembly_literals"):
        # the shape of the assembly is not understood (tie broken): every literal that generate_async compares with a text that looks
        # like a script / type name is a core literal
        _TINFO["assembly_literals"] = [x for x in ct.get("generate_async", []) if len(x) >= 6 and x not in ("assistant", "exception", "content", "generation", "event_created_at", "source_uid", "action_uid")]
    # near misses of the control script(s) of the assembly itself, same positions (an exact comparison must not be loosened / a second
    # site must not treat them as the control script)
    a = _TINFO.get("assembly") or {}
    rms = [a["remove_script"]] if a.get("remove_script") else [x for x in _TINFO["assembly_literals"] if x.startswith("(")]
    for rm in rms:
        for t in [rm + " ", " " + rm, rm.upper(), rm[:-1], rm + rm]:
            for mode, turns, script, mpos, fb in bases:
                for pos in mpos:
                    resp = list(script)
                    resp[pos] = message_wrapper(script[pos]) % t
                    case = {"kind": "e2e", "mode": mode, "turns": turns, "llm": resp, "fallback": fb, "pos": [pos], "msgpos": [pos], "ctrl": rm, "near": True}
                    if not mode.startswith("v2") and len(turns) > 1:
                        case["api"] = "nocache"  # the later turns rebuild the history from the (LLM-written) assistant messages
                    out.append(case)
    # budget: ALL of the literals the assembly of generate_async itself compares with (every mode, every message position), a seeded
    # sample of the other priority literals (quick: up to n cases in total, thorough: 1.5 n more)
    core = set(_TINFO.get("assembly_literals") or [])
    keep = [c for c in out if c["ctrl"] in core and not c.get("near")]
    near = [c for c in out if c.get("near")]
    rng.shuffle(near)
    keep += near[: (n // 2 if tier == "quick" else len(near))]
    rest = [c for c in out if c["ctrl"] not in core]
    rng.shuffle(rest)
    out = keep + (rest[: max(0, n - len(keep))] if tier == "quick" else rest[: n + n // 2])
    # (1b) a priority literal the pinned inventory (harness/impl/c17_literals.json) does not know = the post-processing interprets a NEW
    # text: the literal and its near misses at every message position of every base through EVERY public interface
    new_lits = [x for x in ct["priority"] if x not in _pinned_literals()]
    for lit in new_lits[:6]:
        for t in near_misses(lit)[:7] + [lit[: max(1, len(lit) - 2)], lit + "abc"]:
            if "\n" in t or "\"" in t:
                continue
            for mode, turns, script, mpos, fb in bases:
                for pos in mpos:
                    for api in api_choices(mode):
                        resp = list(script)
                        resp[pos] = message_wrapper(script[pos]) % t
                        case = {"kind": "e2e", "mode": mode, "turns": turns, "llm": resp, "fallback": fb, "pos": [pos], "msgpos": [pos], "ctrl": lit, "new_literal": True}
                        if api not in ("messages",) and not (mode.startswith("v2") and api == "state"):
                            case["api"] = api
                        out.append(case)
    # (2) what the interfaces themselves do with the reply / the log: the whole hostile corpus as THE reply (general mode: the
    # completion is the message; cheap), through every public interface
    # general mode: the FULL product (hostile text x interface; ~0.03 s per case); passthrough: a seeded sample
    hs = [h for h in HOSTILE if len(h) <= 4000] + REPLY_SHAPES
    for h in hs:
        for api in E.APIS_V1:
            if api not in ("messages", "verbose"):
                out.append({"kind": "e2e", "mode": "general", "turns": ["zzz", "qqq"], "llm": [h, "Second."], "fallback": "fb", "pos": [0], "msgpos": [0], "api": api})
    combos = [(h, api) for h in hs for api in E.APIS_V1 if api != "messages"]
    rng.shuffle(combos)
    for h, api in combos[: (n // 2 if tier == "quick" else 2 * n)]:
        out.append({"kind": "e2e", "mode": "passthrough" if api != "verbose" else "general", "turns": ["zzz"], "llm": [h, "Second."], "fallback": "fb", "pos": [0], "msgpos": [0], "api": api})
    # (3) the hostile corpus / mutations at any position through the other public interfaces; (4) the stored-then-quoted payloads likewise
    plain = all_control_bases()
    for _ in range(n // 2):
        mode, turns, script, mpos, fb = rng.choice(plain)
        resp = list(script)
        pos = rng.randrange(len(script))
        r = rng.random()
        resp[pos] = rng.choice(HOSTILE[:170]) if r < 0.6 else (message_wrapper(script[pos]) % g_payload(rng) if pos in mpos and r < 0.85 else mutate(rng, script[pos]))
        apis = [a for a in api_choices(mode) if a not in ("messages",) and not (mode.startswith("v2") and a == "state")]
        out.append({"kind": "e2e", "mode": mode, "turns": turns, "llm": resp, "fallback": fb, "pos": [pos], "msgpos": mpos, "api": rng.choice(apis)})
    for c in gen_quote(rng, n // 4):
        c["api"] = rng.choice(["verbose"] if c["mode"].startswith("v2") else ["options", "state", "stream", "verbose"] if not c["mode"].startswith("single_call") else ["options", "state", "verbose"])
        out.append(c)
    lits = ct["all"]
    k = 0
    while k < n:
        k += 1
        mode, turns, script, mpos, fb = rng.choice(bases)
        lit = rng.choice(ct["priority"]) if rng.random() < 0.6 else rng.choice(lits)
        r = rng.random()
        pos = rng.randrange(len(script))
        if r < 0.45 and mpos:
            pos = rng.choice(mpos)
            t = rng.choice(near_misses(lit))
            text = message_wrapper(script[pos]) % t if "\"" not in t else t
        elif r < 0.7:
            text = rng.choice(as_flow_texts(lit))
        elif r < 0.85:
            text = rng.choice(near_misses(lit))
        else:
            text = mutate(rng, script[pos]).replace(rng.choice(WORDS), lit, 1)
        resp = list(script)
        resp[pos] = text
        ps = [pos]
        if rng.random() < 0.2:
            p2 = rng.randrange(len(script))
            if p2 != pos:
                resp[p2] = message_wrapper(script[p2]) % rng.choice(ct["priority"]) if p2 in mpos else rng.choice(near_misses(rng.choice(lits)))
                ps = sorted([pos, p2])
        case = {"kind": "e2e", "mode": mode, "turns": turns, "llm": resp, "fallback": fb, "pos": ps, "msgpos": mpos, "ctrl": lit}
        api = rng.choice(api_choices(mode))
        if api not in ("messages",) and not (mode.startswith("v2") and api == "state"):
            case["api"] = api
        out.append(case)
    return out


ASM_TYPES = ["StartUtteranceBotAction", "StartUtteranceBotAction", "StartUtteranceBotAction", "Listen", "BotIntent", "UserIntent", "BotMessage", "StartInternalSystemAction",
             "InternalSystemActionFinished", "InputRailException", "OutputRailException", "Exception", "exception", "XException ", "ExceptionX", "hide_prev_turn", "UtteranceBotActionFinished",
             "StartFooAction", "StartAction", "Start\nAction", "StartFooActionX", "startFooAction", "StopUtteranceBotAction", "UtteranceBotActionStarted", "ContextUpdate", "x", ""]


def g_asm(rng):
    """a list of NEW EVENTS as the runtime could return it, handed to the real response assembly of generate_async"""
    ct = control_texts()
    v = rng.choice(["1.0", "1.0", "2.x"])
    scripts = near_misses("(remove last message)") + [rng.choice(ct["priority"]), rng.choice(ct["all"]), "Hi", "", "a\nb", "ZQX {{ 191*7 }} $secret QXZ", g_line(rng)]
    evs = []
    for _ in range(rng.choice([0, 1, 1, 2, 2, 3, 4, 6])):
        t = rng.choice(ASM_TYPES) if rng.random() < 0.85 else rng.choice(ct["all"])
        e = {"type": t}
        # the keys the runtime always sets for its own event types (the history / cache code after the assembly reads them)
        e.update({"UserIntent": {"intent": "ask x"}, "BotIntent": {"intent": "inform x"}, "BotMessage": {"text": "t"}, "UserMessage": {"text": "hi"},
                  "StartInternalSystemAction": {"action_name": "a", "action_params": {}, "action_result_key": None, "is_system_action": True},
                  "InternalSystemActionFinished": {"action_name": "a", "action_params": {}, "return_value": None, "status": "success", "events": [], "is_system_action": True},
                  "ContextUpdate": {"data": {}}}.get(t, {}))
        if t == "StartUtteranceBotAction" or rng.random() < 0.1:
            e["script"] = rng.choice(scripts) if rng.random() < 0.6 else "(remove last message)"
        if v == "2.x":
            if t.startswith("Start") or rng.random() < 0.1:
                e["action_uid"] = "uid-%d" % len(evs)
            if t == "UtteranceBotActionFinished" or rng.random() < 0.1:
                e["final_script"] = rng.choice(scripts)
            if rng.random() < 0.5:
                e["uid"] = "u%d" % len(evs)
                e["event_created_at"] = "t"
            if rng.random() < 0.3:
                e["source_uid"] = "s"
            if rng.random() < 0.3:
                e["extra"] = rng.choice(scripts)
        evs.append(e)
    return {"kind": "asm", "v": v, "events": evs}


def gen_cases(rng, tier):
    n_fn, n_act, n_bot, n_e2e = (30000, 2000, 500, 300) if tier == "quick" else (200000, 16000, 4000, 4000)
    n_quote = 160 if tier == "quick" else 2400
    cases = [{"kind": "ws"}]
    parsers = ["none", "none", "user_intent", "bot_intent", "bot_message", "verbose_v1"]
    for _ in range(n_fn):
        cases.append({"kind": "fn", "s": g_text(rng), "k": rng.choice([1, 2, 2, 2, 3])})
    for h in HOSTILE:
        if len(h) <= 4000:
            cases.append({"kind": "fn", "s": h, "k": 2})
    tasks = ["user_intent", "next_step", "bot_message", "general", "value", "single_call", "v2_user_intent", "v2_value",
             "ms_next_step", "ms_start_flow", "v2_from_instructions", "v2_from_name", "v2_continuation", "v2_intent_and_action", "v2_flow_nld"]
    for i in range(n_act):
        task = tasks[i % len(tasks)]
        text = rng.choice(HOSTILE) if rng.random() < 0.15 else g_text(rng)
        if task in ("value", "v2_value") and rng.random() < 0.6:
            text = g_value_text(rng)  # (after the draws above: the stream of the other tasks is unchanged)
        cases.append({"kind": "act", "task": task, "prompts": rng.choice(["instruct", "chat", "verbose"]), "s": text})
    # the literal grammar, structurally: every atom kind x every position (value, element, dict KEY, inside tuple keys, nested) through
    # the real GenerateValueAction (guard differential + storability oracle) ...
    for i, (text, _kind, _pos) in enumerate(literal_positions()):
        cases.append({"kind": "act", "task": "v2_value", "prompts": ["instruct", "chat", "verbose"][i % 3], "s": text})
    for _ in range(n_bot):
        cases.append(g_botmsg(rng))
    # ... and as the completion of the value-generation call of whole 2.x turns (the state is serialised at the end of every turn)
    cases.extend(gen_value_e2e(rng, tier))
    cases.extend(gen_e2e(rng, n_e2e))
    cases.extend(gen_quote(rng, n_quote))
    n_ctrl, n_asm = (250, 600) if tier == "quick" else (2000, 6000)
    cases.extend(gen_control(rng, n_ctrl, tier))
    for _ in range(n_asm):
        cases.append(g_asm(rng))
    for _ in range(n_act // 10):
        # `_process_start_flow` with an INJECTED parser behaviour (the parser is an oracle: any exception, any list of flows)
        fid = "dyn-" + UUID[:8]
        inj = rng.choice([{"raise": rng.choice(["ValueError", "AssertionError", "KeyError", "IndexError", "TypeError", "RecursionError", "Exception", "AttributeError", "UnicodeDecodeError"])},
                          {"flows": rng.choice([[], [fid], [fid], [fid, fid], ["other"], [fid, "other"], ["other", fid], [fid + " "], ["", fid]])}])
        cases.append({"kind": "act", "task": "ms_start_flow", "prompts": "instruct", "s": rng.choice(["bot express greeting", "bot inform x\nbot y", g_line(rng)]), "inject": inj})
    for _ in range(n_act // 10):
        cases.append({"kind": "act", "task": "gen_events", "prompts": "instruct", "s": "", "script": g_step_script(rng)})
    return [c for c in cases if c["kind"] != "act" or len(c["s"]) <= 4000]


def g_step_script(rng):
    """behaviour of `_compute_next_steps` as a table keyed by len(events) - base: "raise" or the event types it returns"""
    def outcome():
        if rng.random() < 0.1:
            return "raise"
        return [rng.choice(["X", "X", "X", "Listen", "hide_prev_turn"]) for _ in range(rng.choice([0, 1, 1, 2, 3]))]
    n = rng.choice([0, 1, 2, 3, 5, 8])
    keys = sorted(rng.sample(range(12), n))
    sc = {"base": rng.choice([1, 2, 3]), "table": [[k, outcome()] for k in keys],
          "default": rng.choice(["raise", [], ["X"], ["X"], ["Listen"], ["X", "X", "X"], ["hide_prev_turn"], ["X", "Listen"]])}
    if rng.random() < 0.35:
        # a long run that ends (or not) right at the 100-event safety valve: the boundary of `len(new_events) > 100`
        sc["default"] = rng.choice([["X"], ["X"], ["X", "X"], ["X", "X", "X"]])
        sc["table"] = [[k, o] for k, o in sc["table"] if o != "raise" and "Listen" not in o and "hide_prev_turn" not in o and o != []]
        for k in sorted(rng.sample(range(94, 106), rng.choice([1, 2, 3]))):
            sc["table"].append([k, rng.choice([["Listen"], ["X", "Listen"], ["hide_prev_turn"], [], "raise"])])
    return sc


def g_botmsg(rng):
    intents = ["express greeting", "inform templated", "inform x", "", "$secret", "$", "$missing", "$num", "$empty", "$nil", "$lst", "x", " ", "$secret ", "inform templated "]
    bi = rng.choice(intents) if rng.random() < 0.8 else g_line(rng)
    case = {"kind": "botmsg", "bot_intent": bi, "s": rng.choice(HOSTILE[:120]) if rng.random() < 0.3 else g_text(rng), "prompts": rng.choice(["instruct", "chat", "verbose"])}
    if rng.random() < 0.4:
        # single-call mode: the last UserIntent event carries the pre-computed BotIntent / BotMessage events
        bm = rng.choice(['Bot message: "<<STREAMING[abc]>>"', 'Bot message: "<<STREAMING[', "I'm not sure what to say.", msg_with_sentinel(SENT_EXPR + " $secret")]) if rng.random() < 0.4 else (g_line(rng) or "x")
        case["sc"] = [bi if rng.random() < 0.7 else rng.choice(intents), bm]
    return case


def value_bases():
    """(mode, turns, cooperative completions, position of the value-generation call, fallback) of every 2.x conversation that generates a value"""
    out = []
    for mode, turns, script, msgpos, fb in base_conversations():
        if mode in ("v2_value", "v2_quote", "v2_value2"):
            out.append((mode, turns, script, msgpos[0] if msgpos else 0, msgpos, fb))
    return out


def gen_value_e2e(rng, tier):
    """a generated VALUE at the value-generation call of 2.x turns: the structural enumeration of the literal grammar (every non-plain
    atom kind at every position; plain kinds and the unprintable int sampled), random literal trees, near-literals"""
    vb = value_bases()
    texts = []
    first = tier == "quick"
    for j, (text, kind, pos) in enumerate(literal_positions(NONPLAIN_KINDS, first_only=first, n_atoms=3)):
        # quick: the deep / long positions with one of the three non-plain kinds each (rotating), every other position with all three
        if not first or not pos.startswith(("deep-", "long-")) or NONPLAIN_KINDS.index(kind) == [n for n, _ in LIT_POSITIONS].index(pos) % 3:
            texts.append(text)
    if first:
        # the other atoms of the non-plain kinds (falsy ones, concatenations, …) and the string-of-a-literal atoms at the main positions
        for text, kind, pos in literal_positions(NONPLAIN_KINDS + ["strlit"]):
            if pos in ("top", "dict-key") and text not in texts:
                texts.append(text)
    plain = literal_positions(PLAIN_KINDS + ["hugeint"], first_only=True)
    rng.shuffle(plain)
    texts += [t for t, _, _ in plain[: (14 if first else 150)]]
    for _ in range(20 if first else 250):
        texts.append(g_value_text(rng))
    tpl = dict(LIT_POSITIONS)
    sibling = {t: tpl[pos].replace("@", "'pizza'") for t, kind, pos in literal_positions() if kind not in PLAIN_KINDS}
    out = []
    for i, text in enumerate(texts):
        # every text in the plain value conversation; the conversations that utter / copy / interpolate the value later, and the one
        # that reaches the value generation twice (same completion both times: the second use), in turn
        for bi, (mode, turns, script, pos, msgpos, fb) in enumerate(vb):
            if bi == 0 or i % (6 if first else 5) == bi % 3:
                resp = list(script)
                ps = msgpos if mode == "v2_value2" else [pos]
                for p in ps:
                    resp[p] = text
                if mode == "v2_value2" and (i // 6) % 2 == 1 and sibling.get(text):
                    # the first reach of the statement gets the PLAIN literal of the same shape (same position, a str atom): what a cache
                    # keyed by the shape / type / length of the value would remember for the second reach
                    resp[ps[0]] = sibling[text]
                out.append({"kind": "e2e", "mode": mode, "turns": turns, "llm": resp, "fallback": fb, "pos": list(ps), "msgpos": msgpos, "value": True})
    return out


def gen_e2e(rng, n):
    bases = base_conversations()
    out = []
    # systematic part: each hostile text at each call position of each base, round-robin until the budget is used
    combos = []
    for bi, (mode, turns, script, msgpos, fb) in enumerate(bases):
        for pos in range(len(script)):
            for hi in range(len(HOSTILE)):
                combos.append((bi, pos, hi))
    rng.shuffle(combos)
    for bi, pos, hi in combos[: int(n * 0.7)]:
        mode, turns, script, msgpos, fb = bases[bi]
        resp = list(script)
        resp[pos] = HOSTILE[hi]
        out.append({"kind": "e2e", "mode": mode, "turns": turns, "llm": resp, "fallback": fb, "pos": [pos], "msgpos": msgpos})
    while len(out) < n:
        mode, turns, script, msgpos, fb = rng.choice(bases)
        resp = list(script)
        k = rng.choice([1, 1, 2, len(script)])
        ps = sorted(rng.sample(range(len(script)), min(k, len(script))))
        for p in ps:
            r = rng.random()
            resp[p] = rng.choice(HOSTILE) if r < 0.4 else (mutate(rng, script[p]) if r < 0.8 else g_text(rng))
        fb2 = fb if rng.random() < 0.7 else rng.choice(HOSTILE[:100])
        out.append({"kind": "e2e", "mode": mode, "turns": turns, "llm": resp, "fallback": fb2, "pos": ps, "msgpos": msgpos})
    return out


# ----------------------------------------------------------------------------- implementation

_APPS = {}
_MODEL_OF = {"instruct": "gpt-3.5-turbo-instruct", "chat": "gpt-3.5-turbo", "verbose": "some-unknown-model"}


def worker_init():
    E.setup()
    import pytest  # noqa: F401  -- generate_bot_message picks `[0]` instead of random.choice when pytest is loaded


def _app(kind, prompts):
    key = (kind, prompts)
    if key not in _APPS:
        mode = {"v1": "dialog", "v1sc": "single_call", "v1gen": "general", "v2": "v2_intent", "v1ms": "multi_step"}[kind]
        app, _ = E.make_app(mode, [], "", model=_MODEL_OF[prompts])
        if kind == "v2":
            _, state = app.process_events([], None)
            app._verif_state = state
        _APPS[key] = app
    return _APPS[key]


def _run(coro):
    loop = asyncio.new_event_loop()
    try:
        return loop.run_until_complete(coro)
    finally:
        loop.close()


def _exc(e):
    return {"err": type(e).__name__}


def _parser_name(app, task):
    from nemoguardrails.llm.prompts import get_prompt

    return get_prompt(app.config, task).output_parser or "none"


START_ACTION_RE = r"Start(.*Action)"  # the translator breaks the tie when generate_async uses another pattern


def fn_impl(s, k):
    from nemoguardrails.actions.llm import utils as U
    from nemoguardrails.actions.llm.generation import clean_utterance_content
    from nemoguardrails.actions.v2_x.generation import _remove_leading_empty_lines
    from nemoguardrails.llm import output_parsers as OP

    def ex(f):
        try:
            return {"ok": f()}
        except Exception as e:  # noqa
            return _exc(e)

    o = {
        "first_line": U.get_first_nonempty_line(s),
        "top_k": ex(lambda: U.get_top_k_nonempty_lines(s, k=k)),
        "strip_quotes": ex(lambda: U.strip_quotes(s)),
        "multiline": ex(lambda: U.get_multiline_response(s)),
        "p_user_intent": OP.user_intent_parser(s),
        "p_bot_intent": OP.bot_intent_parser(s),
        "p_bot_message": OP.bot_message_parser(s),
        "p_verbose": OP.verbose_v1_parser(s),
        "clean": clean_utterance_content(s),
        "rm_leading": _remove_leading_empty_lines(s),
        "first_user_intent": U.get_first_user_intent(s.splitlines()),
        "first_bot_intent": U.get_first_bot_intent(s.splitlines()),
        "first_bot_action": U.get_first_bot_action(s.splitlines()),
        "rm_ident": U.remove_action_intent_identifiers([s])[0],
        "splitlines": s.splitlines(),
        "strip": s.strip(),
        "escape_u": U.escape_flow_name(s),
        "indent": __import__("textwrap").indent(s, "  "),
        "splitlines_keep": s.splitlines(True),
        "start_action": (lambda m: m[1] if m else None)(re.match(START_ACTION_RE, s)),
    }
    if s.isascii():
        o["escape"] = U.escape_flow_name(s)
    return o


def act_impl(case):
    from nemoguardrails.llm.types import Task

    s, task, prompts = case["s"], case["task"], case["prompts"]
    llm = E.ScriptLLM(responses=[s], fallback=s)
    obs = {}
    um = {"type": "UserMessage", "text": "hi there"}
    with contextlib.redirect_stdout(io.StringIO()):
        if task in ("user_intent", "next_step", "bot_message", "value"):
            app = _app("v1", prompts)
            A = app.llm_generation_actions
            try:
                if task == "user_intent":
                    obs["parser"] = _parser_name(app, Task.GENERATE_USER_INTENT)
                    r = _run(A.generate_user_intent(events=[um], context={}, config=app.config, llm=llm))
                    obs["post_user_intent"] = r.events[0]["intent"]
                elif task == "next_step":
                    obs["parser"] = _parser_name(app, Task.GENERATE_NEXT_STEPS)
                    r = _run(A.generate_next_step(events=[um, {"type": "UserIntent", "intent": "ask something"}], llm=llm))
                    obs["post_next_step"] = {"ok": r.events[0]["intent"]}
                elif task == "bot_message":
                    obs["parser"] = _parser_name(app, Task.GENERATE_BOT_MESSAGE)
                    r = _run(A.generate_bot_message(events=[um, {"type": "UserIntent", "intent": "ask something"}, {"type": "BotIntent", "intent": "inform thing"}], context={}, llm=llm))
                    obs["post_bot_message"] = {"ok": r.events[0]["text"]}
                else:
                    import nemoguardrails.actions.llm.generation as G

                    obs["parser"] = _parser_name(app, Task.GENERATE_VALUE)
                    seen = []
                    old = G.literal_eval
                    G.literal_eval = lambda v: seen.append(v) or v
                    try:
                        _run(A.generate_value(instructions="extract", events=[um, {"type": "StartInternalSystemAction", "action_name": "generate_value", "action_params": {}, "action_result_key": "v", "is_system_action": True}], var_name="v", llm=llm))
                    finally:
                        G.literal_eval = old
                    obs["post_value"] = {"ok": seen[0]}
            except Exception as e:  # noqa
                obs["post_" + task] = _exc(e)
        elif task == "general":
            app = _app("v1gen", prompts)
            obs["parser"] = "none"
            try:
                r = _run(app.llm_generation_actions.generate_user_intent(events=[um], context={}, config=app.config, llm=llm))
                obs["post_general"] = r.events[-1]["text"]
            except Exception as e:  # noqa
                obs["post_general"] = _exc(e)
        elif task == "single_call":
            app = _app("v1sc", prompts)
            obs["parser"] = _parser_name(app, Task.GENERATE_INTENT_STEPS_MESSAGE)
            try:
                r = _run(app.llm_generation_actions.generate_intent_steps_message(events=[um], llm=llm))
                ev = r.events[0]
                obs["post_single_call"] = {"ok": {"user_intent": ev["intent"], "bot_intent": ev["additional_info"]["bot_intent_event"]["intent"], "bot_message": ev["additional_info"]["bot_message_event"]["text"]}}
            except Exception as e:  # noqa
                obs["post_single_call"] = _exc(e)
        elif task in ("v2_user_intent", "v2_value"):
            app = _app("v2", prompts)
            A = app.llm_generation_actions
            if task == "v2_user_intent":
                obs["parser"] = _parser_name(app, Task.GENERATE_USER_INTENT_FROM_USER_ACTION)
                try:
                    obs["user_intent_v2"] = _run(A.generate_user_intent(state=app._verif_state, events=[], user_action='user said "zzz"', llm=llm))
                except Exception as e:  # noqa
                    obs["user_intent_v2"] = _exc(e)
            else:
                import nemoguardrails.actions.v2_x.generation as G2

                obs["parser"] = _parser_name(app, Task.GENERATE_VALUE_FROM_INSTRUCTION)
                vn = "v"  # (without a variable name the action raises UnboundLocalError before the LLM call whenever a flows index exists: upstream, not LLM-related)
                seen = []
                old = G2.literal_eval
                G2.literal_eval = lambda v: seen.append(v) or v
                tm = A.llm_task_manager
                orig_rtp = tm.render_task_prompt
                cap = {}

                def rtp(*a, **k):
                    cap["p"] = orig_rtp(*a, **k)
                    return cap["p"]

                tm.render_task_prompt = rtp
                try:
                    _run(A.generate_value(state=app._verif_state, instructions="extract", events=[], var_name=vn, llm=llm))
                    obs["value_v2"] = {"ok": seen[0]}
                except Exception as e:  # noqa
                    obs["value_v2"] = _exc(e)
                finally:
                    G2.literal_eval = old
                    del tm.render_task_prompt
                # second run with the real literal_eval: the wrapper's outcome and what literal_eval itself did on that text
                if seen:
                    try:
                        with warnings.catch_warnings():
                            warnings.simplefilter("ignore")
                            lv = ast.literal_eval(seen[0])
                        obs["lit"] = "plain" if _plain(lv) else "nonplain"
                        # the literal itself, as a tree, for the model's `Lit.isPlain` (differential on EVERY generated literal) ...
                        obs["lit_tree"] = lit_tree_of(lv)
                        # ... and what the REAL state serialisation does with this literal (stored or not): ties `Lit.storable`
                        obs["lit_storable"] = _storable(lv) is None
                        # ... against the guard of the code under test
                        guard = getattr(G2, "_is_plain_value", None)
                        try:
                            obs["real_plain"] = bool(guard(lv)) if guard is not None else "absent"
                        except Exception as e:  # noqa
                            obs["real_plain"] = "raised:" + type(e).__name__
                    except BaseException:  # noqa  (literal_eval can raise ValueError, SyntaxError, MemoryError, RecursionError, TypeError …)
                        obs["lit"] = "raised"
                    try:
                        with warnings.catch_warnings():
                            warnings.simplefilter("ignore")
                            rv = _run(A.generate_value(state=app._verif_state, instructions="extract", events=[], var_name=vn, llm=llm))
                        obs["wrapper"] = "ok-plain" if _plain(rv) else "ok-nonplain"
                        # what the turn does with a returned value: it is stored in a flow context and the state is serialised
                        obs["storable"] = _storable(rv)
                    except Exception as e:  # noqa
                        obs["wrapper"] = "invalid" if type(e) is Exception and str(e).startswith("Invalid LLM response") else "other:" + type(e).__name__
                pr = cap.get("p")
                if isinstance(pr, str):
                    obs["last_prompt_line"] = pr.strip().split("\n")[-1]
                elif isinstance(pr, list) and pr and isinstance(pr[-1].get("content"), str):
                    obs["last_prompt_line"] = pr[-1]["content"].strip().split("\n")[-1]
    if task == "gen_events":
        obs.update(gen_events_impl(case))
    if task in ("ms_next_step", "ms_start_flow", "v2_from_instructions", "v2_from_name", "v2_continuation", "v2_intent_and_action", "v2_flow_nld"):
        with contextlib.redirect_stdout(io.StringIO()):
            obs.update(gen_impl(case, llm))
    return obs


UUID = "abcdef0123456789abcdef"


_INT_STR_LIMIT = 10 ** 4300


def lit_tree_of(v):
    """a value returned by `ast.literal_eval` as the JSON tree the driver decodes into `Lit` (atoms without payload)"""
    if v is None:
        return {"k": "none"}
    if v is Ellipsis:
        return {"k": "ellipsis"}
    t = type(v)
    if t is int:
        return {"k": "int", "big": abs(v) >= _INT_STR_LIMIT}  # `str(v)` / `json.dumps(v)` raise (CPython's int -> str limit, 4300 digits)
    if t in (bool, float, str, bytes, complex):
        return {"k": t.__name__}
    if t in (list, tuple, set):
        return {"k": t.__name__, "xs": [lit_tree_of(x) for x in v]}
    if t is dict:
        return {"k": "dict", "kvs": [[lit_tree_of(a), lit_tree_of(b)] for a, b in v.items()]}
    return {"k": "other:" + t.__name__}


def _storable(v):
    """None, or why the REAL `state_to_json` / `json_to_state` refuse a state whose context holds the value"""
    from nemoguardrails.colang.v2_x.runtime.flows import State
    from nemoguardrails.colang.v2_x.runtime.serialization import json_to_state, state_to_json

    try:
        j = state_to_json(State(flow_states={}, flow_configs={}, context={"v": v}))
    except Exception as e:  # noqa
        return f"state_to_json: {type(e).__name__}: {str(e)[:80]}"
    try:
        back = json_to_state(j).context.get("v")
    except Exception as e:  # noqa
        return f"json_to_state: {type(e).__name__}: {str(e)[:80]}"
    try:
        same = back == v or (back != back and v != v) or repr(back) == repr(v)
    except Exception:  # noqa
        same = False
    return None if same else f"round trip: stored {repr(v)[:60]} restored {repr(back)[:60]}"


def nonplain_positions(tree, where="top", in_key=False):
    """positions of the non-plain atoms of a literal tree: top / element / dict-value / dict-key / inside-tuple-key"""
    k = tree["k"]
    if k in ("bytes", "complex", "ellipsis") or k.startswith("other"):
        return {where}
    out = set()
    for x in tree.get("xs", []):
        out |= nonplain_positions(x, "inside-tuple-key" if in_key else k + "-element", in_key)
    for a, b in tree.get("kvs", []):
        out |= nonplain_positions(a, "dict-key", True)
        out |= nonplain_positions(b, "dict-value", in_key)
    return out


def _plain(v):
    """a value a flow variable / the serialised state can hold: None, bool, numbers, str, and list/tuple/set/dict of those"""
    if v is None or isinstance(v, (bool, int, float, str)):
        return True
    if isinstance(v, (list, tuple, set)):
        return all(_plain(x) for x in v)
    if isinstance(v, dict):
        return all(_plain(k) and _plain(x) for k, x in v.items())
    return False


def _try_parse(content):
    from nemoguardrails.colang import parse_colang_file

    try:
        with E.cpu_watchdog(4.0):
            parse_colang_file("dynamic.co", content=content)
        return True
    except E.Hang:
        return False
    except Exception:  # noqa
        return False


def _canon_type(t):
    return t if t in ("Listen", "hide_prev_turn", "BotIntent") else "X"


def gen_events_impl(case):
    """the real `RuntimeV1_0.generate_events` loop with `_compute_next_steps` replaced by the step table of the case"""
    app = _app("v1", case["prompts"])
    rt = app.runtime
    sc = case["script"]
    base = sc["base"]
    table = {k: o for k, o in sc["table"]}

    class Boom(Exception):
        pass

    async def scripted(events, processing_log):
        o = table.get(len(events) - base, sc["default"])
        if o == "raise":
            raise Boom()
        return [{"type": t} for t in o]

    rt._compute_next_steps = scripted
    try:
        with contextlib.redirect_stdout(io.StringIO()):
            res = _run(rt.generate_events([{"type": "X0"} for _ in range(base)]))
        out = {"res": "ok", "events": [_canon_type(e.get("type")) for e in res]}
    except Boom:
        out = {"res": "raised"}
    except Exception as e:  # noqa
        out = {"res": "too_many"} if str(e) == "Too many events." else {"res": "other:" + type(e).__name__}
    finally:
        del rt._compute_next_steps
    return {"parser": "none", "gen_events": out}


def gen_impl(case, llm):
    """the flow-producing bodies: multi-step next step, _process_start_flow, the 2.x GenerateFlow* actions"""
    from nemoguardrails.llm import output_parsers as OP
    from nemoguardrails.llm.types import Task

    s, task, prompts = case["s"], case["task"], case["prompts"]
    obs = {}
    um = {"type": "UserMessage", "text": "hi there"}
    ui = {"type": "UserIntent", "intent": "ask something"}
    if task == "ms_next_step":
        app = _app("v1ms", prompts)
        pname = _parser_name(app, Task.GENERATE_NEXT_STEPS)
        obs["parser"] = pname
        pf = {"none": lambda x: x, "user_intent": OP.user_intent_parser, "bot_intent": OP.bot_intent_parser, "bot_message": OP.bot_message_parser, "verbose_v1": OP.verbose_v1_parser}[pname]
        lines = pf(s).split("\n")
        obs["parses"] = [["\n".join(lines[:n]), _try_parse("\n".join(lines[:n]))] for n in range(1, len(lines) + 1)]
        try:
            r = _run(app.llm_generation_actions.generate_next_step(events=[um, ui], llm=llm))
            ev = r.events[0]
            obs["ms"] = {"type": ev["type"], "intent": ev["intent"]} if ev["type"] == "BotIntent" else {"type": ev["type"], "flow_body": ev["flow_body"]}
        except Exception as e:  # noqa
            obs["ms"] = _exc(e)
        return obs
    if task == "ms_start_flow":
        import nemoguardrails.colang.v1_0.runtime.runtime as RT

        app = _app("v1ms", prompts)
        rt = app.runtime
        keep = dict(rt.flow_configs)
        seen = {}
        orig = RT.parse_colang_file

        inject = case.get("inject")

        def spy(filename, content, *a, **k):
            seen["src"] = content
            seen["calls"] = seen.get("calls", 0) + 1
            if inject is not None:
                if "raise" in inject:
                    exc = {"UnicodeDecodeError": lambda: UnicodeDecodeError("utf-8", b"x", 0, 1, "injected")}.get(inject["raise"], lambda: getattr(__import__("builtins"), inject["raise"])("injected"))()
                    raise exc
                proto = orig("dynamic.co", content="define flow proto:\n  bot express greeting")["flows"][0]
                r = {"flows": [dict(__import__("copy").deepcopy(proto), id=i) for i in inject["flows"]]}
            else:
                r = orig(filename, content, *a, **k)
            seen["flows"] = [f.get("id") for f in r.get("flows", [])]
            return r

        RT.parse_colang_file = spy
        fid = "dyn-" + UUID[:8]
        try:
            with E.cpu_watchdog(6.0):
                res = _run(rt._process_start_flow([um, ui, {"type": "start_flow", "flow_id": fid, "flow_body": s}], processing_log=[]))
            obs["start_flow"] = {"ok": [e.get("type") + (":" + e.get("intent", "") if e.get("type") == "BotIntent" else "") for e in res]}
        except E.Hang:
            obs["start_flow"] = {"err": "Hang"}
        except Exception as e:  # noqa
            obs["start_flow"] = _exc(e)
        finally:
            RT.parse_colang_file = orig
            rt.flow_configs = keep
        obs["flow_id"] = fid
        obs["src"] = seen.get("src")
        obs["parses_flow"] = seen.get("flows") == [fid]
        # the parser's observed behaviour, for the try/except model: ids it returned (None: it raised / did not return)
        obs["parse_flows"] = seen.get("flows") if seen.get("calls") == 1 else None
        if not all(isinstance(x, str) for x in (obs["parse_flows"] or [])):
            obs["parse_flows"] = None
        return obs
    # ---- Colang 2.x
    import nemoguardrails.actions.v2_x.generation as G2

    app = _app("v2", prompts)
    A = app.llm_generation_actions
    st = app._verif_state
    old_uuid = G2.new_uuid
    G2.new_uuid = lambda: UUID
    try:
        if task == "v2_from_instructions":
            try:
                obs["from_instructions"] = {"ok": _run(A.generate_flow_from_instructions(state=st, instructions="do it", events=[], llm=llm))}
            except Exception as e:  # noqa
                obs["from_instructions"] = _exc(e)
            obs["name"] = "dynamic_" + UUID[:4]
        elif task == "v2_from_name":
            obs["name"] = "bot tell joke"
            try:
                obs["from_name"] = {"ok": _run(A.generate_flow_from_name(state=st, name="bot tell joke", events=[], llm=llm))}
            except Exception as e:  # noqa
                obs["from_name"] = _exc(e)
        elif task == "v2_continuation":
            try:
                r = _run(A.generate_flow_continuation(state=st, events=[], llm=llm))
                obs["continuation"] = {"ok": {"name": r["name"], "body": r["body"]}}
            except Exception as e:  # noqa
                obs["continuation"] = _exc(e)
        elif task == "v2_intent_and_action":
            obs["parser"] = _parser_name(app, Task.GENERATE_USER_INTENT_AND_BOT_ACTION_FROM_USER_ACTION)
            try:
                obs["intent_and_action"] = _run(A.generate_user_intent_and_bot_action(state=st, events=[], user_action='user said "zzz"', llm=llm))
            except Exception as e:  # noqa
                obs["intent_and_action"] = _exc(e)
        elif task == "v2_flow_nld":
            obs["parser"] = _parser_name(app, Task.GENERATE_FLOW_CONTINUATION_FROM_NLD)
            try:
                r = _run(A.generate_flow(state=st, events=[], llm=llm, flow_id="user expressed greeting"))
                obs["from_nld"] = {"ok": {"name": r["name"], "body": r["body"]}}
            except Exception as e:  # noqa
                obs["from_nld"] = _exc(e)
    finally:
        G2.new_uuid = old_uuid
    return obs


BOT_CTX = {"secret": E.SECRET, "num": 7, "empty": "", "nil": None, "lst": [1], "known": "K"}


def botmsg_impl(case):
    from nemoguardrails.llm.types import Task

    app = _app("v1sc" if case.get("sc") else "v1", case["prompts"])
    A = app.llm_generation_actions
    llm = E.ScriptLLM(responses=[case["s"]], fallback=case["s"])
    calls = []
    ui_event = {"type": "UserIntent", "intent": "ask something"}
    if case.get("sc"):
        ui_event["additional_info"] = {"bot_intent_event": {"type": "BotIntent", "intent": case["sc"][0]}, "bot_message_event": {"type": "BotMessage", "text": case["sc"][1]}}
    orig = type(A)._render_string

    def spy(template_str, context=None):
        r = orig(A, template_str, context)
        calls.append([template_str, r])
        return r

    A._render_string = spy
    obs = {"parser": _parser_name(app, Task.GENERATE_BOT_MESSAGE), "bot_messages": [[k, list(v)] for k, v in app.config.bot_messages.items()]}
    try:
        with contextlib.redirect_stdout(io.StringIO()):
            r = _run(A.generate_bot_message(events=[{"type": "UserMessage", "text": "hi"}, ui_event, {"type": "BotIntent", "intent": case["bot_intent"]}], context=dict(BOT_CTX), llm=llm))
        obs["res"] = {"ok": {"text": r.events[0]["text"], "skip_output_rails": bool((r.context_updates or {}).get("skip_output_rails"))}}
    except Exception as e:  # noqa
        obs["res"] = _exc(e)
    finally:
        del A._render_string
    obs["render_calls"] = calls
    obs["llm_calls"] = llm.i
    return obs


def asm_impl(case):
    """the REAL `generate_async` with the runtime's answer replaced by the event list of the case: everything after
    `runtime.generate_events` / `runtime.process_events` (response assembly, message, cache, colang history, result) runs as it is"""
    evs = [dict(e) for e in case["events"]]
    if case["v"] == "1.0":
        app = _app("v1", "instruct")
        rt = app.runtime

        async def fake(events, processing_log=None):
            return [dict(e) for e in evs]

        rt.generate_events = fake
        app.events_history_cache.clear()
        try:
            with contextlib.redirect_stdout(io.StringIO()):
                r = app.generate(messages=[{"role": "user", "content": "hi"}])
            if isinstance(r, dict) and r.get("role") == "exception":
                idx = [i for i, e in enumerate(evs) if e == r.get("content")]
                return {"res": {"ok": {"role": "exception", "index": idx[-1] if idx else -1}}}
            return {"res": {"ok": r}}
        except Exception as e:  # noqa
            return {"res": _exc(e)}
        finally:
            del rt.generate_events
    app = _app("v2", "instruct")
    rt = app.runtime

    async def fake2(events, state=None, instant_actions=None, blocking=False):
        return [dict(e) for e in evs], app._verif_state

    rt.process_events = fake2
    try:
        with contextlib.redirect_stdout(io.StringIO()):
            res = app.generate(messages=[{"role": "user", "content": "hi"}], state={})
        m = res.response[0]
        return {"res": {"ok": {"content": m.get("content"), "tool_calls": [{"id": t["id"], "name": t["function"]["name"], "args": sorted(t["function"]["arguments"])} for t in m.get("tool_calls", [])],
                               "events": [max(i for i, e in enumerate(evs) if e == x) for x in m.get("events", [])], "role": m.get("role"), "n": len(res.response)}}}
    except Exception as e:  # noqa
        return {"res": _exc(e)}
    finally:
        del rt.process_events


def run_impl(case):
    k = case["kind"]
    if k == "ws":
        ws = [n for n in range(0x110000) if not (0xD800 <= n <= 0xDFFF) and chr(n).strip() == ""]
        lb = [n for n in range(0x110000) if not (0xD800 <= n <= 0xDFFF) and len(("a" + chr(n) + "b").splitlines()) == 2]
        return {"ws": ws, "lb": lb}
    if k == "fn":
        return fn_impl(case["s"], case["k"])
    if k == "act":
        return act_impl(case)
    if k == "botmsg":
        return botmsg_impl(case)
    if k == "e2e":
        ctx = {"secret": E.SECRET} if not case["mode"].startswith("v2") else None
        # 2.x: the state returned with every turn is checked (cheaply on every turn; restored after the last turn of
        # every conversation that generates a value and of a fixed eighth of the others; the other turns' states are restored by the next turn)
        full = case["mode"] in ("v2_value", "v2_quote", "v2_value2") or zlib.crc32(json.dumps(case, sort_keys=True).encode()) % 8 == 0
        return E.run_conversation(case["mode"], case["turns"], case["llm"], case["fallback"], context=ctx, api=case.get("api"), full_state_check=full, fresh=bool(case.get("fresh")))
    if k == "asm":
        return asm_impl(case)
    raise ValueError(k)


# ----------------------------------------------------------------------------- model

def model_requests(case, obs):
    k = case["kind"]
    if k == "ws":
        return [{"m": "C17.ws"}]
    if k == "fn":
        return [{"m": "C17.all", "s": case["s"], "k": case["k"], "parser": "none"}]
    if k == "act":
        reqs = [{"m": "C17.all", "s": case["s"], "k": 2, "parser": obs.get("parser", "none")},
                {"m": "C17.gen", "s": case["s"], "parser": obs.get("parser", "none"), "uuid": UUID[:8], "name": obs.get("name", "x"), "last_prompt_line": obs.get("last_prompt_line", "\x00none"), "lit": obs.get("lit", "raised")}]
        if "lit_tree" in obs:
            reqs[1]["lit_tree"] = obs["lit_tree"]
        if case["task"] == "ms_next_step":
            reqs.append({"m": "C17.ms", "s": case["s"], "parser": obs.get("parser", "none"), "parses": obs["parses"]})
        if case["task"] == "gen_events":
            reqs.append({"m": "C17.genloop", "base": case["script"]["base"], "table": case["script"]["table"], "default": case["script"]["default"]})
        if case["task"] == "ms_start_flow" and obs.get("src") is not None:
            rq = {"m": "C17.msflow", "flow_id": obs["flow_id"], "body": case["s"], "next_raised": "err" in obs["start_flow"] and obs["start_flow"]["err"] != "Hang" and obs.get("parse_flows") == [obs["flow_id"]]}
            if obs.get("parse_flows") is not None:
                rq["flows"] = obs["parse_flows"]
            reqs.append(rq)
        return reqs
    if k == "botmsg":
        ctx = []
        for key, v in BOT_CTX.items():
            ctx.append([key, v if isinstance(v, str) else bool(v)])
        req = {"m": "C17.botmsg", "bot_messages": obs["bot_messages"], "ctx": ctx, "render": obs["render_calls"], "bot_intent": case["bot_intent"], "parser": obs["parser"], "llm": case["s"], "pick": 0}
        if case.get("sc"):
            req["sc"] = case["sc"]
        return [req]
    if k == "asm":
        evs = []
        for e in case["events"]:
            d = {"type": e["type"], "keys": sorted(x for x in e if True)}
            for key in ("script", "final_script", "action_uid"):
                if key in e:
                    d[key] = e[key]
            evs.append(d)
        return [{"m": "C17.asm", "v": case["v"], "events": evs}]
    return []


def enc(s):
    """the driver's string encoding (Drive/C17.lean `encChar`)"""
    return "".join(c if 32 <= ord(c) < 127 and c != "\\" else "\\u{%x}" % ord(c) for c in s)


def encj(x):
    if isinstance(x, str):
        return enc(x)
    if isinstance(x, list):
        return [encj(y) for y in x]
    if isinstance(x, dict):
        return {k: encj(v) for k, v in x.items()}
    return x


def compare(case, obs, mouts):
    m = mouts[0]
    k = case["kind"]
    if k in ("fn", "act", "botmsg"):
        obs = encj(obs)
    if k == "asm":
        r = obs["res"]
        if "err" in r:
            return None if m.get("err") == r["err"] else f"response assembly of generate_async raised {r['err']}, model {m}"
        if "ok" not in m:
            return f"response assembly of generate_async returned {r['ok']!r}, model {m}"
        got = r["ok"]
        if case["v"] == "1.0":
            want = m["ok"]
            if got.get("role") == "assistant":
                got = {"role": "assistant", "content": enc(got.get("content")) if isinstance(got.get("content"), str) else got.get("content")}
            return None if got == want else f"response assembly (1.0): implementation {got!r} model {want!r}"
        want = m["ok"]
        got2 = {"content": enc(got["content"]) if isinstance(got["content"], str) else got["content"], "tool_calls": encj(got["tool_calls"]), "events": got["events"]}
        # identical events cannot be told apart by value: compare the events list by the events themselves
        evs = case["events"]
        same = got2["content"] == want["content"] and got2["tool_calls"] == [dict(t, args=sorted(t["args"])) for t in want["tool_calls"]] and [evs[i] for i in got2["events"]] == [evs[i] for i in want["events"]]
        return None if same and got["role"] == "assistant" and got["n"] == 1 else f"response assembly (2.x): implementation {got!r} model {want!r}"
    if k == "ws":
        if sorted(m["ws"]) != obs["ws"]:
            return f"whitespace table of Py/Str.lean differs from str.strip(): model-only {sorted(set(m['ws']) - set(obs['ws']))}, python-only {sorted(set(obs['ws']) - set(m['ws']))}"
        if sorted(m["lb"]) != obs["lb"]:
            return f"line-boundary table differs from str.splitlines(): model {m['lb']} python {obs['lb']}"
        return None
    if k == "act":
        g = mouts[1]
        for key in ("from_instructions", "from_name", "continuation", "from_nld", "value_v2", "user_intent_v2"):
            if key in obs and g.get(key) != obs[key]:
                return f"{key}: implementation {obs[key]!r} model {g.get(key)!r} (parser {obs.get('parser', 'none')})"
        if "wrapper" in obs:
            # literal_eval is an oracle: the model is driven with what it DID on this text (raised / the literal as a tree); the wrapper
            # (try: literal_eval / guard `_is_plain_value` / `Invalid LLM response`) must behave like `generateValueV2R` and the guard
            # like `Lit.isPlain` on every literal - at every position of the tree (elements, values, dict KEYS, tuples inside keys)
            w, mw = obs["wrapper"], g["value_v2_wrapper"]
            if obs["lit"] != "raised":
                if mw.get("is_plain") is None:
                    return f"GenerateValueAction: literal_eval returned a value outside the model's `Lit`: {obs.get('lit_tree')}"
                if obs["lit_storable"] != mw["storable"]:
                    return f"state_to_json: implementation {'accepts' if obs['lit_storable'] else 'refuses'} the literal {json.dumps(obs['lit_tree'])[:300]}, model Lit.storable {mw['storable']!r}"
                # inside the region of the open finding (a plain literal with an unprintable int) the guard of the proposed repair
                # (`generateValueV2S`: not plain) is accepted as well, so that the tie also holds on the repaired tree
                in_open = mw["is_plain"] and not mw["storable"]
                if obs["real_plain"] != mw["is_plain"] and not (in_open and obs["real_plain"] is False and w == "invalid"):
                    return f"_is_plain_value: implementation {obs['real_plain']!r}, model Lit.isPlain {mw['is_plain']!r} on the literal {json.dumps(obs['lit_tree'])[:300]}"
                if (obs["lit"] == "plain") != mw["is_plain"]:
                    return f"Lit.isPlain {mw['is_plain']!r} but the harness classifies the literal as {obs['lit']}"
                if in_open and w == "invalid" and mw["storable_repair"] == "invalid":
                    w = "ok-plain"
            want = {"ok": "ok-plain", "invalid": "invalid"}.get(mw["repaired"])
            if w != want:
                return f"GenerateValueAction wrapper: literal_eval {obs['lit']}, implementation {w}, model {mw['repaired']} (before repair 98bf321: {mw['as_is']})"
        if "intent_and_action" in obs:
            v = obs["intent_and_action"]
            if not (isinstance(v, dict) and "err" in v) and g["intent_and_action"] != v:
                return f"intent_and_action: implementation {v!r} model {g['intent_and_action']!r}"
            if isinstance(v, dict) and "err" in v:
                return f"generate_user_intent_and_bot_action raised {v}, the model never does"
        if "gen_events" in obs:
            # generate_events loop: as-is model everywhere; where the as-is model raises (step raised / 100-event valve: the two
            # open findings) the repaired behaviour is accepted as well
            real, a, r = obs["gen_events"], mouts[2]["as_is"], mouts[2]["repaired"]
            if real != a and not (a["res"] in ("raised", "too_many") and real == r):
                return f"generate_events loop: implementation {real!r} model as-is {a!r} repaired {r!r}"
        if "ms" in obs:
            mm = mouts[2]
            if obs["ms"] != mm:
                return f"multi-step next step: implementation {obs['ms']!r} model {mm!r}"
        if "start_flow" in obs:
            if obs.get("src") is not None and mouts[2]["src"] != obs["src"]:
                return f"dynamic flow source: implementation {obs['src']!r} model {mouts[2]['src']!r}"
            r = obs["start_flow"]
            if "ok" in r:
                fallback = r["ok"] == [enc("BotIntent:general response")]
                if fallback == bool(obs["parses_flow"]) and not (obs["parses_flow"] and fallback):
                    return f"_process_start_flow: parses_flow={obs['parses_flow']} but result {r['ok']}"
            # try/except structure (processStartFlowE): the model is driven with the parser's observed behaviour
            if obs.get("src") is not None and r.get("err") != "Hang" and len(mouts) > 2 and "res" in mouts[2]:
                real = "raised" if "err" in r else ("fallback" if r["ok"] == [enc("BotIntent:general response")] else "next")
                if mouts[2]["res"] != real and not (real == "fallback" and mouts[2]["res"] == "next" and obs.get("parse_flows") == [obs["flow_id"]]):
                    return f"_process_start_flow try/except: parser behaviour {obs.get('parse_flows')!r} (None = raised), implementation {real}, model {mouts[2]['res']}"
        obs = {kk: vv for kk, vv in obs.items() if kk not in ("from_instructions", "from_name", "continuation", "from_nld", "value_v2", "user_intent_v2", "intent_and_action", "ms", "start_flow", "parses", "src", "flow_id", "parses_flow", "parse_flows", "name", "last_prompt_line", "lit", "wrapper", "gen_events", "lit_tree", "real_plain", "storable", "lit_storable")}
    if k in ("fn", "act"):
        for key, v in obs.items():
            if key in ("parser", "nonascii"):
                continue
            if key == "v2_value_seen":
                # 2.x: value.replace(last_prompt_line, "").strip() after the shared steps
                mv = m["post_value"]
                if isinstance(v, dict) and "err" in v:
                    if "err" not in mv:
                        return f"v2 generate_value raised {v} before literal_eval, model {mv}"
                    continue
                if "ok" in mv and mv["ok"].strip() == v:
                    continue
                if "ok" in mv and v in mv["ok"]:
                    continue  # the prompt-line removal applied (not modelled)
                return f"v2 generate_value handed {v!r} to literal_eval, model {mv}"
            if key == "post_user_intent_v2" and obs.get("nonascii"):
                continue
            if m.get(key) != v:
                return f"{key}: implementation {v!r} model {m.get(key)!r} (parser {obs.get('parser', 'none')})"
        return None
    if k == "botmsg":
        r = obs["res"]
        if "err" in r:
            return None if m.get("err") == r["err"] else f"generate_bot_message raised {r['err']}, model {m}"
        if "ok" not in m:
            return f"generate_bot_message returned {r}, model {m}"
        mo = m["ok"]
        if mo["text"] != r["ok"]["text"]:
            return f"BotMessage text: implementation {r['ok']['text']!r} model {mo['text']!r}"
        if mo["rendered"] != [c[0] for c in obs["render_calls"]]:
            return f"render calls: implementation {[c[0] for c in obs['render_calls']]} model {mo['rendered']}"
        if (mo["src"] == "predefined") != r["ok"]["skip_output_rails"]:
            return f"skip_output_rails {r['ok']['skip_output_rails']} but model source {mo['src']}"
        if not case.get("sc") and (mo["src"] == "llm") != (obs["llm_calls"] > 0):
            return f"LLM called {obs['llm_calls']} times but model source {mo['src']}"
        return None
    return None


# ----------------------------------------------------------------------------- oracle (property statement)

def _content_of(mode, reply):
    """(well-formed?, text) of what `generate` returned"""
    if mode.startswith("v2"):
        if not isinstance(reply, list):
            return False, ""
        texts = []
        for msg in reply:
            if not isinstance(msg, dict) or msg.get("role") != "assistant" or not isinstance(msg.get("content", ""), str):
                return False, ""
            texts.append(msg.get("content", ""))
        return True, "\n".join(texts)
    if not isinstance(reply, dict) or reply.get("role") not in ("assistant", "exception"):
        return False, ""
    c = reply.get("content")
    if reply.get("role") == "exception":
        return isinstance(c, dict), json.dumps(c)
    return isinstance(c, str), c if isinstance(c, str) else ""


_SEG_RE = re.compile(re.escape(MARK_L) + r".*?" + re.escape(MARK_R), re.S)


def _marked_segments(case):
    want = set()
    for x in case["llm"] + [case["fallback"]]:
        if MARK_L not in x:
            continue
        cands = [x]
        for y in [x.strip()] + [ln.strip() for ln in x.splitlines()]:
            if y[:1] in ("\"", "'"):
                try:
                    with warnings.catch_warnings():
                        warnings.simplefilter("ignore")
                        v = ast.literal_eval(y)
                    if isinstance(v, str):
                        cands.append(v)
                except Exception:  # noqa
                    pass
        for c in cands:
            want.update(_SEG_RE.findall(c))
    return want


def _quoted_part(text):
    """the part of a reply of the quote configuration that stands for `last_bot_message` (None: not such a reply)"""
    if text.startswith(E.QUOTE_PREFIX):
        return text[len(E.QUOTE_PREFIX):]
    if text.startswith(E.QUOTE2_PREFIX) and text.endswith(E.QUOTE2_SUFFIX) and len(text) >= len(E.QUOTE2_PREFIX) + len(E.QUOTE2_SUFFIX):
        return text[len(E.QUOTE2_PREFIX): len(text) - len(E.QUOTE2_SUFFIX)]
    return None


def _has_sentinel_syntax(case):
    return any(any(t in x for t in (SENT_EXPR, "secret", "191*7")) for x in case["llm"] + [case["fallback"]])


def oracle(case, obs):
    k = case["kind"]
    if k == "botmsg":
        # LLM text must never be handed to the renderer: every rendered template is a predefined message of the config
        pre = {m for _, ms in obs["bot_messages"] for m in ms}
        for tpl, _ in obs["render_calls"]:
            if tpl not in pre:
                return f"render:non-predefined text reached _render_string: {tpl[:80]!r}"
        r = obs["res"]
        if "ok" in r:
            if not isinstance(r["ok"]["text"], str) or r["ok"]["text"] == "":
                return "malformed:generate_bot_message produced an empty / non-string BotMessage text"
            if obs["llm_calls"] > 0 and SENT_EXPR in case["s"] and SENT_VALUE in r["ok"]["text"] and SENT_VALUE not in case["s"]:
                return "evaluated:template expression inside LLM text was evaluated by generate_bot_message"
        return None
    if k in ("fn", "ws"):
        return None
    if k == "asm":
        # whatever the texts / types of the new events are, the assembly yields a message; the only exception it may raise is the
        # KeyError of an event that lacks the key its type promises (the runtimes never create such events: not LLM-controlled)
        r = obs["res"]
        if "err" in r:
            if r["err"] == "KeyError" and not _asm_keys_present(case):
                return None
            return f"escape:response assembly of generate_async raised {r['err']} on new events {str(case['events'])[:300]}"
        o = r["ok"]
        if case["v"] == "1.0":
            if not (isinstance(o, dict) and ((o.get("role") == "assistant" and isinstance(o.get("content"), str)) or (o.get("role") == "exception" and o.get("index", -1) >= 0))):
                return f"malformed:response assembly returned {str(o)[:200]}"
        elif not (o.get("role") == "assistant" and isinstance(o.get("content"), str) and o.get("n") == 1):
            return f"malformed:response assembly (2.x) returned {str(o)[:200]}"
        return None
    if k == "act":
        # a value that GenerateValueAction RETURNS is stored in a flow context, and the state is serialised at the end of the turn
        # (outside every try/except): the serialisation must accept it and give it back
        if obs.get("storable"):
            return f"escape:GenerateValueAction returned a value the state serialisation refuses ({obs['storable']}): the turn that stores it raises out of generate"
        # an action may raise (contained by the dispatcher) but a returned event must be well-formed
        for key, v in obs.items():
            if key in ("post_user_intent", "post_general", "post_user_intent_v2"):
                if isinstance(v, dict) and "err" in v:
                    continue
                if not isinstance(v, str) or (key != "post_general" and v == ""):
                    return f"malformed:{key} returned {v!r}"
            if key in ("post_bot_message",) and isinstance(v, dict) and "ok" in v and (not isinstance(v["ok"], str) or v["ok"] == ""):
                return f"malformed:{key} returned {v!r}"
            if key == "post_single_call" and isinstance(v, dict) and "ok" in v and any((not isinstance(x, str)) or x == "" for x in v["ok"].values()):
                return f"malformed:{key} returned {v!r}"
        return None
    # e2e
    mode = case["mode"]
    if obs.get("setup") == "hang":
        return None
    for t, rec in enumerate(obs["turns"]):
        if rec.get("hang"):
            return f"hang:turn {t}: generate did not return within the CPU budget"
        if "raised" in rec:
            return f"escape:turn {t}: generate raised {rec['raised']} (at {rec.get('where')})"
        ok, text = _content_of(mode, rec["reply"])
        if not ok:
            return f"malformed:turn {t}: generate returned {str(rec['reply'])[:200]}"
        # 2.x: a turn that returned must have ended with a state the serialisation accepts (whatever the LLM said, whatever value was generated)
        if rec.get("state_problem"):
            return f"state:turn {t}: the state returned by generate is {rec['state_problem']}"
        if _has_sentinel_syntax(case):
            if SENT_VALUE in text and not any(SENT_VALUE in x for x in case["llm"] + [case["fallback"]]):
                return f"evaluated:turn {t}: template/interpolation expression (191*7) from an LLM completion was evaluated: reply {text[:200]!r}"
            if E.SECRET in text:
                return f"evaluated:turn {t}: variable syntax from an LLM completion was dereferenced: the reply contains the value of $secret: {text[:200]!r}"
        # literal pass-through of marked message text: EVERY marked segment of the reply is a marked segment of an LLM completion
        # (as written, or as the Python string literal it denotes: generated values go through literal_eval)
        if MARK_L in text:
            want = _marked_segments(case)
            segs = _SEG_RE.findall(text)
            if want and not segs:
                return f"rewritten:turn {t}: marked LLM message text came back altered: {None!r} not in {sorted(want)!r}"
            for seg in segs:
                if want and seg not in want:
                    return f"rewritten:turn {t}: marked LLM message text came back altered: {seg!r} not in {sorted(want)!r}"
        # stored-then-quoted: a predefined message that quotes `last_bot_message` shows the previous reply literally
        if mode in ("dialog_q", "single_call_q") and t >= 1 and isinstance(text, str) and case.get("api") != "prompt":  # `prompt=`: every call is a new conversation
            q = _quoted_part(text)
            prev = _content_of(mode, obs["turns"][t - 1]["reply"])[1] if "reply" in obs["turns"][t - 1] else None
            if q is not None and isinstance(prev, str) and prev != "":
                # every bot utterance goes through the documented cleaning `\\n` -> newline (not template / variable syntax): compare modulo it
                prev_c, q_c = prev.replace("\\n", "\n"), q.replace("\\n", "\n")
                tails = {prev_c} | {prev_c[i + 1:] for i, ch in enumerate(prev_c) if ch == "\n"}
                if q_c not in tails:
                    return f"rewritten:turn {t}: the predefined message quotes the previous bot message, but not literally: quoted {q[:160]!r}, previous reply {prev[:160]!r}"
    return None


def _asm_keys_present(case):
    for e in case["events"]:
        t = e["type"]
        if case["v"] == "1.0":
            if t == "StartUtteranceBotAction" and "script" not in e:
                return False
        else:
            if re.match(START_ACTION_RE, t):
                if "action_uid" not in e:
                    return False
            elif t == "UtteranceBotActionFinished" and "final_script" not in e:
                return False
    return True


def signature(case, obs, msg):
    k = case["kind"]
    if k == "act" and obs.get("storable") and (msg or "").startswith(("escape:GenerateValueAction", "_is_plain_value", "GenerateValueAction")):
        # same class of failing inputs as the end-to-end escape: named by the serialisation step that refuses the value
        st = obs["storable"]
        where = "state_to_json:ValueError" if st.startswith("state_to_json: ValueError") else "encode_to_dict:Exception" if st.startswith("state_to_json: Exception: Unhandled type") else "state:" + st.split(":")[1].strip()
        return "escape:v2_value:serialization.py:" + where
    if k != "e2e":
        return (msg or "").split(":")[0] + ":" + k if msg else None
    mode = case["mode"]
    cls = (msg or "").split(":")[0]
    if cls in ("escape", "hang") and mode in ("v2_quote", "v2_value2"):
        mode = "v2_value"  # the same GenerateValueAction conversation family: one class of failing inputs
    if cls in ("escape", "hang"):
        for rec in obs["turns"]:
            if rec.get("hang") or "raised" in rec:
                through = rec.get("through") or []
                if rec.get("exc_type") == "MarkupError" and "emit" in through:
                    return f"{cls}:verbose-log:rich-markup"  # any mode: the verbose log handler prints LLM text as rich markup
                if mode.startswith("multi_step") and "_load_flow_config" in through:
                    return f"{cls}:multi_step:_load_flow_config"
                if mode == "multi_step" and str(rec.get("where", "")).endswith("eval_expression"):
                    return f"{cls}:{mode}:generated-flow-expression"
                if rec.get("via_start_flow") or "_process_start_flow" in through:
                    return f"{cls}:{mode}:_process_start_flow"
                if "Too many events" in rec.get("raised", ""):
                    return f"{cls}:{mode}:generate_events:too-many-events"
                return f"{cls}:{mode}:{rec.get('where', '?')}:{rec.get('exc_type', 'hang')}"
        return f"{cls}:{mode}:?"
    bad = _bad_turn_text(case, obs, msg)
    if cls == "evaluated":
        # known: the LLM predicted the bot INTENT `$secret`; generate_bot_message answers with the variable's value - the whole
        # message is that value.  Anything else that makes the secret / 1337 appear (a quote, a rendered template) is a new class.
        if (mode in ("dialog", "single_call", "multi_step", "dialog_q", "single_call_q") and "$secret" in (msg or "") and bad is not None and bad.strip() == E.SECRET
                and any(re.search(r"(^|\n)\s*(bot|Bot intent:)\s+\$secret", x) for x in case["llm"] + [case["fallback"]])):
            return "evaluated:v1:llm-bot-intent-context-var"
        if mode in ("v2_flowgen", "v2_utter", "v2_intent"):
            return "evaluated:v2:generated-flow-interpolation"
        return f"evaluated:{mode}"
    if cls == "rewritten":
        if mode in ("v2_flowgen", "v2_utter", "v2_intent"):
            return "rewritten:v2:interpolation-of-llm-text"  # the LLM wrote the flow: its text is a string literal of Colang source
        if mode in ("v2_value", "v2_quote", "v2_value2"):
            # known: the flow author interpolates a generated value (`"got: {$v}"`, `"again: {$v}"`) and eval_expression re-reads it.
            # A generated value uttered without interpolation (`bot say $v`) must come back literally: a different class.
            if bad is not None and any(ln.startswith(pre) for ln in bad.split("\n") for pre in V2_INTERPOLATION_PREFIXES if MARK_L in ln):
                return "rewritten:v2:interpolation-of-llm-text"
            return f"rewritten:{mode}:not-interpolated"
        return f"rewritten:{mode}"
    return f"{cls}:{mode}"


V2_INTERPOLATION_PREFIXES = ["got: ", "again: ", "second: "]


def _bad_turn_text(case, obs, msg):
    """text of the reply of the turn the oracle message names"""
    m = re.match(r"\w+:turn (\d+):", msg or "")
    if not m:
        return None
    t = int(m.group(1))
    if t < len(obs.get("turns", [])) and "reply" in obs["turns"][t]:
        return _content_of(case["mode"], obs["turns"][t]["reply"])[1]
    return None


def nontrivial(case, obs):
    k = case["kind"]
    if k == "act" and case.get("task") == "gen_events":
        return bool(case["script"]["table"]) or case["script"]["default"] != ["Listen"]
    if k == "act" and case.get("inject") is not None:
        return True
    if k in ("fn", "act", "botmsg"):
        s = case["s"]
        return "\n" in s or any(p.strip() and p in s for p in PREFIXES) or any(t in s for t in TEMPLATES) or "\"" in s
    if k == "asm":
        return len(case["events"]) > 0
    if k == "e2e":
        return obs.get("llm_calls", 0) > min(case["pos"]) if case["pos"] else False
    return True


def tags(case, obs):
    k = case["kind"]
    t = ["kind:" + k]
    if k == "fn":
        s = case["s"]
        t.append("len:" + ("0" if not s else "1-20" if len(s) <= 20 else "21-100" if len(s) <= 100 else ">100"))
        t.append("lines:" + str(min(5, s.count("\n") + 1)))
        t.append("first_line:" + ("none" if obs["first_line"] is None else "some"))
        if not s.isascii():
            t.append("nonascii")
        for key in ("strip_quotes", "multiline", "top_k"):
            if "err" in obs[key]:
                t.append(f"{key}:err:" + obs[key]["err"])
    elif k == "act":
        t.append("task:" + case["task"])
        t.append("parser:" + obs.get("parser", "?"))
        if "wrapper" in obs:
            t.append("literal_eval:" + obs["lit"] + "->" + obs["wrapper"])
            if "lit_tree" in obs:
                for pos in sorted(nonplain_positions(obs["lit_tree"])):
                    t.append("literal:nonplain-at:" + pos)
        if "gen_events" in obs:
            t.append("gen_events:" + obs["gen_events"]["res"])
        if case.get("inject") is not None:
            t.append("parser-injected:" + ("raise" if "raise" in case["inject"] else "flows" + str(len(case["inject"]["flows"]))))
        for key, v in obs.items():
            if isinstance(v, dict) and "err" in v:
                t.append(f"{key}:err:{v['err']}")
    elif k == "botmsg":
        r = obs["res"]
        t.append("botmsg:" + ("err:" + r["err"] if "err" in r else ("rendered" if obs["render_calls"] else ("llm" if obs["llm_calls"] else "context"))))
    elif k == "asm":
        r = obs["res"]
        t.append("asm:" + case["v"] + ":" + ("err:" + r["err"] if "err" in r else "exception" if r["ok"].get("role") == "exception" else "assistant"))
        t.append("asm:events:" + str(min(6, len(case["events"]))))
        if any(e.get("script") == "(remove last message)" for e in case["events"]):
            first = next((e.get("script") for e in case["events"] if e["type"] == "StartUtteranceBotAction"), None)
            t.append("asm:control-script" + (":first" if first == "(remove last message)" else ":later"))
    elif k == "e2e":
        if case.get("ctrl") is not None:
            t.append("ctrl:literal" + (":NEW" if case.get("new_literal") else ""))
        t.append("api:" + case.get("api", "default"))
        t.append("mode:" + case["mode"])
        t.append("calls:" + str(min(8, obs.get("llm_calls", 0))))
        for rec in obs["turns"]:
            if rec.get("hang"):
                t.append("e2e:hang")
            elif "raised" in rec:
                t.append("e2e:raised:" + rec.get("exc_type", "?"))
            else:
                ok, text = _content_of(case["mode"], rec["reply"])
                t.append("reply:" + ("internal-error" if FIXED_REPLIES[0] in text else "not-sure" if FIXED_REPLIES[1] in text else "silent" if text == "" else "text"))
                if case["mode"] in ("dialog_q", "single_call_q") and _quoted_part(text) is not None:
                    t.append("quoted:last_bot_message" + (":marked" if MARK_L in text else ""))
                elif case.get("quote") and MARK_L in text:
                    t.append("quoted:marked-text-in-reply")
    return t


def shrink(case):
    if case["kind"] in ("fn", "act", "botmsg"):
        s = case["s"]
        n = len(s)
        if n > 1:
            yield dict(case, s=s[: n // 2])
            yield dict(case, s=s[n // 2:])
        for i in range(min(n, 40)):
            yield dict(case, s=s[:i] + s[i + 1:])
    elif case["kind"] == "asm":
        for i in range(len(case["events"])):
            yield dict(case, events=case["events"][:i] + case["events"][i + 1:])
    elif case["kind"] == "e2e":
        if case.get("value") and not case.get("fresh"):
            # value conversations: shrink on a NEW LLMRails instance, so that the reported input does not depend on what the worker's
            # shared instance saw before (a failure that needs the second use of something keeps the turns that provide it)
            case = dict(case, fresh=True)
            yield case
        if case.get("api"):
            yield {kk: vv for kk, vv in case.items() if kk != "api"}
        if len(case["turns"]) > 1:
            yield dict(case, turns=case["turns"][:-1])
        bases = {b[0]: b for b in base_conversations()}
        for i, x in enumerate(case["llm"]):
            if len(x) > 1:
                yield dict(case, llm=case["llm"][:i] + [x[: len(x) // 2]] + case["llm"][i + 1:])
                yield dict(case, llm=case["llm"][:i] + [x[len(x) // 2:]] + case["llm"][i + 1:])


def escalate(rng, focus, tier):
    """focused search after a broken proof / correspondence / tie: the end-to-end hostile search (the only place where
    a change of the text helpers can turn into an escaping exception, a hang or an evaluated sentinel), plus the
    actions around the differing text."""
    n = 500 if tier == "quick" else 4000
    cases = gen_e2e(rng, n)
    texts = [focus["s"]] if focus and "s" in focus else []
    for b in base_conversations():
        mode, turns, script, msgpos, fb = b
        for t in texts:
            for pos in range(len(script)):
                resp = list(script)
                resp[pos] = t
                cases.append({"kind": "e2e", "mode": mode, "turns": turns, "llm": resp, "fallback": fb, "pos": [pos], "msgpos": msgpos})
    for _ in range(n):
        cases.append(g_botmsg(rng))
    cases = gen_control(rng, n, "thorough" if tier == "thorough" else "quick") + gen_quote(rng, n // 2) + cases
    if focus and focus.get("task") in ("v2_value", "value"):
        # a broken guard / wrapper correspondence: the differing completion and the literal grammar at every value-generation call
        for mode, turns, script, pos, msgpos, fb in value_bases():
            resp = list(script)
            for p in (msgpos if mode == "v2_value2" else [pos]):
                resp[p] = focus["s"]
            cases.insert(0, {"kind": "e2e", "mode": mode, "turns": turns, "llm": resp, "fallback": fb, "pos": [pos], "msgpos": msgpos, "value": True})
        cases = cases[: len(value_bases())] + gen_value_e2e(rng, "thorough" if tier == "thorough" else "quick") + cases[len(value_bases()):]
    return cases
