"""C03 — failing actions are contained and rails fail closed.

Shares the `Pipeline` (+ `Dispatch`) model, translator and real-pipeline adapter with C01.  Faults are
injected by the scripted actions raising at chosen (site, call index): each input rail, each output
rail, the custom action of a dialog flow, and (Colang 1.0) a user-supplied `retrieve_relevant_chunks`.
quick: all single faults x turn <= 3 for configurations with <= 3 rails (enumerated); thorough adds
all pairs and sampled triples.  Static tie: AST scan of the dispatcher and both runtimes.
Oracle: literal transcription of the property text on the recorded observations.
"""
import itertools

from ..impl import pipeline_cases as G
from ..translate import c01 as tr

PROPERTY = "C03"
CASE_TIMEOUT = 300  # s of wall clock per case in pool workers (runner watchdog): a case that spins forever is a verdict, not exit 2
THEOREM_MODULE = "NemoVerif.Theorems.C03"
METHOD = "C03.conv"
RULE = ("case as in C01 with faults: fault sites = every input rail, every output rail, the dialog action, retrieve_relevant_chunks (1.0); "
        "the exception value of a fault is one of: message / empty str() (ValueError(), TimeoutError(), bare assert, NotImplementedError()) / multi-line / KeyError, raised from async functions (even rail ids), sync functions (odd ids) and a class-based action (dialog action); every site x every turn <= 3 enumerated for the configuration table (pairs / triples in thorough), the faulty turn is followed by a clean turn. "
        "non-trivial = a scripted fault was actually reached (the faulting action was invoked); distinct = distinct case JSON.")
TRUSTED_BASE = [
    "translator + static AST tie harness/translate/c01.py, adapter harness/impl/pipeline.py, Lean driver Drive/C01.lean (shared with C01)",
    "Python exception semantics of try/except in ActionDispatcher.execute_action (mirrored by Dispatch.execute, tied by the AST scan and by fault injection)",
]
ASSUMPTIONS = [
    "LLM provider failures (LLMCallException) are excluded by the property; the model forwards them (`Verdict.escape`)",
    "a fault is an ordinary Exception raised by the registered python callable",
    "Colang 1.0 configurations stay below the 100-events-per-turn cap (the cap itself raises `Exception('Too many events.')`)",
]
EXHAUSTIVE = {"quick": True, "thorough": True}

worker_init = G.worker_init
run_impl = G.run_impl
compare = G.compare
tags = G.tags
shrink = G.shrink


def translate():
    return tr.run()


def static_tie():
    return tr.static_tie()


def model_requests(case, obs):
    return G.model_requests(case, obs, METHOD)


fault_reached = G.fault_reached


def nontrivial(case, obs):
    return any(fault_reached(tc, to) for tc, to in zip(case["turns"], obs["turns"]))


SHAPES = [([0], [0]), ([0, 1], [0]), ([0], [0, 1])]


def sites(cfg):
    s = [("in", i) for i in sorted(set(cfg["in"]))] + [("out", i) for i in sorted(set(cfg["out"]))]
    if cfg["dialog"]:
        s.append(("act", 0))
    if cfg["ver"] == "1.0":
        s.append(("retr", 0))
    return s


def apply_fault(rng, cfg, turn, site, exc_kind=None):
    kind, i = site
    if exc_kind is not None:
        turn["exc_kind"] = exc_kind
    if kind in ("in", "out"):
        key = "vin" if kind == "in" else "vout"
        turn[key] = [[r, ("f" if r == i else v)] for r, v in turn[key]]
    elif kind == "act":
        turn["intent"] = "act"
        turn["act_fault"] = True
        if cfg["ver"] == "2.x":
            turn["user"] = G.ACT_TEXT
    else:
        turn["retr_fault"] = True
        # the retrieval action only runs when a bot intent is produced: a refusal or a dialog answer
        if not cfg["dialog"] and cfg["in"]:
            r0 = cfg["in"][0]
            turn["vin"] = [[r, ("r" if r == r0 else v)] for r, v in turn["vin"]]


def gen_cases(rng, tier):
    cases = []
    cfgs = [c for c in G.all_cfgs(SHAPES, carries=("messages", "state") if tier == "thorough" else ("messages",))
            if G.fits(c["ver"], c["dialog"], len(c["in"]), len(c["out"]))]
    n = 0
    for cfg in cfgs:
        ss = sites(cfg)
        for pos in range(3):
            for site in ss:
                # the exception VALUE cycles through the kinds (message / empty str() / multi-line / TimeoutError / assert / ...)
                c = dict(cfg)
                c["turns"] = [G.clean_turn(rng, cfg, k + 1) for k in range(pos + 2)]
                apply_fault(rng, cfg, c["turns"][pos], site, G.P.EXC_KINDS[n % len(G.P.EXC_KINDS)])
                n += 1
                cases.append(c)
        # every site once more with an exception whose str() is empty, and once with a multi-line message
        for site in ss:
            for ek in (("empty", "multiline") if tier == "quick" else tuple(G.P.EXC_KINDS)):
                c = dict(cfg)
                c["turns"] = [G.clean_turn(rng, cfg, k + 1) for k in range(2)]
                apply_fault(rng, cfg, c["turns"][0], site, ek)
                cases.append(c)
        if tier == "thorough":
            for (p1, s1), (p2, s2) in itertools.combinations([(p, s) for p in range(3) for s in ss], 2):
                c = dict(cfg)
                c["turns"] = [G.clean_turn(rng, cfg, k + 1) for k in range(max(p1, p2) + 2)]
                apply_fault(rng, cfg, c["turns"][p1], s1)
                apply_fault(rng, cfg, c["turns"][p2], s2)
                cases.append(c)
    # stateless deployment (Colang 1.0 history rebuilt from the plain messages, no events cache): every site, turns 1 and 2
    for cfg in G.all_cfgs(SHAPES[:2], carries=("fresh",)):
        if cfg["ver"] != "1.0" or not G.fits(cfg["ver"], cfg["dialog"], len(cfg["in"]), len(cfg["out"])):
            continue
        for pos in range(2):
            for site in sites(cfg):
                c = dict(cfg)
                c["turns"] = [G.clean_turn(rng, cfg, k + 1) for k in range(pos + 2)]
                apply_fault(rng, cfg, c["turns"][pos], site)
                cases.append(c)
    # faults mixed with rejections / rewrites (random), incl. triples
    for _ in range(50 if tier == "quick" else 2500):
        cfg = G.gen_cfg(rng)
        w = (0.5, 0.12, 0.13, 0.25)
        cfg["turns"] = [G.gen_turn(rng, cfg, k + 1, w, w, p_retr=0.15) for k in range(rng.choice([2, 3, 4]))]
        cfg["turns"].append(G.clean_turn(rng, cfg, len(cfg["turns"]) + 1))
        if rng.random() < 0.4:
            G.collapse_texts(rng, cfg, p_bot=0.5, p_user=0.4)  # the texts after a fault repeat earlier ones
        if rng.random() < 0.2:
            G.inject_propagating(rng, cfg)  # ... and one turn ends by a failure that leaves `generate` by design
        cases.append(cfg)
    # failures that PROPAGATE (LLMCallException from the LLM call of a rail / of the generation, cancellation of the request at a
    # chosen step): the call returns nothing, the caller goes on from the last state it was given on the same LLMRails instance -
    # "the failure does not poison the conversation: the next turn is processed with all rails active"
    cases.extend(G.propagating_cases(rng, tier, "both"))
    # a fault after the rails' variables were set, then texts that repeat the visible / the hidden / an earlier rejected one
    # (user text and LLM text together), see pipeline_cases.REPEAT_PATTERNS
    cases.extend(G.repeat_cases(rng, tier, "both", patterns=[G.REPEAT_PATTERNS[i] for i in (0, 1, 5)] if tier == "quick" else None))
    cases.extend(G.repeat_cases(rng, tier, "in", patterns=G.REFUSAL_REPEAT[:1] if tier == "quick" else G.REFUSAL_REPEAT))
    return G.sort_cases(cases)


# ----------------------------------------------------------------------------- oracle (property text, on observations)

def expected_in(case, tc):
    n = 0
    for rid in G.eff_in(case, tc):
        n += 1
        if G.verdict_of(tc, "in", rid) in ("r", "f", "x"):
            break
    return G.eff_in(case, tc)[:n]


def turn_oracle(case, tc, to, after_fault):
    # "`generate` still returns normally" - but "LLM provider failures are excluded (they surface as LLMCallException by design)", and
    # so does the cancellation of the request's task: such a turn returns nothing; it must not poison the next one (checked below)
    if to["raised"]:
        if G.P.propagating(tc) and to["raised"].split(":")[0] in ("LLMCallException", "CancelledError"):
            return None
        return f"[raised] generate raised {to['raised']}"
    steps = to["steps"]
    rep = to["reply"]
    text = G.reply_text(rep)
    bot = G.sentinel(tc["bot"])
    # the output rails that ran on the bot message of this turn: those after the last generation call (a rail is shown the text its
    # predecessor left, which need not carry the LLM text's token any more - a later rail may even rewrite it back)
    gen_idx = [i for i, s in enumerate(steps) if s[0] == "llm" and s[1] in G.GEN_TASKS]
    last_gen = max(gen_idx) if gen_idx else -1
    out_ids = [s[2] for i, s in enumerate(steps) if s[0] == "rail" and s[1] == "out" and i > last_gen]
    carries_llm_text = bot in text
    # "f": the rail's action raises; "x": the rail's own LLM call fails (if the call returns at all, the content is not approved either)
    rail_fault = [s for s in steps if s[0] == "rail" and G.verdict_of(tc, s[1], s[2]) in ("f", "x")]
    if rail_fault:
        # "the content that action was guarding is treated as not approved, so the reply is a refusal or the fixed internal-error message"
        ok = (rep["role"] == "assistant" and text in (G.REFUSAL, G.INTERNAL_ERROR)) or (case["exc"] and rep["exc"] in ("InputRailException", "OutputRailException") and (case["ver"] == "1.0" or text == ""))
        if not ok:
            return f"[fault-reply] rail {rail_fault[0][1:3]} raised; the reply is neither the refusal nor the internal-error message: {rep}"
        if carries_llm_text:
            return f"[fault-leak] rail {rail_fault[0][1:3]} raised but the reply carries the LLM text"
        if rail_fault[0][1] == "in" and any(s[0] == "llm" for s in steps):
            return f"[fault-llm] input rail {rail_fault[0][2]} raised on the user message, yet {[s[1] for s in steps if s[0] == 'llm']} ran on it"
    # "never the unchecked LLM text" (also after a dialog / retrieval action fault)
    if carries_llm_text and out_ids != G.eff_out(case, tc):
        return f"[unchecked-text] the reply carries the LLM text but only output rails {out_ids} of {G.eff_out(case, tc)} ran on it"
    # "the next turn is processed with all rails active"
    if after_fault:
        ids = [s[2] for s in steps if s[0] == "rail" and s[1] == "in"]
        want = expected_in(case, tc)
        if ids != want:
            return f"[poisoned-input] after a faulty turn the input rails that ran are {ids}, expected {want}"
        stop = next((rid for rid in want if G.verdict_of(tc, "in", rid) == "r"), None)
        if stop is not None and any(s[0] == "llm" for s in steps):
            return f"[poisoned-reject] after a faulty turn input rail {stop} rejected the message, yet the LLM was called"
        if stop is not None and not (rep["exc"] or (rep["role"] == "assistant" and text in (G.REFUSAL, G.INTERNAL_ERROR))):
            return f"[poisoned-reply] after a faulty turn input rail {stop} rejected the message but the reply is {text[:80]!r}, not the refusal"
        # ... and it is THIS turn's content the rails are active on: nothing of the failed turn (or of any other) is what a rail
        # is shown or what is returned
        for kind, start, conf in (("in", tc["user"], G.eff_in(case, tc)), ("out", tc["bot"], G.eff_out(case, tc))):
            cur = start
            calls = [s for s in steps if s[0] == "rail" and s[1] == kind]
            if kind == "out" and case["ver"] == "2.x":
                continue  # 2.x: the refusal of an input rail passes the output rails as well
            for rid, s in zip(conf, calls):
                if s[2] != rid:
                    break
                if s[3] != cur:
                    return f"[poisoned-text] after a faulty turn {kind}put rail {rid} was shown {s[3]!r} instead of this turn's text {cur!r}"
                v = G.verdict_of(tc, kind, rid)
                if case["ver"] == "1.0" and G.is_rewrite(v):
                    cur = v[1]
            if kind == "out" and calls and rep["role"] == "assistant" and not rep["exc"] and text not in (G.REFUSAL, G.INTERNAL_ERROR, "", cur):
                return f"[poisoned-reply] after a faulty turn the reply {text[:80]!r} is neither this turn's checked text nor the refusal / internal-error message"
    return None


def oracle(case, obs):
    after_fault = False
    for k, (tc, to) in enumerate(zip(case["turns"], obs["turns"])):
        msg = turn_oracle(case, tc, to, after_fault)
        if msg:
            return f"turn {k + 1}: {msg}"
        after_fault = after_fault or fault_reached(tc, to)
    return None


def signature(case, obs, msg):
    return G.region_signature(case, obs, msg, oracle_codes_stale=("poisoned-input", "poisoned-reject", "unchecked-text", "fault-llm"), oracle_codes_flag=("unchecked-text",),
                              oracle_codes_fresh=("fault-reply", "fault-leak", "fault-llm", "unchecked-text"))
