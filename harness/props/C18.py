"""C18 — streaming output does not depend on how the LLM text is chunked.

Tie: differential on the real `nemoguardrails.streaming.StreamingHandler` (asyncio, in-process): for one
configuration (prefix / suffix / stop sequences), one text, one end-of-stream protocol, queue or `pipe_to`
mode, `push_chunk` or `on_llm_new_token` feeding, EVERY chunking of the text (all 2^(n-1) for short texts,
sampled for long ones) is pushed through a fresh handler; the items that reach the queue (or the piped
handler's queue), `completion` and the finished flag are compared item by item with the Lean model
(`Models/Stream.lean`, the repaired handler of fixes/C18-streaming-chunk-invariance.diff) and, where the
implementation departs from it (unpatched tree), with `Models/StreamAsIs.lean` (the handler as it is):
inside the region of an open finding the code must still behave like the as-is model.
Oracle: written from the property statement — the concatenation of the delivered chunks and `completion`
both equal `expected(text)` = drop the prefix, cut at the first stop sequence, drop the suffix — for every
chunking (hence identical across chunkings).

Phase 2/4 case kinds: `usage` (harness/impl/c18_usage.py: two real handlers driven exactly like
generate_intent_steps_message + generate_bot_message, every chunking x every schedule; also the value
wait_top_k_nonempty_lines returns), `topk` (one buffer through the real `_process` buffering branch and
`wait_top_k_nonempty_lines` against the line-by-line Lean model AND the character scans), plain cases with
`pipe_cfg` (two-stage pipe: the piped handler has its own patterns; its queue, completion and finished flag are
compared with `pipeTargetCfg`), plain cases with an empty first token through on_llm_new_token.
"""
import asyncio
import uuid

from ..impl import c18_usage as us
from ..translate import c18 as tr

PROPERTY = "C18"
THEOREM_MODULE = "NemoVerif.Theorems.C18"
RULE = ("configuration: prefix/suffix (absent or 1-3 chars) and 0-3 stop sequences (1-3 chars) over an alphabet of 2-5 "
        "characters shared with the text, plus the configurations the library itself uses (`Bot message: \"`, `  \"`, `\"`, `\"\\n`, "
        "`\\nUser intent: `); text = [prefix] + body [+ suffix] [+ stop + tail] with partial patterns injected; exhaustive cases run "
        "ALL 2^(n-1) chunkings (n<=7 quick, n<=10 thorough), long texts (n<=200) run sampled chunkings incl. 1-char and single-chunk; "
        "every end-of-stream protocol (push_chunk(\"\"), push_chunk(None), on_llm_end, \"\"+on_llm_end), queue and pipe_to mode, "
        "push_chunk and on_llm_new_token feeding; an empty FIRST token through on_llm_new_token (ignored by design: the property applies); "
        "a small malformed stream (empty chunks mid-stream) is compared with the model only. "
        "40% of the piped exhaustive cases pipe into a handler with its OWN patterns (two-stage pipe); 8% of the small configurations draw text and patterns from "
        "non-ASCII alphabets (NO-BREAK SPACE, IDEOGRAPHIC SPACE, LINE SEPARATOR, NEL, a combining mark, an astral character); usage cases: heads with lines that are "
        "blank only for str.strip() (U+00A0, U+3000, U+2028, U+0085, \\x1c), comment lines behind such blanks, ZERO WIDTH SPACE (not a blank), texts with fewer than k+1 "
        "non-empty lines (the waiter must not resume); topk cases: one buffer of 0-6 lines for _process (event) and wait_top_k_nonempty_lines (returned value, buffer left). "
        "non-trivial = at least one pattern configured, >= 2 chunkings, the text starts with the prefix (if any) and contains the first "
        "character of a configured suffix/stop sequence or a prefix is configured; distinct = distinct case JSON.")
TRUSTED_BASE = [
    "correspondence harness harness/props/C18.py + Lean driver Drive/C18.lean (JSON string codecs on both sides)",
    "asyncio (queue FIFO order, tasks created by pipe_to run in creation order), CPython str methods startswith/endswith/find/in/slicing",
]
ASSUMPTIONS = [
    "plain cases: the configuration (set_pattern, stop) is fixed before the first chunk, buffering is off; usage cases: exactly the protocol generation.py performs (extracted by the translator, theorem generated_protocol_ok): enable_buffering, tokens, wait_top_k_nonempty_lines, set_pattern, tokens, set_pipe_to, stop=, disable_buffering, tokens, on_llm_end at any of its positions; stop sequences are non-empty",
    "a text is a sequence of Unicode scalar values (Python str without lone surrogates = List Char in Lean); a chunk boundary may fall between ANY two code points, also between a base character and its combining mark; an astral character is one code point on both sides (no boundary inside it); lone surrogates cannot pass the JSON codecs and are outside the quantifier",
    "white space (str.strip() in _process / wait_top_k_nonempty_lines) = the code points with str.isspace() in the running CPython, regenerated into Generated/C18.lean on every run and pinned by theorem ws_table_pinned",
    "two-stage pipe: the consumer-side statement needs an end marker from the producer (always there with on_llm_end; push_chunk(\"\")/push_chunk(None) forward none after a stop sequence was hit or when text was held back) — without it only model = implementation is checked",
    "tokens are non-empty strings (the end markers are the only empty chunks); nothing is pushed after on_llm_end",
    "a text that does not start with the configured prefix: push_chunk end markers deliver nothing, on_llm_end flushes the whole text (as implemented; interpretation of 'the configured prefix removed')",
    "modelled by hand: StreamingHandler.push_chunk, _process, _forward, _remove_suffix_at_end, on_llm_end, on_llm_new_token (first empty token)",
]
EXHAUSTIVE = {"quick": True, "thorough": True}

ENDS = ["empty", "none", "llm_end", "empty+llm_end"]


def translate():
    """Generated/C18.lean: the pattern literals generation.py configures per call site, k, the order of
    `.stop = [...]` / `disable_buffering()`, whether streaming.py records chunks while buffering."""
    return tr.run()


def units_of(case):
    """the individual handler runs of a case (chunkings, or [chunks, a, b, end] schedules for usage cases)"""
    if case.get("kind") == "usage":
        return us.units(case)
    if case.get("kind") == "topk":
        return [[case["text"]]]
    return chunkings_of(case)

# --------------------------------------------------------------------------------------------- chunkings


def all_chunkings(text):
    n = len(text)
    if n == 0:
        return [[]]
    res = []
    for mask in range(1 << (n - 1)):
        cs, start = [], 0
        for i in range(n - 1):
            if mask >> i & 1:
                cs.append(text[start:i + 1])
                start = i + 1
        cs.append(text[start:])
        res.append(cs)
    return res


def chunkings_of(case):
    if case["mode"] == "all":
        return all_chunkings(case["text"])
    return case["chunkings"]


def random_chunking(rng, text, p):
    cs, start = [], 0
    for i in range(1, len(text)):
        if rng.random() < p:
            cs.append(text[start:i])
            start = i
    if text:
        cs.append(text[start:])
    return cs


# --------------------------------------------------------------------------------------------- generators

LIB_CFGS = [
    {"prefix": 'Bot message: "', "suffix": '"', "stop": ['"\n']},
    {"prefix": '  "', "suffix": '"', "stop": ['"\n']},
    {"prefix": 'Bot message: "', "suffix": '"', "stop": ["\nUser intent: "]},
    {"prefix": 'Bot message: "', "suffix": '"', "stop": []},
    {"prefix": "User intent: ", "suffix": None, "stop": []},
    {"prefix": None, "suffix": None, "stop": ["User:"]},
    {"prefix": None, "suffix": None, "stop": ["\nuser ", "\nUser "]},
    {"prefix": '  "', "suffix": '"', "stop": ['"\n', "\nuser "]},
]
WORDS = ["Hello", " there", "!", " This is", " a message", ".", " \"quoted\"", "\n", "User", " intent: ", "ask", " question", "é", "  ", "user ", "Bot", " message: ", ":", "\u00a0", "\u2028", "\u3000", "e\u0301"]


def g_word(rng, alpha, lo, hi):
    return "".join(rng.choice(alpha) for _ in range(rng.randint(lo, hi)))


UNI_ALPHAS = ['a\u00a0"', 'a\u0301\u3000S', 'e\u0301\u2028"', '\U0001F600a\u00a0', '\u00e9\u0301\u0085']


def g_small_cfg(rng):
    alpha = 'ab"SP'[: rng.choice([2, 3, 3, 4, 5])]
    if rng.random() < 0.08:
        # non-ASCII code points: no-break / ideographic / line-separator blanks, a combining mark, an astral character
        alpha = rng.choice(UNI_ALPHAS)
    prefix = g_word(rng, alpha, 1, 3) if rng.random() < 0.55 else None
    suffix = g_word(rng, alpha, 1, 3) if rng.random() < 0.6 else None
    stop = [g_word(rng, alpha, 1, 3) for _ in range(rng.choice([0, 0, 1, 1, 1, 2, 2, 3]))]
    return alpha, {"prefix": prefix, "suffix": suffix, "stop": stop}


def g_text(rng, alpha, cfg, maxlen, body_hi):
    """[prefix] body [suffix] [stop tail] with partial patterns injected."""
    patterns = [p for p in [cfg["suffix"]] + cfg["stop"] if p]
    parts = []
    r = rng.random()
    if cfg["prefix"]:
        if r < 0.85:
            parts.append(cfg["prefix"])
        elif r < 0.92:
            parts.append(cfg["prefix"][: rng.randrange(len(cfg["prefix"]))])
    for _ in range(rng.choice([1, 1, 2, 3])):
        q = rng.random()
        if q < 0.55 or not patterns:
            parts.append(g_word(rng, alpha, 0, body_hi))
        elif q < 0.8:
            p = rng.choice(patterns)
            parts.append(p[: rng.randint(1, len(p))])
        else:
            parts.append(rng.choice(patterns))
    if cfg["suffix"] and rng.random() < 0.5:
        parts.append(cfg["suffix"])
    if cfg["stop"] and rng.random() < 0.45:
        parts.append(rng.choice(cfg["stop"]))
        parts.append(g_word(rng, alpha, 0, 2))
        if cfg["suffix"] and rng.random() < 0.3:
            parts.append(cfg["suffix"])
    t = "".join(parts)
    if len(t) > maxlen:
        # keep the head (prefix) and the tail (suffix / stop region)
        cut = len(t) - maxlen
        head = len(cfg["prefix"] or "") if t.startswith(cfg["prefix"] or "\0") else 0
        head = min(head, maxlen)
        t = t[:head] + t[head + cut:]
    return t


def g_pipe_cfg(rng, alpha):
    """configuration of the handler at the far end of pipe_to (two-stage pipe): patterns over the same alphabet"""
    return {"prefix": g_word(rng, alpha, 1, 2) if rng.random() < 0.4 else None,
            "suffix": g_word(rng, alpha, 1, 2) if rng.random() < 0.6 else None,
            "stop": [g_word(rng, alpha, 1, 2) for _ in range(rng.choice([0, 1, 1, 2]))]}


def g_exhaustive_case(rng, maxlen):
    alpha, cfg = g_small_cfg(rng)
    text = g_text(rng, alpha, cfg, maxlen, 4)
    case = dict(cfg, text=text, end=rng.choice(ENDS), pipe=rng.random() < 0.3, feed="token" if rng.random() < 0.2 else "push", mode="all")
    if case["pipe"] and rng.random() < 0.4:
        case["pipe_cfg"] = g_pipe_cfg(rng, alpha)
        if rng.random() < 0.5:
            # make the second stage matter: what the producer delivers starts with the second prefix
            inner = (case["pipe_cfg"]["prefix"] or "") + g_word(rng, alpha, 0, 2) + (case["pipe_cfg"]["suffix"] or "")
            case["text"] = ((cfg["prefix"] or "") + inner + (cfg["suffix"] or ""))[:maxlen]
    return case


def g_long_case(rng, nsamples):
    if rng.random() < 0.6:
        cfg = dict(rng.choice(LIB_CFGS))
        patterns = [p for p in [cfg["suffix"]] + cfg["stop"] if p]
        parts = []
        r = rng.random()
        if cfg["prefix"]:
            parts.append(cfg["prefix"] if r < 0.9 else cfg["prefix"][:-1])
        for _ in range(rng.randint(1, 14)):
            q = rng.random()
            if q < 0.8 or not patterns:
                parts.append(rng.choice(WORDS))
            else:
                p = rng.choice(patterns)
                parts.append(p[: rng.randint(1, len(p))])
        if cfg["suffix"] and rng.random() < 0.7:
            parts.append(cfg["suffix"])
        if cfg["stop"] and rng.random() < 0.5:
            parts.append(rng.choice(cfg["stop"]) + rng.choice(WORDS) + rng.choice(["", cfg["suffix"] or ""]))
        text = "".join(parts)[:200]
    else:
        alpha, cfg = g_small_cfg(rng)
        text = g_text(rng, alpha, cfg, 60, 12)
    cks = [[text] if text else [], list(text)]
    for _ in range(nsamples):
        cks.append(random_chunking(rng, text, rng.choice([0.1, 0.25, 0.5, 0.8])))
    return dict(cfg, text=text, end=rng.choice(ENDS), pipe=rng.random() < 0.3, feed="token" if rng.random() < 0.2 else "push", mode="list", chunkings=cks)


def g_malformed_case(rng):
    alpha, cfg = g_small_cfg(rng)
    text = g_text(rng, alpha, cfg, 8, 4)
    cks = []
    for _ in range(6):
        cs = random_chunking(rng, text, 0.5)
        for _ in range(rng.randint(1, 2)):
            cs.insert(rng.randrange(len(cs) + 1), "")
        cks.append(cs)
    return dict(cfg, text=text, end=rng.choice(ENDS), pipe=rng.random() < 0.3, feed="token" if rng.random() < 0.3 else "push", mode="list", chunkings=cks, malformed=True)


def g_first_empty_token_case(rng):
    """LangChain may deliver an empty FIRST token (on_llm_new_token ignores it explicitly): same text, so the property applies"""
    alpha, cfg = g_small_cfg(rng)
    text = g_text(rng, alpha, cfg, 8, 4)
    cks = [[""] + random_chunking(rng, text, rng.choice([0.2, 0.5, 0.9])) for _ in range(4)]
    return dict(cfg, text=text, end=rng.choice(ENDS), pipe=rng.random() < 0.3, feed="token", mode="list", chunkings=cks, first_empty=True)


USAGE_HEADS = ["u\nb\n", "u\n\nb\n", "#c\nu\nb\n", " u\n b\n", "u\nb\n\n"]
# lines that are blank / comments only for str.strip()'s notion of white space (U+00A0, U+3000, U+2028, U+0085, \x1c)
USAGE_HEADS_UNI = ["u\n\u00a0\nb\n", "\u3000u\n\u2028\nb\n", "u\x1c\n\u0085\nb\n", "\u00a0#c\nu\nb\n", "u\nb\n\u00a0\n", "\u2028\nu\n\u3000b\n", "u\u200b\n\u200b\nb\n"]


def g_usage_small(rng, maxbody):
    """small single-call case: 2 header lines, then a bot-message line over a tiny alphabet; every chunking x every schedule"""
    prefix, suffix, stop = rng.choice([('  "', '"', ['"\n']), ('B"', '"', ['"\n']), ('  "', '"', ['"\n', "\nu"]), ('P', 'S', ['SX']), ('P', None, ['X']), (None, '"', ['"\n'])])
    head = rng.choice(USAGE_HEADS if rng.random() < 0.7 else USAGE_HEADS_UNI)
    alpha = ('ab" \n' if '"' in (suffix or "") + "".join(stop) else "abSXP\n")
    if rng.random() < 0.15:
        alpha += "\u00a0"
    body = "".join(rng.choice(alpha) for _ in range(rng.randint(0, maxbody)))
    r = rng.random()
    pre = (prefix or "") if r < 0.8 else (prefix or "")[:-1] if r < 0.9 else ""
    tail = rng.choice(["", suffix or "", (suffix or "") + "\n", (stop[0] if stop else "") + "x", (suffix or "") + "\nb"])
    text = head + pre + body + tail
    if len(text) > 9:
        text = head + pre + tail
    text = text[:10]
    if rng.random() < 0.1:
        # fewer than k+1 non-empty lines / the k-th line unterminated: the waiter must never resume
        text = rng.choice(["u\n\u00a0\n", "u\nb", "u\n#b\n x", "\n\n", "u\nb\n\u3000"]) + rng.choice(["", "\n", " "])
    return dict(kind="usage", prefix=prefix, suffix=suffix, stop=stop, k=2, text=text, mode="all", direct=False)


def g_usage_long(rng, sites, nsamples):
    """a call site extracted from generation.py, a realistic LLM completion, sampled chunkings x sampled schedules"""
    site = rng.choice(sites)
    intent = rng.choice(["  express greeting", "user express greeting", "User intent: ask question", "  ask about é", "\u00a0 express greeting", "\u3000ask"])
    botint = rng.choice(["bot express greeting", "Bot intent: respond", "bot inform"])
    msg = "".join(rng.choice(WORDS) for _ in range(rng.randint(1, 10))).replace("\n", " ")
    r = rng.random()
    tail = "" if r < 0.4 else "\n" if r < 0.6 else "\nbot ask" + rng.choice(["", " more\n  \"x\""]) if r < 0.85 else "\n\n"
    line3 = (site["prefix"] if rng.random() < 0.9 else "") + msg + (site["suffix"] if rng.random() < 0.9 else "")
    if rng.random() < 0.04:
        line3 = line3.replace(" ", "\u00a0", 1)  # a NO-BREAK SPACE where the pattern expects a space: the prefix is NOT there
    text = rng.choice(["", "\n", "# c\n", "\u00a0\n", " \u2028\t\n", "\u3000# c\n"]) + intent + "\n" + rng.choice(["", "\n", "\u00a0\u0085\n"]) + botint + "\n" + line3 + tail
    if not site["buffered"]:
        text = line3 + tail
        cks = [[text], list(text)] + [random_chunking(rng, text, rng.choice([0.1, 0.3, 0.6])) for _ in range(nsamples)]
        return dict(kind="usage", prefix=site["prefix"] or None, suffix=site["suffix"] or None, stop=site["stop"], k=site["k"], text=text, mode="list", direct=True, chunkings=cks, site=site["site"])
    scheds = []
    for _ in range(nsamples):
        cs = random_chunking(rng, text, rng.choice([0.1, 0.3, 0.6, 1.0]))
        n = len(cs)
        for _ in range(3):
            a = rng.randint(1, n)
            b = rng.choice([0, 0, 1, 2, n - a, rng.randint(0, n - a)])
            b = min(b, n - a)
            ends = [0] + ([1] if a + b == n else []) + ([2] if a == n else [])
            scheds.append([cs, a, b, rng.choice(ends)])
    return dict(kind="usage", prefix=site["prefix"] or None, suffix=site["suffix"] or None, stop=site["stop"], k=site["k"], text=text, mode="list", direct=False, schedules=scheds, site=site["site"])


TOPK_ALPHA = ["a", "b", "#", " ", "\n", "\n", "\t", "\r", "\u00a0", "\u3000", "\u2028", "\u0085", "\x1c", "\u200b", "\x0b"]


def g_topk_case(rng, ws_codes):
    """one buffer for wait_top_k_nonempty_lines / the event condition: 0-6 lines (blank, blank for str.strip() only,
    comment, content with leading/trailing Unicode blanks), so that fewer than k, exactly k and more than k non-empty lines all occur"""
    if rng.random() < 0.25:
        alpha = TOPK_ALPHA + [chr(rng.choice(ws_codes))]
        text = "".join(rng.choice(alpha) for _ in range(rng.randint(0, 14)))
    else:
        def blank():
            return "".join(chr(rng.choice(ws_codes)) if rng.random() < 0.6 else rng.choice(" \t") for _ in range(rng.randint(0, 3))).replace("\n", "")
        lines = []
        for _ in range(rng.randint(0, 6)):
            q = rng.random()
            if q < 0.25:
                lines.append(blank())
            elif q < 0.4:
                lines.append(blank() + "#" + rng.choice(["", " c", "\u00a0"]))
            elif q < 0.5:
                lines.append(blank() + "\u200b" + blank())   # ZERO WIDTH SPACE is not white space: the line counts
            else:
                lines.append(blank() + rng.choice(["u", "b x", "a#", "\u00e9", "x\u00a0y"]) + blank())
        text = "\n".join(lines) + rng.choice(["", "\n", "\n\n"])
    return dict(kind="topk", k=rng.choice([1, 2, 2, 3]), text=text)


def gen_usage_cases(rng, tier):
    info = tr.run()
    n_small, maxbody, n_long, ns, n_topk = (70, 3, 300, 6, 1500) if tier == "quick" else (500, 5, 5000, 8, 12000)
    cases = [g_usage_small(rng, maxbody) for _ in range(n_small)]
    cases += [g_usage_long(rng, info["sites"], ns) for _ in range(n_long)]
    cases += [g_topk_case(rng, info["ws_codes"]) for _ in range(n_topk)]
    return cases


def gen_cases(rng, tier):
    if tier == "quick":
        n_ex, maxlen, n_long, ns, n_mal = 5000, 7, 2500, 14, 400
    else:
        n_ex, maxlen, n_long, ns, n_mal = 8000, 10, 25000, 22, 2000
    cases = []
    for _ in range(n_ex):
        # lengths are spread: the upper half of the budget goes to the maximal length
        cases.append(g_exhaustive_case(rng, maxlen if rng.random() < 0.6 else rng.randint(1, maxlen)))
    for _ in range(n_long):
        cases.append(g_long_case(rng, ns))
    for _ in range(n_mal):
        cases.append(g_malformed_case(rng))
    for _ in range(n_mal // 2):
        cases.append(g_first_empty_token_case(rng))
    return cases + gen_usage_cases(rng, tier)


# --------------------------------------------------------------------------------------------- implementation

_H = None


def worker_init():
    global _H
    import logging

    from langchain.schema.output import GenerationChunk
    from nemoguardrails.streaming import StreamingHandler

    logging.getLogger("nemoguardrails.streaming").setLevel(logging.ERROR)
    _H = (StreamingHandler, GenerationChunk, tr.run()["stop_before_disable"])


async def _one(case, chunks):
    StreamingHandler, GenerationChunk = _H[0], _H[1]
    h = StreamingHandler()
    h.set_pattern(prefix=case["prefix"], suffix=case["suffix"])
    h.stop = list(case["stop"])
    tgt = h
    if case["pipe"]:
        tgt = StreamingHandler()
        if case.get("pipe_cfg"):
            tgt.set_pattern(prefix=case["pipe_cfg"]["prefix"], suffix=case["pipe_cfg"]["suffix"])
            tgt.stop = list(case["pipe_cfg"]["stop"])
        h.set_pipe_to(tgt)
    rid = uuid.UUID(int=0)
    for c in chunks:
        if case["feed"] == "token":
            await h.on_llm_new_token(c, chunk=GenerationChunk(text=c), run_id=rid)
        else:
            await h.push_chunk(c)
    for e in case["end"].split("+"):
        if e == "empty":
            await h.push_chunk("")
        elif e == "none":
            await h.push_chunk(None)
        else:
            await h.on_llm_end(None, run_id=rid)
    if case["pipe"]:
        for _ in range(4):  # let the tasks created by pipe_to run (FIFO)
            await asyncio.sleep(0)
    items = []
    while not tgt.queue.empty():
        items.append(tgt.queue.get_nowait())
    if case.get("pipe_cfg"):
        return [items, h.completion, h.streaming_finished_event.is_set(), tgt.completion, tgt.streaming_finished_event.is_set()]
    return [items, h.completion, h.streaming_finished_event.is_set()]


async def _guarded(make, hangs):
    """one handler run under a watchdog.  A TimeoutError can be spurious (the machine / VM stalled while the timer ran —
    observed under load: 1 of 13 056 runs); a real hang of the code under test is deterministic, so the run is repeated
    once with a longer limit before the timeout is recorded as an observation (at most twice per case, then no more retries)."""
    try:
        return await asyncio.wait_for(make(), 20)
    except asyncio.TimeoutError:
        if hangs[0] >= 2:
            raise
    try:
        return await asyncio.wait_for(make(), 60)
    except asyncio.TimeoutError:
        hangs[0] += 1
        raise


async def _all(case):
    runs = []
    hangs = [0]
    for chunks in chunkings_of(case):
        try:
            runs.append(await _guarded(lambda: _one(case, chunks), hangs))
        except Exception as e:  # noqa -- an exception out of the handler is an observation
            runs.append([["<exc>"], "<exc:" + type(e).__name__ + ">", False])
    return runs


async def _all_usage(case):
    runs = []
    hangs = [0]
    for unit in us.units(case):
        try:
            if case.get("direct"):
                runs.append(await _guarded(lambda: us.run_direct(_H[0], case, unit), hangs))
            else:
                runs.append(await _guarded(lambda: us.run_single_call(_H[0], case, unit, _H[2]), hangs))
        except Exception as e:  # noqa
            runs.append({"event": True, "items": ["<exc>"], "completion": "<exc:" + type(e).__name__ + ">", "finished": False})
    return runs


async def _topk(case):
    """the real `_process` (buffering branch) and `wait_top_k_nonempty_lines` on one buffer; the waiter is resumed
    even when the event is not set, so that the whole loop (also `fewer than k lines`) is compared"""
    h = _H[0]()
    await h.enable_buffering()
    waiter = asyncio.ensure_future(h.wait_top_k_nonempty_lines(k=case["k"]))
    await asyncio.sleep(0)
    await h.push_chunk(case["text"])
    event = h.top_k_nonempty_lines_event.is_set()
    h.top_k_nonempty_lines_event.set()
    returned = await waiter
    return {"event": event, "returned": returned, "rest": h.buffer}


def run_impl(case):
    if case.get("kind") == "topk":
        return asyncio.run(_topk(case))
    if case.get("kind") == "usage":
        return {"runs": asyncio.run(_all_usage(case))}
    return {"runs": asyncio.run(_all(case))}


# --------------------------------------------------------------------------------------------- model

def model_requests(case, obs):
    if case.get("kind") == "topk":
        return [{"m": "C18.topk", "k": case["k"], "text": case["text"]}]
    if case.get("kind") == "usage":
        req = {"m": "C18.usage", "cfg": {"prefix": case["prefix"], "suffix": case["suffix"], "stop": case["stop"]}, "k": case["k"],
               "direct": bool(case.get("direct")), "schedules": us.units(case), "variant": "repaired"}
        # [0] the repaired usage (the model usage_chunk_invariant is about), [1] streaming.py/generation.py as they are in the tree under test
        return [req, dict(req, variant="tree")]
    req = {"m": "C18.runMany", "cfg": {"prefix": case["prefix"], "suffix": case["suffix"], "stop": case["stop"]},
           "end": case["end"], "tokens": case["feed"] == "token", "pipe": bool(case["pipe"]), "chunkings": chunkings_of(case)}
    if case.get("pipe_cfg"):
        req["pipe_cfg"] = case["pipe_cfg"]
    # [0] the repaired handler (the model the theorems are about), [1] the handler as it is in the unpatched tree
    return [req, dict(req, asis=True)]


def _pick(case, bad):
    """among the failing chunkings report first one outside every recorded structural class, else the first."""
    cks = units_of(case)
    for k, msg in bad:
        if classify(case, cks[k]) is None:
            return k, msg
    return bad[0]


def compare_topk(case, obs, mouts):
    m = mouts[0]
    want = {"returned": m["returned"], "rest": m["rest"], "event": m["lines"] > case["k"] > 0}
    if m["scan_rest"] != m["rest"] or m["scan_lines"] != m["lines"]:
        return f"the character scans disagree with the line-by-line model: {m}"
    if obs != want:
        return f"buffer {case['text']!r} k={case['k']}: implementation {obs} but model {want}"
    return None


def compare_usage(case, obs, mouts):
    m, ma = mouts[0], mouts[1]
    runs = obs["runs"]
    keys = ("items", "completion", "finished") + (() if case.get("direct") else ("returned",))
    if len(m) != len(runs) or len(ma) != len(runs):
        return f"model answered {len(m)}/{len(ma)} runs for {len(runs)} schedules"
    bad, unexplained = [], []
    for k, (r, mr, mar) in enumerate(zip(runs, m, ma)):
        if not r.get("event", True):
            ok = mr.get("event") is False
            ok_tree = mar.get("event") is False
            got = r
        else:
            got = dict(r)
            got.pop("event", None)
            ok = got == {x: mr[x] for x in keys} and mr.get("event", True)
            ok_tree = got == {x: mar[x] for x in keys} and mar.get("event", True)
        if not ok:
            bad.append((k, f"implementation {got} but model {mr}" + (" (the model of the tree as it is agrees with the implementation)" if ok_tree else f"; NEITHER does the model of the tree as it is agree: {mar}")))
            if not ok_tree:
                unexplained.append(bad[-1])
    obs["model_vs_impl"] = {"differ": len(bad), "explained_by_as_is_model": len(bad) - len(unexplained), "unexplained": [k for k, _ in unexplained[:3]]}
    if not bad:
        return None
    k, msg = unexplained[0] if unexplained else _pick(case, bad)
    return f"[#{k}] schedule {us.units(case)[k]!r}: {msg}"


def compare(case, obs, mouts):
    if case.get("kind") == "topk":
        return compare_topk(case, obs, mouts)
    if case.get("kind") == "usage":
        return compare_usage(case, obs, mouts)
    m, ma = mouts[0], mouts[1]
    runs = obs["runs"]
    if len(m) != len(runs) or len(ma) != len(runs):
        return f"model answered {len(m)}/{len(ma)} runs for {len(runs)} chunkings"
    bad, unexplained = [], []
    for k, (r, mr, mar) in enumerate(zip(runs, m, ma)):
        got = {"items": r[0], "completion": r[1], "finished": r[2]}
        if len(r) > 3:
            got.update(tcompletion=r[3], tfinished=r[4])
        if got != mr:
            as_is = dict(got, overflow=False) == mar
            bad.append((k, f"implementation {got} but model {mr}" + (" (the as-is model of the unpatched handler agrees with the implementation)" if as_is else f"; NEITHER does the as-is model agree: {mar}")))
            if not as_is:
                unexplained.append(bad[-1])
    # remembered for tags()/signature(), which the runner calls after compare()
    obs["model_vs_impl"] = {"differ": len(bad), "explained_by_as_is_model": len(bad) - len(unexplained), "unexplained": [k for k, _ in unexplained[:3]]}
    if not bad:
        return None
    k, msg = unexplained[0] if unexplained else _pick(case, bad)
    return f"[#{k}] chunks {chunkings_of(case)[k]!r}: {msg}"


# --------------------------------------------------------------------------------------------- oracle (property statement)

def expected(case):
    """the text with the configured prefix and suffix removed and cut at the first stop sequence"""
    t = case["text"]
    if case["prefix"]:
        if t.startswith(case["prefix"]):
            t = t[len(case["prefix"]):]
        elif "llm_end" not in case["end"]:
            return ""  # the expected prefix never arrived: nothing is streamed (see ASSUMPTIONS)
    firsts = [i for i in range(len(t) + 1) if any(s and t.startswith(s, i) for s in case["stop"])]
    if firsts:
        t = t[: firsts[0]]
    if case["suffix"] and t.endswith(case["suffix"]):
        t = t[: len(t) - len(case["suffix"])]
    return t


def expected_usage(case):
    """what the user's handler must receive: the pattern of the call site applied to the part of the LLM text
    that follows its first k non-empty lines (generate_intent_steps_message keeps those for itself)"""
    text = case["text"] if case.get("direct") else us.rest_after_top_k(case["text"], case["k"])
    if text is None:
        return None
    return expected(dict(case, text=text, end="llm_end"))


def _failures_usage(case, obs):
    exp = expected_usage(case)
    bad = []
    if exp is None or (not case.get("direct") and exp_event(case["text"], case["k"]) is False):
        # the k-th non-empty line is not terminated / nothing non-blank follows it: the waiter must not resume at all
        for k, r in enumerate(obs["runs"]):
            if r.get("event", True) and not case.get("direct"):
                bad.append((k, f"the waiter of wait_top_k_nonempty_lines resumed although the text never has more than {case['k']} non-empty lines"))
        return bad
    for k, r in enumerate(obs["runs"]):
        if not r.get("event", True):
            continue  # not a schedule the library can produce (the waiter cannot have resumed yet)
        delivered = "".join(x for x in r["items"] if isinstance(x, str))
        if not case.get("direct") and r.get("returned") != us.top_k_lines(case["text"], case["k"]):
            bad.append((k, f"wait_top_k_nonempty_lines returned {r.get('returned')!r}, expected the first {case['k']} non-empty lines {us.top_k_lines(case['text'], case['k'])!r}"))
        elif delivered != exp:
            bad.append((k, f"the user's handler received {delivered!r}, expected {exp!r}"))
        elif r["completion"] != exp:
            bad.append((k, f"completion {r['completion']!r}, expected {exp!r} (delivered text is right)"))
        elif not r["finished"]:
            bad.append((k, f"the stream never finishes (wait() would hang), delivered text {delivered!r} is right"))
    return bad


def exp_event(text, k):
    """may the waiter resume at all: the text has more than k non-empty, non-comment lines"""
    return sum(1 for line in text.split("\n") if us._counts(line)) > k


def _failures_topk(case, obs):
    """written from the docstring of wait_top_k_nonempty_lines: `When k lines have been received (and k+1 has been
    started) it will return and remove them from the buffer`"""
    t, k = case["text"], case["k"]
    bad = []
    if obs["event"] != exp_event(t, k):
        bad.append((0, f"event set = {obs['event']} for buffer {t!r}, k={k}"))
    elif obs["returned"] != us.top_k_lines(t, k):
        bad.append((0, f"returned {obs['returned']!r}, expected {us.top_k_lines(t, k)!r} for buffer {t!r}"))
    elif obs["event"] and obs["rest"] != us.rest_after_top_k(t, k):
        bad.append((0, f"buffer left {obs['rest']!r}, expected {us.rest_after_top_k(t, k)!r} for buffer {t!r}"))
    return bad


def _in_quantifier(case, chunks):
    """tokens are non-empty; the only exception the handler supports by design is an empty FIRST token through on_llm_new_token"""
    if "" not in chunks:
        return True
    return case["feed"] == "token" and chunks[0] == "" and "" not in chunks[1:]


def _failures(case, obs):
    if case.get("kind") == "topk":
        return _failures_topk(case, obs)
    if case.get("kind") == "usage":
        return _failures_usage(case, obs)
    exp = expected(case)
    bad = []
    cks = chunkings_of(case)
    if not all(_in_quantifier(case, c) for c in cks):
        return bad  # empty tokens mid-stream (or an empty first chunk through push_chunk = an end marker): model comparison only
    if case.get("pipe_cfg"):
        # two-stage pipe: the second handler applies ITS patterns to what the first one delivers.  Its end of stream is
        # the first handler's end marker; on_llm_end always forwards one (without it the held-back tail stays inside).
        exp2 = expected(dict(case["pipe_cfg"], text=exp, end="empty"))
        for k, r in enumerate(obs["runs"]):
            delivered = "".join(x for x in r[0] if isinstance(x, str))
            if r[1] != exp:
                bad.append((k, f"completion of the piping handler {r[1]!r}, expected {exp!r}"))
            elif "llm_end" in case["end"] and delivered != exp2:
                bad.append((k, f"the consumer of the piped handler (its own patterns {case['pipe_cfg']}) received {delivered!r}, expected {exp2!r} = its patterns applied to {exp!r}"))
            elif "llm_end" in case["end"] and r[3] != exp2:
                bad.append((k, f"completion of the piped handler {r[3]!r}, expected {exp2!r}"))
        return bad
    for k, r in enumerate(obs["runs"]):
        delivered = "".join(x for x in r[0] if isinstance(x, str))
        if delivered != exp:
            bad.append((k, f"delivered {delivered!r}, expected {exp!r}"))
        elif r[1] != exp:
            bad.append((k, f"completion {r[1]!r}, expected {exp!r} (delivered text is right)"))
    return bad


def oracle(case, obs):
    if case.get("malformed"):
        return None  # empty tokens mid-stream are outside the property's quantifier (model comparison only)
    bad = _failures(case, obs)
    if not bad:
        return None
    if case.get("kind") == "topk":
        return "[#0] " + bad[0][1]
    k, msg = _pick(case, bad)
    if case.get("kind") == "usage":
        return f"[#{k}] usage {'direct' if case.get('direct') else 'single-call'} text {case['text']!r} schedule (chunks, a, b, end) {us.units(case)[k]!r}: {msg}; {len(bad)}/{len(obs['runs'])} schedules fail"
    outs = {("".join(x for x in r[0] if isinstance(x, str)), r[1]) for r in obs["runs"]}
    return f"[#{k}] text {case['text']!r} chunks {chunkings_of(case)[k]!r}: {msg}; {len(bad)}/{len(obs['runs'])} chunkings fail, {len(outs)} distinct (delivered, completion) results"


# --------------------------------------------------------------------------------------------- structural classes of the recorded findings

def _ends_with_part_of(s, pat):
    return any(s.endswith(pat[:l]) for l in range(1, len(pat) + 1))


def classify_usage(case, unit):
    """regions of the usage findings: (configuration, text, chunking, schedule)"""
    if case.get("direct"):
        return None
    cs, a, b, end = unit
    if end in (1, 2):
        return "usage-llm-end-while-buffering"
    if b > 0:
        return "usage-token-between-set-pattern-and-disable-buffering"
    rest = us.rest_after_top_k(case["text"], case["k"])
    if rest is None:
        return None
    consumed = "".join(cs[:a])
    buffered = rest[: max(0, len(rest) - (len(case["text"]) - len(consumed)))]
    if case["prefix"] and buffered.startswith(case["prefix"]):
        buffered = buffered[len(case["prefix"]):]
    for s in case["stop"]:
        if s and (s in buffered or _ends_with_part_of(buffered, s)):
            return "usage-stop-set-after-buffer-flushed"
    return None


def classify(case, chunks):
    """Structural class of (configuration, text, chunking) — the regions of the open findings."""
    if case.get("kind") == "topk":
        return None
    if case.get("kind") == "usage":
        return classify_usage(case, chunks)
    t = case["text"]
    pre = case["prefix"]
    rest_first = None  # remainder of the chunk that completes the prefix
    if pre:
        if t.startswith(pre):
            acc = ""
            for c in chunks:
                acc += c
                if len(acc) >= len(pre):
                    rest_first = acc[len(pre):]
                    break
            t = t[len(pre):]
        elif "llm_end" not in case["end"]:
            return None
    stops = [s for s in case["stop"] if s]
    if rest_first:
        # the remainder is handed to _process without the hold-back check
        if case["suffix"] and _ends_with_part_of(rest_first, case["suffix"]):
            return "prefix-and-suffix-in-one-chunk"
        if any(_ends_with_part_of(rest_first, s) for s in stops):
            return "stop-split-after-prefix-chunk"
    occ = [(t.find(s), i) for i, s in enumerate(stops) if s in t]
    if occ:
        if len({s for s in stops if s in t}) >= 2 and min(occ)[0] < t.find(stops[min(i for _, i in occ)]):
            return "several-stops-not-earliest"
        return "stop-sequence-in-text"
    return None


def signature(case, obs, msg):
    if "NEITHER" in msg or obs.get("model_vs_impl", {}).get("unexplained"):
        return None  # inside a recorded region the code must still behave like the as-is model
    try:
        k = int(msg.split("[#", 1)[1].split("]", 1)[0])
        return classify(case, units_of(case)[k])
    except Exception:  # noqa
        return None


# --------------------------------------------------------------------------------------------- evidence helpers

def nontrivial(case, obs):
    if case.get("kind") == "topk":
        return "\n" in case["text"] and any(not c.isspace() for c in case["text"])
    if case.get("kind") == "usage":
        return len(obs["runs"]) >= 2 and expected_usage(case) is not None and any(r.get("event", True) for r in obs["runs"])
    if case.get("malformed") or len(obs["runs"]) < 2:
        return False
    pats = [p for p in [case["suffix"]] + case["stop"] if p]
    if not pats and not case["prefix"]:
        return False
    t = case["text"]
    if case["prefix"]:
        if not t.startswith(case["prefix"]):
            return False
        return True
    return any(p[0] in t for p in pats)


def tags_usage(case, obs):
    t = ["kind:usage-" + ("direct" if case.get("direct") else "single-call"), "mode:" + case["mode"]]
    if case.get("site"):
        t.append("site:" + case["site"].split(":")[0])
    un = us.units(case)
    valid = [u for u, r in zip(un, obs["runs"]) if r.get("event", True)]
    t.append("usage-schedules:" + ("0" if not valid else "1-9" if len(valid) < 10 else "10-99" if len(valid) < 100 else "100-999" if len(valid) < 1000 else ">=1000"))
    if not case.get("direct"):
        if any(u[2] > 0 for u in valid):
            t.append("usage:tokens-in-window")
        for e, name in ((1, "llm-end-in-window"), (2, "llm-end-before-resume")):
            if any(u[3] == e for u in valid):
                t.append("usage:" + name)
        if len(valid) < len(un):
            t.append("usage:some-schedules-before-event")
    for c in sorted({classify(case, u) for u in valid} - {None}):
        t.append("class:" + c)
    mv = obs.get("model_vs_impl")
    if mv is not None:
        t.append("impl=repaired-model-on-every-chunking" if mv["differ"] == 0 else "impl=as-is-model-where-it-departs-from-repaired" if not mv["unexplained"] else "IMPL-MATCHES-NEITHER-MODEL")
    if len({("".join(x for x in r["items"] if isinstance(x, str)), r["completion"]) for r in obs["runs"] if r.get("event", True)}) > 1:
        t.append("USAGE-RESULT-VARIES-WITH-CHUNKING-OR-SCHEDULE")
    return t


def tags(case, obs):
    if case.get("kind") == "topk":
        t = ["kind:topk", "topk:event-set" if obs["event"] else "topk:event-not-set"]
        if any(line and not line.strip() and any(ord(c) > 127 for c in line) for line in case["text"].split("\n")):
            t.append("topk:line-of-non-ascii-blanks-only")
        return t
    if case.get("kind") == "usage":
        return tags_usage(case, obs)
    t = ["mode:" + case["mode"], "end:" + case["end"], ("pipe-to-configured-handler" if case.get("pipe_cfg") else "pipe") if case["pipe"] else "queue", "feed:" + case["feed"]]
    if case.get("malformed"):
        t.append("malformed-empty-chunk")
    if case.get("first_empty"):
        t.append("first-empty-token")
    n = len(case["text"])
    t.append("len:" + (str(n) if n <= 10 else "11-50" if n <= 50 else ">50"))
    t.append("cfg:" + ("P" if case["prefix"] else "-") + ("S" if case["suffix"] else "-") + str(min(len(case["stop"]), 3)))
    txt = case["text"]
    if case["prefix"]:
        t.append("prefix-present" if txt.startswith(case["prefix"]) else "prefix-missing")
        if txt.startswith(case["prefix"]):
            txt = txt[len(case["prefix"]):]
    if any(s in txt for s in case["stop"] if s):
        t.append("stop-hit")
    if case["suffix"] and txt.endswith(case["suffix"]):
        t.append("suffix-at-end")
    classes = {classify(case, c) for c in chunkings_of(case)}
    for c in sorted(x for x in classes if x):
        t.append("class:" + c)
    mv = obs.get("model_vs_impl")
    if mv is not None:
        if mv["differ"] == 0:
            t.append("impl=repaired-model-on-every-chunking")
        elif not mv["unexplained"]:
            t.append("impl=as-is-model-where-it-departs-from-repaired")
        else:
            t.append("IMPL-MATCHES-NEITHER-MODEL")
    if len({(tuple(r[0]), r[1]) for r in obs["runs"]}) > 1:
        t.append("segmentation-varies")
    if len({("".join(x for x in r[0] if isinstance(x, str)), r[1]) for r in obs["runs"]}) > 1:
        t.append("malformed-result-varies" if case.get("malformed") else "two-stage-no-end-marker-varies" if case.get("pipe_cfg") and "llm_end" not in case["end"] else "RESULT-VARIES-WITH-CHUNKING")
    return t


def shrink(case):
    if case.get("kind") == "topk":
        t = case["text"]
        for i in range(len(t)):
            yield dict(case, text=t[:i] + t[i + 1:])
        return
    if case.get("kind") == "usage":
        un = us.units(case)
        if len(un) > 1:
            step = max(1, len(un) // 50)
            for k in list(range(min(len(un), 30))) + list(range(30, len(un), step)):
                if case.get("direct"):
                    yield dict(case, mode="list", chunkings=[un[k][0]])
                else:
                    yield dict(case, mode="list", schedules=[un[k]])
        return
    # 1. a single chunking instead of all of them (both the first failing one and its neighbours are tried by the runner)
    cks = chunkings_of(case)
    if len(cks) > 1:
        for k in range(min(len(cks), 40)):
            yield dict(case, mode="list", chunkings=[cks[k]])
        if len(cks) > 40:
            for k in range(40, len(cks), max(1, len(cks) // 20)):
                yield dict(case, mode="list", chunkings=[cks[k]])
        return
    cs = cks[0]
    # 2. drop configuration parts
    for i in range(len(case["stop"])):
        yield dict(case, stop=case["stop"][:i] + case["stop"][i + 1:])
    if case["suffix"]:
        yield dict(case, suffix=None)
    if case.get("pipe_cfg"):
        pc = case["pipe_cfg"]
        for i in range(len(pc["stop"])):
            yield dict(case, pipe_cfg=dict(pc, stop=pc["stop"][:i] + pc["stop"][i + 1:]))
        if pc["suffix"]:
            yield dict(case, pipe_cfg=dict(pc, suffix=None))
        if pc["prefix"]:
            yield dict(case, pipe_cfg=dict(pc, prefix=None))
        yield {k: v for k, v in case.items() if k != "pipe_cfg"}
    elif case["pipe"]:
        yield dict(case, pipe=False)
    if case["feed"] != "push" and "" not in cs:
        yield dict(case, feed="push")
    # 3. merge neighbouring chunks / drop one character
    for i in range(len(cs) - 1):
        m = cs[:i] + [cs[i] + cs[i + 1]] + cs[i + 2:]
        yield dict(case, chunkings=[m])
    for i, c in enumerate(cs):
        for j in range(len(c)):
            c2 = c[:j] + c[j + 1:]
            m = cs[:i] + ([c2] if c2 else []) + cs[i + 1:]
            yield dict(case, chunkings=[m], text="".join(m))
    if case.get("malformed"):
        m = [c for c in cs if c]
        yield {k: v for k, v in dict(case, chunkings=[m]).items() if k != "malformed"}
