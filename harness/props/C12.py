"""C12 — compiled flows are closed: every jump target exists and only primitives remain.

Translation validation with a PROVED checker + compiler models (DESIGN §7 C12):

  * every case compiles a program with the REAL code (Colang 2.x: `parse_colang_file` ->
    `create_flow_configs_from_flow_list` -> `statemachine.initialize_flow` (= `expand_elements` fix-point + label
    table); Colang 1.0: `parse_colang_file` / `parse_flow_elements`) and dumps the resulting element lists;
  * the Lean checkers `Closed.closed` / `V1Compile.v1Closed` (proved correct in Theorems/C12.lean) are run on
    those lists through the driver, the model's label table is compared with the real `FlowConfig.element_labels`;
  * the Lean compiler models (`V1Compile.compileFull`, `Expand.expandFlow`) are run on the same ASTs and compared
    with the real compilers' output (labels up to renaming of the uid part by first occurrence);
  * oracle: a from-scratch closedness scan of the real element objects, written from the property statement
    (index based, no shared code with the encoder that feeds the Lean checker).

Case kinds: file (every shipped .co file — exhaustive), v2src / v1src (generated source text through the whole
parser), v2ast / v1items (generated ASTs straight into the compilers; these carry the compiler differential).

Phase 4 — the property speaks about every compiled flow the runtime ever executes, so there are runtime-level families:
v2rt (histories on real RuntimeV2_x / LLMRails objects: fresh conversations, initialize_state again, AddFlowsAction, JSON
round trip of the state, a second instance on the SAME RailsConfig object, reload; every live instance is inspected after
every step), v2ast with `again` (initialize_flow twice on one FlowConfig / new FlowConfigs from the same parsed flows, with
a differential against the Lean model of the repaired re-compilation), v1rt (Colang 1.0: shared RailsConfig, reload,
conversation, flows added by _process_start_flow compared with the Lean model `dynamicFlow`).  Findings of these families
carry a HISTORY CLASS in their signature (@added-flow, @reinitialized, @recompiled-ast, @clobbered).
"""
import ast as pyast
import contextlib
import copy
import io
import json
import logging
import os
import re

from ..translate import util as tu

PROPERTY = "C12"
THEOREM_MODULE = "NemoVerif.Theorems.C12"
EXHAUSTIVE = {"quick": True, "thorough": True}  # the shipped-file sub-space (every .co file of the tree) is enumerated in both tiers
RULE = ("(1) EVERY .co file under the repository (exhaustive, both tiers), version decided like RailsConfig.from_path (colang_version of the "
        "nearest config.yml, default 1.0); (2) generated Colang 2.x source programs (if/elif/else, while, break/continue also outside loops, "
        "when/or when/else, and/or groups under match/await/start/send, start/await/activate/deactivate, NLD assignment, user labels, "
        "return/abort; nesting depth <= 4 quick / 6 thorough) through the real parser + initialize_flow; (3) generated Colang 2.x ASTs "
        "(control flow, groups, start/await/activate, NLD, when/or when/else; depth <= 6) straight into expand_elements, compared with the Lean model Expand; (4) generated Colang 1.0 source "
        "(if/else if/else, while, break/continue, when/else when, label/goto, any, $x = ...) through the real parser; (5) generated CoYML item "
        "trees (depth <= 6, incl. undefined/duplicate checkpoints) straight into parse_flow_elements, compared with the Lean model V1Compile. "
        "(6) runtime histories (3-7 steps: new / reload / conv / cont / reinit / add / json / gen) over generated 2.x configurations whose every flow has a while with "
        "break/continue directly and nested in if/when, on real RuntimeV2_x (85 %) / LLMRails (15 %) objects, all live instances inspected after every step; "
        "(7) 25 % of the AST cases additionally re-enter the compiler (initialize_flow twice / recompile the same parsed flows once or twice); "
        "(8) Colang 1.0 histories (LLMRails on a shared RailsConfig, reload, generate, _process_start_flow with generated bodies). "
        "(9) phase 5: the 1.0 source generator covers EVERY statement form colang_parser dispatches on (user / bot incl. quoted, `...`, `or`, with-params, inline examples; event; do; "
        "goto / go to; meta incl. indented params and the `priority` shorthand; set / += / -= / `...`; check; run / execute / exec incl. result variable and params; label / checkpoint / "
        "`set … label to` incl. values; if / else if / else; while; any; infer / new / create; pass / continue; stop / abort; break; return / done incl. values; when / else when on user / bot / "
        "event specs, nested) in every block position (`meta` as first / middle / last / only statement of flow body, then / else-if / else body, loop body, when branch), flow headers with "
        "every modifier (subflow, extension, parallel, sample, repair, non-interruptable), flows that start with a loop / if / when; (10) every compiled 1.0 flow (files, generated source, "
        "generated item trees) additionally goes through the REAL RuntimeV1_0._init_flow_configs / _load_flow_config and the elements the runtime HOLDS get the same scan, the proved "
        "checker v1Closed and a differential against the Lean model loadFlow; (11) v1yaml: the same item trees in CoYML shorthand (every key _dict_to_element accepts) through the second "
        "loading route RailsConfig.parse_object / from_content(yaml) + the loader; (12) v1rt inspects EVERY flow of the configuration and of every live runtime (default / library flows "
        "too), 30 % of the configurations use generated flows as input / output rails (LLMRails marks them as subflows); (13) a compile case that fails is re-run in a fresh interpreter: a "
        "failure that depends on what the worker compiled before gets the class @after-other-compilations and is turned into a hermetic sequence case (v1seq / v2seq). "
        "non-trivial = the compiled flow contains at least one jump target / relative offset; distinct = distinct case JSON.")
TRUSTED_BASE = [
    "harness/props/C12.py: encoders real element -> Prim / Elem JSON (class name and four attributes per element), AST -> Stmt / Item converters, label canonicaliser",
    "Lean driver Drive/C12.lean (JSON codecs)",
    "Lark parser / Colang 1.0 line parser (used as they are to obtain the ASTs; not modelled)",
    "runtime-level families: the adapter drives RuntimeV2_x.process_events / initialize_state / _add_flows_action / LLMRails.generate / RuntimeV1_0._process_start_flow directly (api=runtime skips the import of the library's action modules per instance); FakeLLM + md5 embedding engine",
    "the model of slide's look-ups (Closed.step) covers Goto/ForkHead/Abort/Break/Continue/CatchPatternFailure; MergeHeads' head_fork_uids look-up and scope bookkeeping are dynamic and only constrained statically (merge after fork, EndScope after BeginScope)",
]
ASSUMPTIONS = [
    "Colang 2.x compiler model (Expand) covers if/elif/else, while/break/continue, match/send/start/await groups, start/await/activate/deactivate, NLD assignment, when/or when/else; it starts from the DNF computed by the real normalize_element_groups (C07) and does not model the aliasing of AST objects between the copies of then-/else-bodies (such ASTs: proved checkers + oracle only)",
    "scope pairing in `Closed` is on the linear element order; the per-path statement (no BeginScope met while the scope is held, no failing look-up) is proved per program by the certificate checker `pathSafe` on every real flow that opens a scope (<= 400 elements)",
    "a flow the loader rejects (syntax error, expansion error) is outside the property; such inputs are counted and listed",
    "re-compilation of a parsed flow: the Lean theorem (`recompile_closed`) is about the REPAIRED compiler (fixes/C12-loop-exit-label-in-place.diff); the code as it is violates it inside the region of the open finding 2.x:dangling-target@recompiled-ast (`recompile_as_is_counterexample`) and satisfies `recompile_as_is_closed_partial` outside",
    "Colang 1.0 loader model (`loadFlow`): `_load_flow_config` removes exactly the leading `meta` element; the theorems `v1_loaded_in_bounds` / `v1_loaded_leading_meta` are about `loadFlow ∘ compileFull`, tied by two differentials on every flow (parse_flow_elements vs compileFull on the items, runtime-held elements vs loadFlow of the compiled elements)",
    "generated v2rt programs are compiled, not executed (gated behind `match NeverSent()`): closedness is a static property of the flow configs the runtime holds; the corpus histories execute their loops",
]

REPO = tu.REPO
NLD = r'\.\.\.\s*("""|\'\'\')((?:\\\1|(?!\1)[\s\S])*?)\1|\.\.\.\s*("|\')((?:\\\3|(?!\3).)*?)\3'

# ----------------------------------------------------------------------------- translate (fingerprints only)

MODELLED = [
    ("nemoguardrails/colang/v1_0/lang/coyml_parser.py", None, "_extract_elements"),
    ("nemoguardrails/colang/v1_0/lang/coyml_parser.py", None, "_resolve_gotos"),
    ("nemoguardrails/colang/v1_0/lang/coyml_parser.py", None, "_process_ellipsis"),
    ("nemoguardrails/colang/v1_0/runtime/sliding.py", None, "slide"),
    ("nemoguardrails/colang/v1_0/runtime/runtime.py", "RuntimeV1_0", "_load_flow_config"),
    ("nemoguardrails/colang/v1_0/runtime/runtime.py", "RuntimeV1_0", "_process_start_flow"),
    ("nemoguardrails/rails/llm/config.py", "RailsConfig", "parse_object"),
    ("nemoguardrails/colang/v2_x/lang/expansion.py", None, "expand_elements"),
    ("nemoguardrails/colang/v2_x/lang/expansion.py", None, "_expand_if_element"),
    ("nemoguardrails/colang/v2_x/lang/expansion.py", None, "_expand_while_stmt_element"),
    ("nemoguardrails/colang/v2_x/runtime/statemachine.py", None, "initialize_flow"),
    ("nemoguardrails/colang/v2_x/runtime/statemachine.py", None, "slide"),
]


def translate():
    fps = {}
    for rel, cls, name in MODELLED:
        fps[f"{rel}::{name}"] = tu.fingerprint(tu.find_def(tu.parse(rel), name, cls))
    # shape the label-table model relies on: initialize_flow fills element_labels from Label elements in order
    src = pyast.unparse(tu.find_def(tu.parse("nemoguardrails/colang/v2_x/runtime/statemachine.py"), "initialize_flow"))
    if "element_labels.update" not in src or "enumerate(flow_config.elements)" not in src:
        raise tu.TieBroken("initialize_flow no longer builds element_labels by update() over enumerate(elements)")
    return {"fingerprints": fps, "shipped_co_files": len(shipped_files())}


def shipped_files():
    out = []
    for d, ds, fs in os.walk(REPO):
        ds[:] = [x for x in ds if x not in (".git", "node_modules", "__pycache__", ".venv")]
        for f in fs:
            if f.endswith(".co"):
                out.append(os.path.relpath(os.path.join(d, f), REPO))
    return sorted(out)


# ----------------------------------------------------------------------------- generators

V2_EVENTS = ["Ev1", "Ev2", "Ev3", "Ev4"]
V2_ACTIONS = ["UtteranceBotAction", "GestureBotAction"]


def _v2_spec(rng, flows, kinds=("event", "flow", "action")):
    k = rng.choice(kinds)
    if k == "flow" and flows:
        return rng.choice(flows)
    if k == "action" or (k == "flow" and "event" not in kinds):
        return rng.choice(V2_ACTIONS) + '(script="a")'
    return rng.choice(V2_EVENTS) + "()"


def _v2_group(rng, flows, kinds, depth=2):
    """an and/or group of specs, up to 4 wide"""
    if depth == 0 or rng.random() < 0.45:
        return _v2_spec(rng, flows, kinds)
    n = rng.choice([2, 2, 3, 4])
    op = rng.choice([" and ", " or "])
    parts = [_v2_group(rng, flows, kinds, depth - 1) for _ in range(n)]
    return "(" + op.join(parts) + ")"


def _v2_simple(rng, flows, in_loop):
    r = rng.random()
    if r < 0.10:
        return "match " + _v2_group(rng, flows, ("event",), 0)
    if r < 0.16:
        return "send " + rng.choice(V2_EVENTS) + "(x=1)"
    if r < 0.24:
        return "$x = " + rng.choice(["1", "$x + 1", '"a"', "True"])
    if r < 0.36:
        return rng.choice(["break", "continue"]) if (in_loop or rng.random() < 0.3) else "$y = 2"
    if r < 0.44:
        return "match " + _v2_group(rng, flows, ("event",), 2)
    if r < 0.54:
        return "await " + _v2_group(rng, flows, ("flow", "action"), rng.choice([0, 1, 2]))
    if r < 0.60:
        d = rng.choice([0, 0, 1])
        return "start " + _v2_group(rng, flows, ("flow", "action"), d) + (" as $r" if d == 0 and rng.random() < 0.3 else "")
    if r < 0.64 and flows:
        return "activate " + rng.choice(flows)
    if r < 0.66 and flows:
        return "deactivate " + rng.choice(flows)
    if r < 0.70:
        return "send " + rng.choice(V2_EVENTS) + "() and " + rng.choice(V2_EVENTS) + "()"
    if r < 0.74:
        return '$v = ..."extract a value"'
    if r < 0.78 and flows:
        return "$v = await " + rng.choice(flows)
    if r < 0.82:
        return "lbl_%d:" % rng.randrange(4)
    if r < 0.86:
        return rng.choice(["return", "return 3", "abort"])
    if r < 0.92:
        return rng.choice(['log "x"', 'print "y"', "pass", "global $g", "priority 0.5"])
    if r < 0.95 and flows:
        return rng.choice(flows)  # implicit await
    if r < 0.965 and flows:
        return "match " + rng.choice(flows)  # rejected by expansion ("match cannot be used with flows")
    if r < 0.98:
        return "start " + rng.choice(V2_EVENTS) + "()"  # rejected by expansion
    return "match Ev1() as $e"


def _v2_block(rng, depth, in_loop, flows, ind, out, after_else=False):
    n = rng.choice([1, 1, 2, 2, 3])
    pad = "  " * ind
    for j in range(n):
        r = rng.random()
        if after_else and j == 0 and r < 0.22:
            r = 0.9  # an else-suite must not start with `if`: the 2.x lexer reads `else NEWLINE if` as `else if` (parser matter, C13)
        if depth > 0 and r < 0.22:
            out.append(pad + "if $x > 1")
            _v2_block(rng, depth - 1, in_loop, flows, ind + 1, out)
            for _ in range(rng.choice([0, 0, 1, 2])):
                out.append(pad + "elif $y")
                _v2_block(rng, depth - 1, in_loop, flows, ind + 1, out)
            if rng.random() < 0.5:
                out.append(pad + "else")
                _v2_block(rng, depth - 1, in_loop, flows, ind + 1, out, True)
        elif depth > 0 and r < 0.37:
            out.append(pad + "while $x < 3")
            _v2_block(rng, depth - 1, True, flows, ind + 1, out)
        elif depth > 0 and r < 0.48:
            out.append(pad + "when " + _v2_group(rng, flows, ("event", "flow", "action"), rng.choice([0, 1, 2])))
            _v2_block(rng, depth - 1, in_loop, flows, ind + 1, out)
            for _ in range(rng.choice([0, 1, 1, 2])):
                out.append(pad + "or when " + _v2_group(rng, flows, ("event", "flow", "action"), rng.choice([0, 1])))
                _v2_block(rng, depth - 1, in_loop, flows, ind + 1, out)
            if rng.random() < 0.5:
                out.append(pad + "else")
                _v2_block(rng, depth - 1, in_loop, flows, ind + 1, out, True)
        else:
            out.append(pad + _v2_simple(rng, flows, in_loop))


def gen_v2_src(rng, depth):
    nf = rng.choice([1, 2, 3])
    flows = ["helper %s" % "abc"[i] for i in range(nf)]
    out = []
    for f in flows:
        out.append("flow " + f)
        _v2_block(rng, rng.randrange(0, depth + 1), False, [x for x in flows if x != f], 1, out)
        out.append("")
    out.append("flow main")
    _v2_block(rng, depth, False, flows, 1, out)
    return "\n".join(out) + "\n"


V2_OTHER = ["_log", "_print", "_priority", "_global", "dict:pass_stmt"]


def _g_sizes(rng):
    return [rng.choice([1, 1, 2, 3]) for _ in range(rng.choice([1, 1, 2, 3, 4]))]


def _g_dnf(rng, kinds):
    return [[[rng.choice(kinds), rng.random() < 0.25] for _ in range(rng.choice([1, 1, 2, 3]))] for _ in range(rng.choice([1, 1, 2, 3]))]


def gen_v2_ast(rng, depth, in_loop=False, dup=False, nojump=False):
    """Stmt trees of the Lean Expand model; `dup` = inside a body the real compiler expands more than once (there the
    generator avoids what depends on the aliasing of AST objects between the copies, see `alias_sensitive`)"""
    n = rng.choice([0, 1, 1, 2, 2, 3]) if depth < 6 else rng.choice([1, 2, 3])
    out = []
    for _ in range(n):
        r = rng.random()
        if depth > 0 and r < 0.18:
            out.append(["if", gen_v2_ast(rng, depth - 1, in_loop, dup, nojump), gen_v2_ast(rng, depth - 1, in_loop, dup, nojump) if rng.random() < 0.6 else []])
        elif depth > 0 and r < 0.32:
            out.append(["while", gen_v2_ast(rng, depth - 1, True, dup, nojump or dup)])
        elif depth > 0 and r < 0.44:
            nc = rng.choice([1, 1, 2, 3])
            kinds = ["ev"] if dup else ["ev", "ev", "flow", "action"]
            specs = [_g_dnf(rng, kinds) for _ in range(nc)]
            thens = [gen_v2_ast(rng, depth - 1, in_loop, dup or len(d) >= 2, nojump) for d in specs]
            has_else = rng.random() < 0.5
            els = gen_v2_ast(rng, depth - 1, in_loop, dup or nc >= 2, nojump) if has_else else []
            out.append(["when", specs, thens, els, has_else])
        elif r < 0.54:
            jump_ok = not nojump and (in_loop or rng.random() < 0.3)
            out.append([rng.choice(["break", "continue"])] if jump_ok else ["assign"])
        elif r < 0.60:
            out.append(["send"])
        elif r < 0.66:
            out.append(["match"])
        elif r < 0.70:
            out.append(["assign"])
        elif r < 0.74:
            out.append(["other", rng.choice(V2_OTHER)])
        elif r < 0.77:
            out.append([rng.choice(["return", "abort"])])
        elif r < 0.82:
            out.append(["matchg", _g_sizes(rng)])
        elif r < 0.85:
            out.append(["sendg", _g_sizes(rng)])
        elif r < 0.89:
            out.append(["start", _g_dnf(rng, ["flow", "action"])])
        elif r < 0.92:
            out.append(["await1", rng.choice(["flow", "action"]), rng.random() < 0.3])
        elif r < 0.96:
            out.append(["awaitg", _g_dnf(rng, ["flow", "action"])])
        elif r < 0.98:
            out.append([rng.choice(["activate", "deactivate"]), rng.choice([1, 1, 2, 3])])
        else:
            out.append(["nld"])
    return out


# Colang 1.0 statement kinds (phase 5): EVERY statement form `colang_parser.parse` dispatches on (main tokens user / bot /
# event / do / goto, go to / meta (+ the `priority` shorthand) / set, check / run, execute, exec / label, checkpoint (+ `set …
# label to`) / if, else if, else / while / any / infer, new, create / pass, continue / stop, abort / break / return, done /
# when, else when) in EVERY block position (flow body, then / else-if / else body, loop body, when / else-when branch,
# first / middle / last / only statement of the block).  `meta` is special: `_parse_meta` hoists it to position 0 of the
# block it appears in, `_extract_elements` counts it when it computes the relative offsets, and `_load_flow_config` removes
# (only) the leading one of a flow afterwards — the elements the RUNTIME holds are not the elements the parser returned.
V1_META = ['meta {"note": "n"}', 'meta {"is_sample": false}', "priority 2", "priority 0.5", 'meta\n  note: "x"']
V1_RARE = [
    "stop", "abort", "pass", "done", "return $x, 1", "do g", "do g($x)", "do $r = g", "event Foo", "event Foo with $x",
    "infer user said x", "new event X", "create event X", "infer\n  user said x", "run act", "exec act", "run act\n  a: 1",
    "$x = execute act(a=1)", "check $x", "set $x = 1", "$x += 1", "$x -= 1", 'user "hello there"', "user something",
    "user said a with $x", "user [said a, said b]", "user ...", "user said a or user said b", 'bot "Hello"', "bot say a with $x",
    "bot say a or say b", "bot ...", "bot say a if $x", "bot say something else", 'bot say q\n  "Hi"\n  "Ho"',
]
V1_WHEN = ["user said %s", "user said %s", "user said %s", "Foo%s", "event Foo%s", "bot say %s", "user something"]
V1_HEADERS = ["flow", "flow", "flow", "subflow", "subflow", "extension flow", "parallel flow", "sample flow", "repair flow", "non-interruptable flow", "parallel extension flow"]


def _v1_lines(pad, text):
    return [pad + l for l in text.split("\n")]


def _v1_block(rng, depth, in_loop, ind, out, labels):
    n = rng.choice([1, 1, 2, 2, 3])
    pad = "  " * ind
    meta_at = rng.randrange(n + 1) if rng.random() < 0.22 else None  # a `meta` statement: first / middle / last of the block
    if meta_at is not None and rng.random() < 0.15:
        n = 0  # ... or the only statement of the block
    for j in range(n + 1):
        if meta_at == j or (meta_at is not None and n == 0):
            out.extend(_v1_lines(pad, rng.choice(V1_META)))
            if n == 0:
                return
        if j == n:
            break
        r = rng.random()
        if depth > 0 and r < 0.22:
            out.append(pad + "if $x > 1")
            _v1_block(rng, depth - 1, in_loop, ind + 1, out, labels)
            for _ in range(rng.choice([0, 0, 1])):
                out.append(pad + "else if $y")
                _v1_block(rng, depth - 1, in_loop, ind + 1, out, labels)
            if rng.random() < 0.5:
                out.append(pad + "else")
                _v1_block(rng, depth - 1, in_loop, ind + 1, out, labels)
        elif depth > 0 and r < 0.36:
            out.append(pad + "while $x < 3")
            _v1_block(rng, depth - 1, True, ind + 1, out, labels)
        elif depth > 0 and r < 0.48:
            out.append(pad + "when " + rng.choice(V1_WHEN).replace("%s", rng.choice("abc")))
            _v1_block(rng, depth - 1, in_loop, ind + 1, out, labels)
            for _ in range(rng.choice([0, 1, 1, 2])):
                out.append(pad + "else when " + rng.choice(V1_WHEN).replace("%s", rng.choice("def")))
                _v1_block(rng, depth - 1, in_loop, ind + 1, out, labels)
        else:
            q = rng.random()
            if q < 0.17:
                out.append(pad + "user said %s" % rng.choice("abc"))
            elif q < 0.34:
                out.append(pad + "bot say %s" % rng.choice("abc"))
            elif q < 0.46:
                out.append(pad + (rng.choice(["break", "continue"]) if (in_loop or rng.random() < 0.3) else "$y = 2"))
            elif q < 0.52:
                out.append(pad + "$x = " + rng.choice(["1", "$x + 1", "..."]))
            elif q < 0.60:
                nm = "l%d" % len(labels)
                labels.append(nm)
                out.append(pad + rng.choice(["label %s", "label %s", "checkpoint %s", "set %s label to $x", 'label %s "v"']) % nm)
            elif q < 0.70:
                # mostly defined labels, sometimes a forward / undefined reference (undefined -> the parser rejects the flow)
                if labels and rng.random() < 0.92:
                    out.append(pad + rng.choice(["goto ", "goto ", "go to "]) + rng.choice(labels))
                elif rng.random() < 0.12:
                    out.append(pad + "goto l%d" % rng.randrange(len(labels), len(labels) + 2))
                else:
                    out.append(pad + "bot say z")
            elif q < 0.75:
                out.append(pad + "any")
                for _ in range(rng.choice([2, 3])):
                    out.append(pad + "  " + rng.choice(["user said %s", "user said %s", "event Ev%s"]) % rng.choice("xyz"))
            elif q < 0.79:
                out.append(pad + "execute act_%s" % rng.choice("ab"))
            elif q < 0.83:
                out.append(pad + rng.choice(["return", "stop"]))
            elif q < 0.86:
                out.append(pad + "$x = ...")
            else:
                out.extend(_v1_lines(pad, rng.choice(V1_RARE)))


def gen_v1_src(rng, depth, rt=False, free=()):
    out = []
    for i in range(rng.choice([1, 2, 3])):
        hdr = rng.choice(V1_HEADERS) if i not in free else rng.choice(["flow", "flow", "flow", "subflow", "extension flow"])
        out.append("define %s f%d" % (hdr, i))
        # (in a configuration that holds conversations only a subflow / a rail flow may start with a non-event: it is never started by an event)
        if (rng.random() < 0.85 and i not in free) or (rt and hdr != "subflow" and i not in free):  # (else the flow STARTS with whatever the block starts with: a loop, an `if`, a `when` …)
            out.append("  user said start")
        elif rng.random() < 0.4:  # a loop / a checkpoint that is the FIRST element of the flow (backward offsets reach index 0)
            if rng.random() < 0.7:
                out.append("  while $x < 3")
                _v1_block(rng, max(depth - 1, 0), True, 2, out, [])
            else:
                out.extend(["  label top", "  bot say a", "  if $x", "    goto top"])
        _v1_block(rng, depth, False, 1, out, [])
        out.append("")
    return "\n".join(out) + "\n"


V1_SIMPLE = ["UserIntent", "run_action", "break", "continue", "stop", "check", "set", "meta", "flow"]


def gen_v1_items(rng, depth, in_loop=False, top=True):
    n = rng.choice([0, 1, 1, 2, 2, 3]) if not top else rng.choice([1, 2, 3, 4])
    out = []
    for _ in range(n):
        r = rng.random()
        if depth > 0 and r < 0.22:
            out.append(["if", gen_v1_items(rng, depth - 1, in_loop, False), gen_v1_items(rng, depth - 1, in_loop, False) if rng.random() < 0.6 else []])
        elif depth > 0 and r < 0.40:
            out.append(["while", gen_v1_items(rng, depth - 1, True, False)])
        elif depth > 0 and r < 0.52:
            bs = [gen_v1_items(rng, depth - 1, in_loop, False) for _ in range(rng.choice([1, 2, 2, 3, 4]))]
            if out and out[-1][0] == "br":  # consecutive list items are ONE branch block in _extract_elements
                out[-1][1].extend(bs)
            else:
                out.append(["br", bs])
        elif r < 0.62:
            out.append(["s", rng.choice(["break", "continue"])] if (in_loop or rng.random() < 0.3) else ["s", "set"])
        elif r < 0.68:
            out.append(["label", "l%d" % rng.randrange(5)] + (["v"] if rng.random() < 0.3 else []))
        elif r < 0.74:
            out.append(["goto", "l%d" % rng.randrange(5)])
        elif r < 0.78:
            out.append(["any", [rng.choice(["UserIntent", "run_action"]) for _ in range(rng.choice([1, 2, 3]))]])
        elif r < 0.82:
            out.append(["ell"])
        elif r < 0.85:
            out.append(["ret"])
        else:
            out.append(["s", rng.choice(V1_SIMPLE)])
    return out


def _fix_labels(rng, items):
    """make most generated trees acceptable to _resolve_gotos: unique label names, gotos to defined labels"""
    labels = []

    def walk_def(xs):
        for it in xs:
            if it[0] == "label":
                it[1] = "l%d" % len(labels)
                labels.append(it[1])
            elif it[0] == "if":
                walk_def(it[1]); walk_def(it[2])
            elif it[0] == "while":
                walk_def(it[1])
            elif it[0] == "br":
                for b in it[1]:
                    walk_def(b)

    def walk_use(xs):
        for it in xs:
            if it[0] == "goto" and not labels:
                it[:] = ["s", "stop"]
            elif it[0] == "goto":
                it[1] = rng.choice(labels)
            elif it[0] == "if":
                walk_use(it[1]); walk_use(it[2])
            elif it[0] == "while":
                walk_use(it[1])
            elif it[0] == "br":
                for b in it[1]:
                    walk_use(b)

    walk_def(items)
    walk_use(items)
    return items


# ---- phase 4: runtime-level families.  C12 speaks about every compiled flow the runtime ever executes, not about ONE
# compilation of a freshly parsed AST: the flow configs a RuntimeV2_x / LLMRails instance holds after k fresh conversations,
# after initialize_state ran again, after flows were added at run time, after a second instance compiled the same RailsConfig.

RT_EVENTS = ["Ev1", "Ev2", "Ev3", "Ev4"]


def _rt_cond(rng, novars):
    return rng.choice(["True", "1 < 2", "2 > 1"]) if novars else rng.choice(["$x < 3", "$x > 1", "$y", "True"])


def _rt_simple(rng, flows, in_loop, novars, st):
    r = rng.random()
    if in_loop and r < 0.40:
        st["jumps"] += 1
        return rng.choice(["break", "continue"])
    if r < 0.50:
        return "send " + rng.choice(RT_EVENTS) + "()"
    if r < 0.62:
        return "match " + rng.choice(RT_EVENTS) + "()"
    if r < 0.72 and not novars:
        return "$x = $x + 1"
    if r < 0.80 and flows:
        return rng.choice(["await ", "start ", ""]) + rng.choice(flows)
    if r < 0.88:
        return "match " + rng.choice(RT_EVENTS) + "() " + rng.choice(["or", "and"]) + " " + rng.choice(RT_EVENTS) + "()"
    if r < 0.94 and not novars:  # (novars = text that goes into a string literal: no quotes, no `$`)
        return 'await UtteranceBotAction(script="a")'
    return "pass"


def _rt_when_spec(rng, flows, novars):
    """a case of `when`: mostly an event; also a flow / an action that the case starts (refs are stored in the parsed spec)"""
    r = rng.random()
    if r < 0.15 and flows:
        return rng.choice(flows)
    if r < 0.25 and not novars:
        return 'UtteranceBotAction(script="a")'
    return rng.choice(RT_EVENTS) + "()"


def _rt_block(rng, depth, in_loop, flows, ind, out, novars, st, after_else=False):
    pad = "  " * ind
    for j in range(rng.choice([1, 1, 2, 2, 3])):
        r = rng.random()
        if after_else and j == 0 and r < 0.2:
            r = 0.99  # (an else-suite must not start with `if`, see _v2_block)
        if depth > 0 and r < 0.20:
            out.append(pad + "if " + _rt_cond(rng, novars))
            _rt_block(rng, depth - 1, in_loop, flows, ind + 1, out, novars, st)
            if rng.random() < 0.3:
                out.append(pad + "elif " + _rt_cond(rng, novars))
                _rt_block(rng, depth - 1, in_loop, flows, ind + 1, out, novars, st)
            if rng.random() < 0.4:
                out.append(pad + "else")
                _rt_block(rng, depth - 1, in_loop, flows, ind + 1, out, novars, st, True)
        elif depth > 0 and r < 0.45:
            out.append(pad + "while " + _rt_cond(rng, novars))
            st["loops"] += 1
            _rt_block(rng, depth - 1, True, flows, ind + 1, out, novars, st)
        elif depth > 0 and r < 0.60:
            out.append(pad + "when " + _rt_when_spec(rng, flows, novars) + rng.choice(["", "", " or " + rng.choice(RT_EVENTS) + "()", " and " + rng.choice(RT_EVENTS) + "()"]))
            _rt_block(rng, depth - 1, in_loop, flows, ind + 1, out, novars, st)
            for _ in range(rng.choice([0, 1, 1])):
                out.append(pad + "or when " + _rt_when_spec(rng, flows, novars))
                _rt_block(rng, depth - 1, in_loop, flows, ind + 1, out, novars, st)
            if rng.random() < 0.4:
                out.append(pad + "else")
                _rt_block(rng, depth - 1, in_loop, flows, ind + 1, out, novars, st, True)
        else:
            out.append(pad + _rt_simple(rng, flows, in_loop, novars, st))


def gen_rt_flow(rng, name, depth, flows, novars, prelude=()):
    """one flow whose body contains at least one `while` with a break / continue inside (directly or nested in if / when)"""
    while True:
        st = {"jumps": 0, "loops": 0}
        out = ["flow " + name] + ["  " + p for p in prelude]
        _rt_block(rng, depth, False, flows, 1, out, novars, st)
        if st["jumps"] and st["loops"]:
            return out


def gen_v2_rt(rng, thorough):
    depth = rng.choice([1, 2, 2, 3]) if not thorough else rng.choice([1, 2, 3, 4])
    helpers = ["helper a", "helper b"][:rng.choice([0, 0, 1, 1, 2])]
    out = []
    for f in helpers:
        out += gen_rt_flow(rng, f, rng.randrange(1, depth + 1), [x for x in helpers if x != f], False) + [""]
    prelude = ["$x = 0"]
    if rng.random() < 0.35:  # a flow added at run time through the registered AddFlowsAction (reached when main starts)
        extra = "\\n".join(gen_rt_flow(rng, "extra one", rng.choice([1, 2, 3]), [], True)) + "\\n"
        prelude.append('await AddFlowsAction(config="%s")' % extra)
    prelude.append("match NeverSent()")  # the generated body is compiled, not executed (its loops need not terminate)
    out += gen_rt_flow(rng, "main", depth, helpers, False, prelude)
    src = "\n".join(out) + "\n"
    steps = [["new"]]
    for _ in range(rng.choice([2, 3, 3, 4, 5])):
        r = rng.random()
        ev = [rng.choice(RT_EVENTS) for _ in range(rng.choice([0, 1, 2]))]
        if r < 0.50:
            steps.append(["conv", ev])          # a fresh conversation: process_events(..., state=None)
        elif r < 0.55:
            steps.append(["cont", ev])          # the same conversation goes on
        elif r < 0.58:
            steps.append(["json"])              # the state travels as JSON (state_to_json / json_to_state), as with a server
        elif r < 0.70:
            steps.append(["reinit"])            # initialize_state again on the flow configs the runtime holds
        elif r < 0.82:
            steps.append(["add", "\n".join(gen_rt_flow(rng, "extra two", rng.choice([1, 2, 3]), [], rng.random() < 0.5)) + "\n"])
        elif r < 0.94:
            steps.append(["new"])               # a second runtime / LLMRails on the SAME RailsConfig object
        else:
            steps.append(["reload"])            # the configuration is loaded again (fresh parse) + a new runtime
    if not any(s[0] in ("conv", "reinit") for s in steps):
        steps.append(["conv", []])
    if rng.random() < 0.6:
        steps.append(["conv", []])
    return {"kind": "v2rt", "api": "rails" if rng.random() < 0.15 else "runtime", "src": src, "steps": steps}


def _v1_defined_gotos(src):
    """replace a `goto` whose checkpoint is not defined in the same flow (the loader rejects such a configuration as a whole)"""
    out = []
    for block in re.split(r"(?m)^(?=define )", src):
        labels = set(re.findall(r"(?m)^\s*label (\w+)\s*$", block))
        out.append(re.sub(r"(?m)^(\s*)goto (\w+)\s*$", lambda m: m.group(0) if m.group(2) in labels else m.group(1) + "bot say z", block))
    return "".join(out)


def gen_v1_rt(rng, depth):
    # 30 %: some of the generated flows are the configuration's input / output rails (LLMRails marks them `is_subflow`); like
    # real rail flows (`$ok = execute …`, `if not $ok` …) they start with whatever their block starts with; such a
    # configuration holds no conversation here (a rail would run the generated body)
    free = [i for i in range(3) if rng.random() < 0.6] if rng.random() < 0.3 else []
    src = "define user express greeting\n  \"hello\"\n\n" + _v1_defined_gotos(gen_v1_src(rng, depth, True, free))
    # (subflow / extension / parallel … headers and `meta` / `priority` statements of the flow body give the flow a leading
    # `meta` element which `_load_flow_config` slices off (`elements[1:]`) AFTER the offsets were computed; `meta` statements
    # inside blocks stay where they are)
    steps = [["new"]]
    for _ in range(rng.choice([1, 2, 3])):
        r = rng.random()
        if r < 0.35:
            steps.append(["new"])
        elif r < 0.5:
            steps.append(["reload"])
        elif r < 0.65:
            steps.append(["gen", "hello"])
        else:
            body = ["user express greeting"]  # (the new flow is started at once: it must wait at its first element)
            _v1_block(rng, rng.randrange(1, depth + 1), False, 0, body, [])
            steps.append(["dyn", "dyn%d" % rng.randrange(3), _v1_defined_gotos("\n".join(body) + "\n")])
    case = {"kind": "v1rt", "src": src, "steps": steps}
    ids = re.findall(r"(?m)^define (?:[\w-]+ )*flow (f\d)$", src)
    rails = {"input": [], "output": []}
    for i in free:
        if "f%d" % i in ids:
            rails[rng.choice(["input", "output"])].append("f%d" % i)
    if rails["input"] or rails["output"]:
        case["rails"] = rails
        case["steps"] = [["new"] if st[0] == "gen" else st for st in steps]
    return case


def gen_cases(rng, tier):
    cases = [{"kind": "file", "path": p} for p in shipped_files()]
    if tier == "quick":
        n_v2src, n_v2ast, n_v1src, n_v1items, depth = 900, 5000, 1500, 5000, 4
        n_v2rt, n_v1rt, n_v1yaml = 500, 120, 1200
    else:
        n_v2src, n_v2ast, n_v1src, n_v1items, depth = 5000, 45000, 10000, 60000, 6
        n_v2rt, n_v1rt, n_v1yaml = 4000, 800, 9000
    for _ in range(n_v2rt):
        cases.append(gen_v2_rt(rng, tier != "quick"))
    for _ in range(n_v1rt):
        cases.append(gen_v1_rt(rng, rng.randrange(1, 4)))
    for _ in range(n_v2src):
        cases.append({"kind": "v2src", "src": gen_v2_src(rng, rng.randrange(1, depth + 1))})
    for _ in range(n_v2ast):
        c = {"kind": "v2ast", "stmts": gen_v2_ast(rng, rng.randrange(1, 7))}
        r = rng.random()
        if r < 0.25:
            c["again"] = rng.choice(["reinit", "reinit", "recompile", "recompile2"])  # re-entrancy of expand_elements, see run_impl
        cases.append(c)
    for _ in range(n_v1src):
        cases.append({"kind": "v1src", "src": gen_v1_src(rng, rng.randrange(1, depth + 1))})
    for _ in range(n_v1items):
        items = gen_v1_items(rng, rng.randrange(1, 7))
        if rng.random() < 0.8:
            items = _fix_labels(rng, items)
        cases.append({"kind": "v1items", "items": items})
    for _ in range(n_v1yaml):
        items = gen_v1_items(rng, rng.randrange(1, 6))
        if rng.random() < 0.85:
            items = _fix_labels(rng, items)
        c = {"kind": "v1yaml", "items": items}
        if rng.random() < 0.1:
            c["text"] = True  # through YAML text (`RailsConfig.from_content(yaml_content=…)`), else `RailsConfig.parse_object`
        cases.append(c)
    return cases


def escalate(rng, focus, tier):
    cases = []
    for _ in range(1500):
        cases.append(gen_v2_rt(rng, True))
    for _ in range(200):
        cases.append(gen_v1_rt(rng, rng.randrange(1, 4)))
    for _ in range(1500):
        cases.append({"kind": "v2src", "src": gen_v2_src(rng, rng.randrange(1, 6))})
        cases.append({"kind": "v1src", "src": gen_v1_src(rng, rng.randrange(1, 6))})
    for _ in range(20000):
        cases.append({"kind": "v2ast", "stmts": gen_v2_ast(rng, rng.randrange(1, 7))})
        cases.append({"kind": "v1items", "items": _fix_labels(rng, gen_v1_items(rng, rng.randrange(1, 7)))})
    for _ in range(3000):
        cases.append({"kind": "v1yaml", "items": _fix_labels(rng, gen_v1_items(rng, rng.randrange(1, 6)))})
    return cases


# ----------------------------------------------------------------------------- implementation side

_M = {}


def worker_init():
    logging.disable(logging.CRITICAL)
    from nemoguardrails.colang import _is_colang_v2, parse_colang_file
    from nemoguardrails.colang.v1_0.lang import colang_parser as v1cp
    from nemoguardrails.colang.v1_0.lang import coyml_parser as v1
    from nemoguardrails.colang.v2_x.lang import colang_ast as A
    from nemoguardrails.colang.v2_x.lang import expansion
    from nemoguardrails.colang.v2_x.runtime import statemachine as sm
    from nemoguardrails.colang.v2_x.runtime.flows import FlowConfig, State
    from nemoguardrails.colang.v2_x.runtime.runtime import create_flow_configs_from_flow_list

    counter = [0]

    def det_uuid():
        counter[0] += 1
        return str(counter[0])

    expansion.new_var_uuid = det_uuid  # deterministic uids ("…_<n>"), renamed by first occurrence before comparing

    # runtime-level families: deterministic offline embedding engine (LLMRails builds a flows index when it is constructed)
    import hashlib
    import sys

    from nemoguardrails import LLMRails, RailsConfig
    from nemoguardrails.colang.v2_x.runtime.runtime import RuntimeV2_x
    from nemoguardrails.embeddings.providers import register_embedding_provider
    from nemoguardrails.embeddings.providers.base import EmbeddingModel

    class FakeEmb(EmbeddingModel):
        engine_name = "fakeemb"

        def __init__(self, embedding_model=None, **kw):
            self.model = embedding_model
            self.embedding_size = 8

        def encode(self, documents):
            return [[b / 255.0 for b in hashlib.md5(d.encode()).digest()[:8]] for d in documents]

        async def encode_async(self, documents):
            return self.encode(documents)

    with contextlib.suppress(Exception):
        register_embedding_provider(FakeEmb, "fakeemb")
    sys.path.insert(0, os.path.join(REPO, "tests"))
    from utils import FakeLLM

    _M.update(LLMRails=LLMRails, RailsConfig=RailsConfig, RuntimeV2_x=RuntimeV2_x, FakeLLM=FakeLLM)
    _M.update(parse=parse_colang_file, is_v2=_is_colang_v2, v1=v1, v1cp=v1cp, A=A, expansion=expansion, sm=sm,
              FlowConfig=FlowConfig, State=State, mkcfgs=create_flow_configs_from_flow_list)


def _quiet():
    return contextlib.redirect_stdout(io.StringIO())


def config_version(path):
    """colang_version the loader would use for a .co file: the nearest config.yml / config.yaml upwards (RailsConfig.from_path
    reads it from the config directory), default "1.0"; files without any config fall back to the content heuristic the
    parser itself applies (`_is_colang_v2`)."""
    import yaml

    d = os.path.dirname(os.path.join(REPO, path))
    while d.startswith(REPO):
        for n in ("config.yml", "config.yaml"):
            p = os.path.join(d, n)
            if os.path.exists(p):
                try:
                    y = yaml.safe_load(open(p, encoding="utf-8"))
                except Exception:  # noqa
                    y = None
                if isinstance(y, dict) and "colang_version" in y:
                    return str(y["colang_version"])
        d = os.path.dirname(d)
    return None


# ---- Colang 2.x

def prim_of(e):
    """encode one real element for the Lean checker (class name + the attributes closedness speaks about)"""
    A = _M["A"]
    if isinstance(e, dict):
        return ["other", "dict:" + str(e.get("_type"))]
    if isinstance(e, A.Label):
        return ["label", e.name]
    if isinstance(e, A.Goto):
        # a Goto whose expression is the constant True is unconditional (`Prim.jump`): `slide` never falls through it
        return ["jump" if str(e.expression).strip() == "True" else "goto", e.label]
    if isinstance(e, A.ForkHead):
        return ["fork", e.fork_uid, list(e.labels)]
    if isinstance(e, A.MergeHeads):
        return ["merge", e.fork_uid]
    if isinstance(e, A.WaitForHeads):
        return ["wait", int(e.number)]
    if isinstance(e, A.CatchPatternFailure):
        return ["catch", e.label]
    if isinstance(e, A.Break):
        return ["break", e.label]
    if isinstance(e, A.Continue):
        return ["continue", e.label]
    if isinstance(e, A.BeginScope):
        return ["begin", e.name]
    if isinstance(e, A.EndScope):
        return ["end", e.name]
    if isinstance(e, A.Abort):
        return ["abort"]
    if isinstance(e, A.Return):
        return ["return"]
    if isinstance(e, A.SpecOp):
        return ["op", str(e.op), not isinstance(e.spec, A.Spec), e.return_var_name is not None]
    if isinstance(e, A.Assignment):
        return ["assign", re.search(NLD, e.expression) is not None]
    if isinstance(e, (A.If, A.While, A.When)):
        return ["composite", e._type]
    if isinstance(e, (A.Log, A.Print, A.Priority, A.Global, A.Meta)):
        return ["other", e._type]
    return ["composite", "unknown:" + type(e).__name__]


def scan_v2(elements, element_labels):
    """ORACLE — from-scratch closedness scan of the real compiled element objects (index based)."""
    A = _M["A"]
    n = len(elements)
    probs = []
    last = {}
    for i, e in enumerate(elements):
        if type(e).__name__ == "Label":
            last[e.name] = i
    if dict(element_labels) != last:
        probs.append("label-table: FlowConfig.element_labels differs from the positions of the last Label of each name")

    def target(i, what, lbl):
        if lbl not in element_labels:
            probs.append(f"dangling-target: element {i} ({what}) refers to label {lbl!r} which is not defined in this flow")
            return
        pos = element_labels[lbl]
        if not (0 <= pos < n and type(elements[pos]).__name__ == "Label" and elements[pos].name == lbl and pos + 1 <= n):
            probs.append(f"dangling-target: element {i} ({what}) label {lbl!r} resolves to position {pos} which is not that label inside the flow")

    for i, e in enumerate(elements):
        t = type(e).__name__
        if t == "Goto":
            target(i, "Goto", e.label)
        elif t == "ForkHead":
            for lbl in e.labels:
                target(i, "ForkHead", lbl)
        elif t == "CatchPatternFailure":
            if e.label is not None:
                target(i, "CatchPatternFailure", e.label)
        elif t in ("Break", "Continue"):
            if e.label is not None:
                target(i, t, e.label)
        elif t == "MergeHeads":
            if not any(type(x).__name__ == "ForkHead" and x.fork_uid == e.fork_uid for x in elements[:i]):
                probs.append(f"merge-without-fork: element {i} MergeHeads({e.fork_uid}) has no preceding ForkHead")
        elif t == "BeginScope":
            if not any(type(x).__name__ == "EndScope" and x.name == e.name for x in elements[i + 1:]):
                probs.append(f"scope-never-closed: element {i} BeginScope({e.name}) has no later EndScope")
        elif t == "EndScope":
            if not any(type(x).__name__ == "BeginScope" and x.name == e.name for x in elements[:i]):
                probs.append(f"endscope-without-beginscope: element {i} EndScope({e.name}) has no earlier BeginScope")
        elif t in ("If", "While", "When"):
            probs.append(f"composite-left: element {i} is an unexpanded {t}")
        elif t == "SpecOp":
            if e.op not in ("send", "match", "_new_action_instance") or isinstance(e.spec, dict) or e.return_var_name is not None:
                probs.append(f"composite-left: element {i} SpecOp(op={e.op}, group={isinstance(e.spec, dict)}, return_var={e.return_var_name}) is not primitive")
        elif t == "Assignment":
            if re.search(NLD, e.expression):
                probs.append(f"composite-left: element {i} is an unexpanded NLD assignment")
        elif t in ("Label", "WaitForHeads", "Abort", "Return", "Log", "Print", "Priority", "Global", "Meta", "dict"):
            pass
        else:
            probs.append(f"composite-left: element {i} has unknown type {t}")
    return probs


def scan_v2_paths(elements, labels):
    """ORACLE, path level — "every opened scope is closed" along the executions of one head: explore all positions a head
    can reach (both outcomes of every conditional Goto, every fork child, success and failure of every match, Abort to the
    innermost failure handler) with the set of scopes the head holds, exactly like `slide` keeps `head.scope_uids`.
    `slide` raises ColangRuntimeError when a head meets BeginScope(n) while n is still in its scope_uids."""
    n = len(elements)
    start = (0, frozenset(), ())
    seen = {start}
    work = [start]
    probs = {}

    def push(st):
        if st not in seen and len(seen) < 50000:
            seen.add(st)
            work.append(st)

    while work:
        pos, scopes, catch = work.pop()
        if pos >= n:
            continue
        e = elements[pos]
        t = type(e).__name__

        def fail():
            if catch and catch[-1] in labels:
                push((labels[catch[-1]] + 1, scopes, catch))

        if t == "Goto":
            if e.label in labels:
                push((labels[e.label] + 1, scopes, catch))
            if str(e.expression).strip() != "True":
                push((pos + 1, scopes, catch))
        elif t == "ForkHead":
            for lbl in e.labels:
                if lbl in labels:
                    push((labels[lbl], scopes, catch))
        elif t == "Abort":
            fail()
        elif t in ("Break", "Continue"):
            if e.label is None:
                push((pos + 1, scopes, catch))
            elif e.label in labels:
                push((labels[e.label] + 1, scopes, catch))
        elif t == "Return":
            pass
        elif t == "CatchPatternFailure":
            if e.label is None:
                push((pos + 1, scopes, catch[:-1]))
            elif len(catch) < 40:
                push((pos + 1, scopes, catch + (e.label,)))
        elif t == "BeginScope":
            if e.name in scopes:
                probs.setdefault(("scope-reopened", pos), f"scope-reopened: element {pos} BeginScope({e.name}) is reachable by a head that still holds this scope (it was opened and not closed on that path); slide raises 'Scope ... already opened in this head'")
            else:
                push((pos + 1, scopes | {e.name}, catch))
        elif t == "EndScope":
            # (slide only requires the scope to exist in flow_state.scopes, not in this head: no head-level condition here)
            push((pos + 1, scopes - {e.name}, catch))
        elif t == "SpecOp":
            push((pos + 1, scopes, catch))
            fail()
        else:
            push((pos + 1, scopes, catch))
    return [probs[k] for k in sorted(probs)]


def _atom_of(spec):
    A = _M["A"]
    if not isinstance(spec, A.Spec):
        return None
    started = spec.spec_type in (A.SpecType.FLOW, A.SpecType.ACTION) and spec.members is None
    if started:
        return ["flow" if spec.spec_type == A.SpecType.FLOW else "action", spec.ref is not None]
    if spec.spec_type == A.SpecType.EVENT or spec.members is not None:
        return ["ev", spec.ref is not None]
    return None


def dnf_of(spec):
    """disjunctive normal form of a spec / group, computed by the REAL `normalize_element_groups` (C07's subject)"""
    norm = _M["expansion"].normalize_element_groups(copy.deepcopy(spec))
    out = []
    for g in norm["elements"]:
        cl = [_atom_of(a) for a in g["elements"]]
        if any(a is None for a in cl) or not cl:
            return None
        out.append(cl)
    return out or None


def alias_sensitive(elements):
    """True if the real output of this body depends on which copy is expanded first: the compiler expands a then-body once
    per group of its case and an else-body once per case on the SAME AST objects; `Break.label`/`Continue.label` set while the
    first copy of an inner loop is expanded are kept by the later copies, and a nested `when` sees the temporary refs the
    first copy stored in its specs.  The Lean model makes every copy self-contained, so such ASTs are not compared."""
    A = _M["A"]

    def has_jump(xs):
        for e in xs or []:
            if isinstance(e, (A.Break, A.Continue)):
                return True
            if isinstance(e, A.If) and (has_jump(e.then_elements) or has_jump(e.else_elements)):
                return True
            if isinstance(e, A.While) and has_jump(e.elements):
                return True
            if isinstance(e, A.When) and (any(has_jump(t) for t in e.then_elements) or has_jump(e.else_elements)):
                return True
        return False

    for e in elements or []:
        if isinstance(e, A.While):
            if has_jump(e.elements) or alias_sensitive(e.elements):
                return True
        elif isinstance(e, A.If):
            if alias_sensitive(e.then_elements) or alias_sensitive(e.else_elements):
                return True
        elif isinstance(e, A.When):
            for sp in e.when_specs:
                d = dnf_of(sp)
                if d is None or any(a[0] != "ev" for cl in d for a in cl):
                    return True
            if any(alias_sensitive(t) for t in e.then_elements) or alias_sensitive(e.else_elements):
                return True
    return False


def stmt_of(e):
    """unexpanded real AST element -> Stmt JSON of the Lean Expand model, or None if outside the modelled language"""
    A = _M["A"]
    if isinstance(e, dict):
        return ["other", "dict:" + str(e.get("_type"))]
    if isinstance(e, A.SpecOp):
        single = isinstance(e.spec, A.Spec)
        d = dnf_of(e.spec)
        if d is None:
            return None
        atoms = [a for cl in d for a in cl]
        if e.op in ("send", "match"):
            if any(a[0] != "ev" for a in atoms) or e.return_var_name is not None:
                return None
            if single:
                return [e.op]
            return ["matchg" if e.op == "match" else "sendg", [len(cl) for cl in d]]
        if e.op == "start":
            if any(a[0] == "ev" for a in atoms) or e.return_var_name is not None:
                return None
            return ["start", d]
        if e.op == "await":
            if any(a[0] == "ev" for a in atoms):
                return None
            if single:
                return ["await1", atoms[0][0], e.return_var_name is not None]
            return None if e.return_var_name is not None else ["awaitg", d]
        if e.op in ("activate", "deactivate"):
            if len(d) != 1 or any(a[0] != "flow" for a in atoms):
                return None
            return [e.op, len(atoms)]
        return None
    if isinstance(e, A.Assignment):
        return ["nld"] if re.search(NLD, e.expression) else ["assign"]
    if isinstance(e, A.If):
        t = stmts_of(e.then_elements)
        f = stmts_of(e.else_elements or [])
        return None if t is None or f is None else ["if", t, f]
    if isinstance(e, A.While):
        b = stmts_of(e.elements)
        return None if b is None else ["while", b]
    if isinstance(e, A.When):
        specs = [dnf_of(sp) for sp in e.when_specs]
        thens = [stmts_of(t) for t in e.then_elements]
        els = stmts_of(e.else_elements or [])
        if any(x is None for x in specs) or any(x is None for x in thens) or els is None:
            return None
        for d, t in zip(specs, e.then_elements):
            if len(d) >= 2 and alias_sensitive(t):
                return None
        if len(specs) >= 2 and alias_sensitive(e.else_elements):
            return None
        return ["when", specs, thens, els, e.else_elements is not None]
    if isinstance(e, A.Break):
        return ["break"] if e.label is None else None
    if isinstance(e, A.Continue):
        return ["continue"] if e.label is None else None
    if isinstance(e, A.Return):
        return ["return"]
    if isinstance(e, A.Abort):
        return ["abort"]
    if isinstance(e, (A.Log, A.Print, A.Priority, A.Global)):
        return ["other", e._type]
    return None


def stmts_of(elements):
    out = []
    for e in elements:
        s = stmt_of(e)
        if s is None:
            return None
        out.append(s)
    return out


def build_v2_ast(stmts):
    A = _M["A"]
    out = []
    for s in stmts:
        k = s[0]
        if k == "send":
            out.append(A.SpecOp(op="send", spec=A.Spec(name="Ev1", spec_type=A.SpecType.EVENT, arguments={})))
        elif k == "match":
            out.append(A.SpecOp(op="match", spec=A.Spec(name="Ev2", spec_type=A.SpecType.EVENT, arguments={})))
        elif k == "assign":
            out.append(A.Assignment(key="x", expression="1"))
        elif k == "other":
            out.append({"_log": lambda: A.Log(info='"x"'), "_print": lambda: A.Print(info='"y"'), "_priority": lambda: A.Priority(priority_expr="0.5"),
                        "_global": lambda: A.Global(name="$g"), "dict:pass_stmt": lambda: {"_type": "pass_stmt", "elements": []}}[s[1]]())
        elif k == "return":
            out.append(A.Return(expression="None"))
        elif k == "abort":
            out.append(A.Abort())
        elif k == "break":
            out.append(A.Break())
        elif k == "continue":
            out.append(A.Continue())
        elif k == "if":
            out.append(A.If(expression="$x", then_elements=build_v2_ast(s[1]), else_elements=build_v2_ast(s[2]) if s[2] else None))
        elif k == "while":
            out.append(A.While(expression="$x", elements=build_v2_ast(s[1])))
        elif k in ("matchg", "sendg"):
            out.append(A.SpecOp(op="match" if k == "matchg" else "send", spec=_group_of([[["ev", False]] * n for n in s[1]], True)))
        elif k == "start":
            out.append(A.SpecOp(op="start", spec=_group_of(s[1], False)))
        elif k == "await1":
            out.append(A.SpecOp(op="await", spec=_spec_of([s[1], False]), return_var_name="v" if s[2] else None))
        elif k == "awaitg":
            out.append(A.SpecOp(op="await", spec=_group_of(s[1], True)))
        elif k in ("activate", "deactivate"):
            out.append(A.SpecOp(op=k, spec=_group_of([[["flow", False]] * s[1]], False)))
        elif k == "nld":
            out.append(A.Assignment(key="v", expression='..."extract a value"'))
        elif k == "when":
            out.append(A.When(when_specs=[_group_of(d, False) for d in s[1]], then_elements=[build_v2_ast(t) for t in s[2]],
                              else_elements=build_v2_ast(s[3]) if s[4] else None))
        else:
            raise ValueError(k)
    return out


def _spec_of(atom):
    A = _M["A"]
    k, ref = atom
    r = _M["expansion"]._create_ref_ast_dict_helper("$r") if ref else None
    if k == "flow":
        return A.Spec(name="helper a", spec_type=A.SpecType.FLOW, arguments={}, ref=r)
    if k == "action":
        return A.Spec(name="UtteranceBotAction", spec_type=A.SpecType.ACTION, arguments={}, ref=r)
    return A.Spec(name="Ev1", spec_type=A.SpecType.EVENT, arguments={}, ref=r)


def _group_of(dnf, always_dict):
    """a spec (single atom) or a group dict in or-of-ands shape"""
    def clause(cl):
        if len(cl) == 1 and not always_dict:
            return _spec_of(cl[0])
        return {"_type": "spec_and", "elements": [_spec_of(a) for a in cl]}

    if len(dnf) == 1:
        return clause(dnf[0])
    return {"_type": "spec_or", "elements": [_spec_of(cl[0]) if len(cl) == 1 else {"_type": "spec_and", "elements": [_spec_of(a) for a in cl]} for cl in dnf]}


def user_labels_of(elements):
    """names of the labels the USER wrote (Label elements of the parsed AST, before any expansion)"""
    A = _M["A"]
    out = []
    for e in elements or []:
        if isinstance(e, A.Label):
            out.append(e.name)
        elif isinstance(e, A.If):
            out += user_labels_of(e.then_elements) + user_labels_of(e.else_elements)
        elif isinstance(e, A.While):
            out += user_labels_of(e.elements)
        elif isinstance(e, A.When):
            for t in e.then_elements:
                out += user_labels_of(t)
            out += user_labels_of(e.else_elements)
    return out


def compile_v2_flows(flows, with_stmts, again=None):
    """real pipeline for a list of parsed Flow objects: FlowConfig -> initialize_flow (expand_elements + label table)"""
    sm, State = _M["sm"], _M["State"]
    stmts = {}
    ulabels = {f.name: sorted(set(user_labels_of(f.elements))) for f in flows}
    if with_stmts:
        for f in flows:
            stmts[f.name] = stmts_of(f.elements)
    try:
        cfgs = _M["mkcfgs"](flows)
    except Exception as e:  # noqa
        if "does not override any flow" not in str(e):
            raise
        # an @override flow whose base lives in another library file: the loader resolves it over the whole configuration;
        # compile the flows of this file one by one with the same FlowConfig construction
        from nemoguardrails.colang.v2_x.runtime.runtime import convert_decorator_list_to_dictionary as conv

        cfgs = {f.name: _M["FlowConfig"](id=f.name, elements=f.elements, decorators=conv(f.decorators), parameters=f.parameters,
                                         return_members=f.return_members, source_code=f.source_code, source_file=f.file_info["name"]) for f in flows}
    state = State(flow_states=[], flow_configs=cfgs)
    out = []
    for name, cfg in cfgs.items():
        rec = {"id": name}
        try:
            with _quiet():
                sm.initialize_flow(state, cfg)
        except Exception as e:  # noqa  -- the loader (initialize_state) rejects the whole configuration because of this flow
            rec["reject"] = f"{type(e).__name__}: {str(e)[:120]}"
            out.append(rec)
            continue
        rec.update(flow_record(cfg))
        rec["user_labels"] = ulabels.get(name, [])
        if stmts.get(name) is not None:
            rec["stmts"] = stmts[name]
        out.append(rec)
    # re-entrancy of the compiler (phase 4): the SAME objects go through it again
    first = {r["id"]: r.get("prog") for r in out}
    if again == "reinit":
        # what every further fresh conversation does: initialize_state -> initialize_flow on the flow configs the runtime holds
        for name, cfg in cfgs.items():
            if first.get(name) is None:
                continue
            with _quiet():
                sm.initialize_flow(state, cfg)
            rec = dict(flow_record(cfg), id=name, snap=[1, 0], cls="@reinitialized")
            if rec["prog"] != first[name] or rec["oracle"]:
                out.append(rec)
            else:
                out.append({"id": name, "same": True, "cls": "@reinitialized"})
    elif again in ("recompile", "recompile2") and all(p is not None for p in first.values()):
        # what a second runtime on the same RailsConfig does: new FlowConfigs from the same parsed Flow objects
        for k in range(1 if again == "recompile" else 2):
            cfgs2 = _M["mkcfgs"](flows)
            state2 = State(flow_states=[], flow_configs=cfgs2)
            for name, cfg in cfgs2.items():
                with _quiet():
                    sm.initialize_flow(state2, cfg)
                out.append(dict(flow_record(cfg), id=name, snap=[k + 1, k + 1], cls="@recompiled-ast", recompiled=k + 1))
    return out


def flow_record(cfg):
    """what the check looks at in one compiled flow (FlowConfig after initialize_flow)"""
    return {"prog": [prim_of(e) for e in cfg.elements],
            "labels": sorted([k, v] for k, v in cfg.element_labels.items()),
            "oracle": scan_v2(cfg.elements, cfg.element_labels),
            "oracle_paths": scan_v2_paths(cfg.elements, cfg.element_labels)}


RT_YAML2 = 'colang_version: "2.x"\nmodels:\n  - type: embeddings\n    engine: fakeemb\n    model: fake\n'
RT_YAML1 = ("models:\n  - type: main\n    engine: openai\n    model: gpt-3.5-turbo-instruct\n"
            "  - type: embeddings\n    engine: fakeemb\n    model: fake\n")
CLS_ORDER = ["", "@added-flow", "@reinitialized", "@clobbered", "@recompiled-ast"]


class _Watchdog(BaseException):
    pass


def _event(n):
    return dict(n) if isinstance(n, dict) else {"type": n}


def run_v2rt(case):
    """One history on REAL runtime objects.  After every step every live instance is inspected: each flow config it holds
    (`runtime.flow_configs`, and the `flow_configs` of the State of its last conversation when that is another dict) must be a
    closed flow.  Steps: new (RuntimeV2_x / LLMRails on the shared RailsConfig object), reload (fresh RailsConfig + instance),
    conv (process_events(events, state=None)), cont (same conversation goes on), reinit (initialize_state again on the flow
    configs the runtime holds), add (the registered AddFlowsAction function on the state of the last conversation), gen
    (LLMRails.generate, api=rails only)."""
    import asyncio

    sm, State = _M["sm"], _M["State"]
    obs = {"version": "2.x", "rt": True, "flows": [], "steps_done": []}
    try:
        with _quiet():
            config = _M["RailsConfig"].from_content(colang_content=case["src"], yaml_content=RT_YAML2)
    except Exception as e:  # noqa
        obs["reject"] = f"parse: {type(e).__name__}: {str(e)[:120]}"
        return obs
    cfg_id = 0
    insts = []  # {"rt", "rails", "cfg", "compiles", "added", "state"}
    compilers = {}  # cfg id -> set of instance indices that compiled it
    seen = {}  # (inst, view, flow id) -> prog of the last snapshot

    def cls_of(j, actor, fid):
        """history class of a (new or changed) compiled flow seen in instance j after a step of instance `actor`"""
        inst = insts[j]
        if actor != j:
            return "@clobbered"  # the flows of an instance changed although ANOTHER instance acted
        if len(compilers.get(inst["cfg"], ())) >= 2:
            return "@recompiled-ast"  # the parsed flows of this RailsConfig object were compiled by >= 2 instances
        if inst["compiles"] >= 2:
            return "@reinitialized"  # one instance, second or later fresh conversation / initialize_state
        return "@added-flow" if fid.startswith("extra") else ""

    def snapshot(step, actor):
        for j, inst in enumerate(insts):
            if not inst["compiles"]:
                continue
            views = [("rt", inst["rt"].flow_configs)]
            if inst["state"] is not None and inst["state"].flow_configs is not inst["rt"].flow_configs:
                views.append(("state", inst["state"].flow_configs))
            for vname, cfgs in views:
                for fid, fc in cfgs.items():
                    rec = flow_record(fc)
                    key = (j, vname, fid)
                    if seen.get(key) == rec["prog"]:
                        continue
                    seen[key] = rec["prog"]
                    obs["flows"].append(dict(rec, id=fid, snap=[step, j], view=vname, cls=cls_of(j, actor, fid)))

    cur = None
    for i, st in enumerate(case["steps"]):
        k = st[0]
        done = k
        try:
            with _quiet():
                if k in ("new", "reload"):
                    if k == "reload":
                        config = _M["RailsConfig"].from_content(colang_content=case["src"], yaml_content=RT_YAML2)
                        cfg_id += 1
                    if case.get("api") == "rails":
                        rails = _M["LLMRails"](config)
                        rt = rails.runtime
                    else:
                        # (api=runtime: the action dispatcher does not import the action modules of the library from disk
                        # for every instance -- 70 ms each, irrelevant for the flows; api=rails constructs everything)
                        from nemoguardrails.actions.action_dispatcher import ActionDispatcher
                        orig = ActionDispatcher.load_actions_from_path
                        ActionDispatcher.load_actions_from_path = lambda self, path: None
                        try:
                            rails, rt = None, _M["RuntimeV2_x"](config)
                        finally:
                            ActionDispatcher.load_actions_from_path = orig
                    insts.append({"rt": rt, "rails": rails, "cfg": cfg_id, "compiles": 0, "added": False, "state": None})
                    cur = len(insts) - 1
                elif cur is None:
                    done = "skipped"
                elif k in ("conv", "gen"):
                    inst = insts[cur]
                    compilers.setdefault(inst["cfg"], set()).add(cur)
                    inst["compiles"] += 1
                    events = [_event(n) for n in (st[1] if k == "conv" else [])]
                    if k == "gen" and inst["rails"] is not None:
                        inst["rails"].generate(messages=[{"role": "user", "content": st[1]}])
                        inst["state"] = None
                    elif inst["rails"] is not None:
                        _ev, inst["state"] = inst["rails"].process_events(events, state=None)
                    else:
                        _ev, inst["state"] = asyncio.run(inst["rt"].process_events(events, state=None))
                elif k == "cont":
                    inst = insts[cur]
                    if inst["state"] is None:
                        done = "skipped"
                    elif inst["rails"] is not None:
                        _ev, inst["state"] = inst["rails"].process_events([_event(n) for n in st[1]], state=inst["state"])
                    else:
                        _ev, inst["state"] = asyncio.run(inst["rt"].process_events([_event(n) for n in st[1]], state=inst["state"]))
                elif k == "json":
                    inst = insts[cur]
                    if inst["state"] is None:
                        done = "skipped"
                    else:
                        from nemoguardrails.colang.v2_x.runtime.serialization import json_to_state, state_to_json
                        inst["state"] = json_to_state(state_to_json(inst["state"]))
                elif k == "reinit":
                    inst = insts[cur]
                    compilers.setdefault(inst["cfg"], set()).add(cur)
                    inst["compiles"] += 1
                    state = State(flow_states={}, flow_configs=inst["rt"].flow_configs, rails_config=config)
                    sm.initialize_state(state)
                    inst["state"] = state
                elif k == "add":
                    inst = insts[cur]
                    if inst["state"] is None:
                        done = "skipped"
                    else:
                        added = asyncio.run(inst["rt"]._add_flows_action(inst["state"], config=st[1]))
                        inst["added"] = inst["added"] or bool(added)
                        done = "add:%d" % len(added)
                else:
                    raise ValueError(k)
        except Exception as e:  # noqa  -- the loader rejects the configuration (ColangSyntaxError from initialize_state, ...)
            obs["reject"] = f"step {i} {k}: {type(e).__name__}: {str(e)[:160]}"
            obs["steps_done"].append("raised")
            break
        obs["steps_done"].append(done)
        for inst in insts:  # a flow the program itself added through AddFlowsAction
            if inst["state"] is not None and any(f.startswith("extra one") for f in inst["state"].flow_configs):
                inst["added"] = True
        snapshot(i, cur)
    obs["flows"].sort(key=lambda f: CLS_ORDER.index(f["cls"]))  # stable: history order inside a class
    return obs


def run_v1rt(case):
    """Colang 1.0 analogue: the elements the runtime holds (`runtime.flow_configs[...].elements`) and the elements of the
    RailsConfig itself, after one / two LLMRails on a shared RailsConfig, after the configuration was loaded again, after a
    conversation, and for flows added at run time by `_process_start_flow` (multi-step generation)."""
    import asyncio

    obs = {"version": "1.0", "rt": True, "flows": [], "steps_done": []}
    yaml1 = RT_YAML1
    if case.get("rails"):  # generated flows used as input / output rails: LLMRails marks them `is_subflow` / `is_system_flow`
        yaml1 += "rails:\n" + "".join("  %s:\n    flows:\n%s" % (k, "".join("      - %s\n" % f for f in fs)) for k, fs in sorted(case["rails"].items()) if fs)
    try:
        with _quiet():
            config = _M["RailsConfig"].from_content(colang_content=case["src"], yaml_content=yaml1)
    except Exception as e:  # noqa
        obs["reject"] = f"parse: {type(e).__name__}: {str(e)[:120]}"
        return obs
    own = set()
    for f in config.flows:
        if f.get("source_code") and f["id"] in case["src"]:
            own.add(f["id"])
    insts = []
    seen = {}
    dyn_items = {}

    def snapshot(step):
        # EVERY flow of the configuration object and EVERY flow config a live runtime holds (phase 5: also the default flows
        # LLMRails adds from llm_flows.co / the library and the flows it marks as rail subflows); flows that are not the
        # case's own are recorded once per case unless an instance holds something else
        views = [("config", {f["id"]: f["elements"] for f in config.flows})]
        for j, r in enumerate(insts):
            views.append(("rt%d" % j, {fid: fc.elements for fid, fc in r.runtime.flow_configs.items()}))
        for vname, flows in views:
            for fid, elements in flows.items():
                elems = [elem_of(e) for e in elements]
                mine = fid in own or fid.startswith("dyn")
                key = (vname, fid) if mine else (vname[:2], fid)
                if seen.get(key) == elems:
                    continue
                seen[key] = elems
                rec = {"id": fid, "elems": elems, "oracle": scan_v1(elements), "snap": [step, vname], "cls": "" if step == 0 else "@later"}
                if vname.startswith("rt") and dyn_items.get((vname, fid)) is not None:
                    rec["items"], rec["dyn"] = dyn_items[(vname, fid)], True  # compared with the Lean model `dynamicFlow`
                elif vname.startswith("rt") and fid in views[0][1] and not fid.startswith("dyn"):
                    # the flow a live runtime holds vs the Lean model `loadFlow` of the loader applied to the configuration's elements
                    rec["from"] = [elem_of(e) for e in views[0][1][fid]]
                obs["flows"].append(rec)

    for i, st in enumerate(case["steps"]):
        k = st[0]
        done = k
        try:
            with _quiet():
                if k in ("new", "reload"):
                    if k == "reload":
                        config = _M["RailsConfig"].from_content(colang_content=case["src"], yaml_content=yaml1)
                    insts.append(_M["LLMRails"](config, llm=_M["FakeLLM"](responses=["  express greeting", '  "Hi"'] * 4)))
                elif k == "gen":
                    insts[-1].generate(messages=[{"role": "user", "content": st[1]}])
                elif k == "dyn":
                    rt = insts[-1].runtime
                    before = st[1] in rt.flow_configs
                    asyncio.run(rt._process_start_flow([{"type": "start_flow", "flow_id": st[1], "flow_body": st[2]}], []))
                    done = "dyn:" + ("kept" if before else "added" if st[1] in rt.flow_configs else "refused")
                    if done == "dyn:added":
                        import textwrap

                        try:  # the CoYML items of the same body through the split pipeline (for the model `dynamicFlow`)
                            body = "define flow " + st[1] + ":\n" + textwrap.indent(st[2], "  ")
                            recs = compile_v1_source("dynamic.co", body, load=False)
                            dyn_items[("rt%d" % (len(insts) - 1), st[1])] = recs[0].get("items") if len(recs) == 1 else None
                        except Exception:  # noqa
                            pass
                else:
                    raise ValueError(k)
        except Exception as e:  # noqa
            obs["reject"] = f"step {i} {k}: {type(e).__name__}: {str(e)[:160]}"
            obs["steps_done"].append("raised")
            break
        obs["steps_done"].append(done)
        snapshot(i)
    return obs


# ---- Colang 1.0

def elem_of(e):
    def gi(k):
        return int(e[k]) if k in e and e[k] is not None else None

    return {"k": str(e.get("_type")), "n": gi("_next"), "e": gi("_next_else"), "b": gi("_next_on_break"), "c": gi("_next_on_continue"),
            "h": [int(x) for x in e.get("branch_heads", [])], "a": bool(e.get("_absolute", False)),
            "nm": e.get("name") if e.get("_type") == "label" else (e.get("label") if e.get("_type") == "goto" else None),
            "el": e.get("_type") == "set" and e.get("expression") == "...",
            "raw": any(k in e for k in ("then", "else", "do", "elements"))}


def scan_v1(elements):
    """ORACLE — from-scratch scan of the real Colang 1.0 elements: every relative offset lands inside the flow."""
    n = len(elements)
    probs = []
    for i, e in enumerate(elements):
        t = e.get("_type")
        for key in ("_next", "_next_else", "_next_on_break", "_next_on_continue"):
            if key in e:
                off = int(e[key])
                if key == "_next" and e.get("_absolute"):
                    if not (off == -1 or 0 <= off <= n):
                        probs.append(f"offset-out-of-bounds: element {i} absolute jump to {off} (len {n})")
                elif not (0 <= i + off <= n):
                    probs.append(f"offset-out-of-bounds: element {i} ({t}) {key}={off} lands on {i + off} outside [0, {n}]")
        for h in e.get("branch_heads", []):
            if not (0 <= i + int(h) < n):
                probs.append(f"offset-out-of-bounds: element {i} branch head {h} lands on {i + int(h)} outside [0, {n})")
        if t in ("goto", "label"):
            probs.append(f"unresolved: element {i} is still a {t}")
        if any(k in e for k in ("then", "else", "do", "elements")):
            probs.append(f"composite-left: element {i} ({t}) still carries a nested body")
        if t == "if" and "_next_else" not in e:
            probs.append(f"missing-offset: element {i} `if` without _next_else")
        if t == "while" and "_next_on_break" not in e:
            probs.append(f"missing-offset: element {i} `while` without _next_on_break")
        if t == "jump" and "_next" not in e:
            probs.append(f"missing-offset: element {i} `jump` without _next")
        # "every jump target exists": a resolved `goto <name>` (`_resolve_gotos` leaves `_debug = "goto <name>"`) must land on the
        # element that was the checkpoint `<name>` (`_label = <name>`) of the SAME flow
        dbg = e.get("_debug")
        if t == "jump" and isinstance(dbg, str) and dbg.startswith("goto ") and "_next" in e and not e.get("_absolute"):
            tgt = i + int(e["_next"])
            if 0 <= tgt < n and elements[tgt].get("_label") != dbg[5:]:
                probs.append(f"goto-misses-checkpoint: element {i} is the resolved `{dbg}` and lands on element {tgt}, which is not the checkpoint `{dbg[5:]}` ({elements[tgt].get('_type')}, _label={elements[tgt].get('_label')!r})")
            elif tgt == n:
                probs.append(f"goto-misses-checkpoint: element {i} is the resolved `{dbg}` and lands on the end of the flow, not on the checkpoint `{dbg[5:]}`")
    return probs


def item_of(d):
    """CoYML item -> Item JSON of the Lean V1Compile model (uses the repo's own `_dict_to_element` for the `_type`)."""
    v1 = _M["v1"]
    el = d if "_type" in d else v1._dict_to_element(copy.deepcopy(d))
    t = el["_type"]
    if t == "if":
        return ["if", items_of(el["then"]), items_of(el["else"])]
    if t == "while":
        return ["while", items_of(el["do"])]
    if t == "any":
        return ["any", [str(c["_type"]) for c in el["elements"]]]
    if t == "label":
        return ["label", el["name"]]
    if t == "goto":
        return ["goto", el["label"]]
    if t == "jump" and el.get("_absolute"):
        return ["ret"]
    if t == "set" and el.get("expression") == "...":
        return ["ell"]
    return ["s", str(t)]


def items_of(items):
    out = []
    for it in items:
        if isinstance(it, list):
            if out and out[-1][0] == "br":
                out[-1][1].append(items_of(it))
            else:
                out.append(["br", [items_of(it)]])
        else:
            out.append(item_of(it))
    return out


V1_ELEMENT = {
    "UserIntent": lambda: {"_type": "UserIntent", "intent_name": "a", "intent_params": {}},
    "run_action": lambda: {"_type": "run_action", "action_name": "utter", "action_params": {"value": "x"}},
    "break": lambda: {"_type": "break"}, "continue": lambda: {"_type": "continue"}, "stop": lambda: {"_type": "stop"},
    "check": lambda: {"_type": "check", "expression": "$x"}, "set": lambda: {"_type": "set", "key": "x", "expression": "1"},
    "meta": lambda: {"_type": "meta", "meta": {}}, "flow": lambda: {"_type": "flow", "flow_name": "g", "flow_parameters": {}, "return_vars": []},
}


def build_v1_items(items):
    out = []
    for it in items:
        k = it[0]
        if k == "s":
            out.append(V1_ELEMENT[it[1]]())
        elif k == "ell":
            out.append({"_type": "set", "key": "x", "expression": "..."})
        elif k == "ret":
            out.append({"_type": "jump", "_next": "-1", "_absolute": True})
        elif k == "label":
            out.append(dict({"_type": "label", "name": it[1]}, **({"value": it[2]} if len(it) > 2 else {})))
        elif k == "goto":
            out.append({"_type": "goto", "label": it[1]})
        elif k == "if":
            out.append({"_type": "if", "expression": "$x", "then": build_v1_items(it[1]), "else": build_v1_items(it[2])})
        elif k == "while":
            out.append({"_type": "while", "expression": "$x", "do": build_v1_items(it[1])})
        elif k == "any":
            out.append({"_type": "any", "count": len(it[1]), "elements": [V1_ELEMENT[c]() for c in it[1]]})
        elif k == "br":
            for b in it[1]:
                out.append(build_v1_items(b))
        else:
            raise ValueError(k)
    return out


def load_v1_flows(flow_dicts):
    """phase 5 — the elements the RUNTIME holds.  The compiled flows go through the real `RuntimeV1_0._init_flow_configs` /
    `_load_flow_config` (one RuntimeV1_0 per worker process, its configuration's flow list replaced per case); returned are
    the `FlowConfig.elements` lists of `runtime.flow_configs` — what `slide` / `compute_next_state` execute.  They get the
    same from-scratch scan and the same proved checker as the parser's output, plus a differential against the Lean model
    `loadFlow` of the loader."""
    rt = _M.get("v1loader")
    if rt is None:
        from nemoguardrails.colang.v1_0.runtime.runtime import RuntimeV1_0

        with _quiet():
            rt = RuntimeV1_0(config=_M["RailsConfig"].from_content(colang_content="", yaml_content=RT_YAML1))
        _M["v1loader"] = rt
    recs = []
    rt.config.flows = [copy.deepcopy(f) for f in flow_dicts]
    try:
        rt._init_flow_configs()
    except Exception as e:  # noqa
        return [{"id": f["id"], "loaded": True, "reject": f"load: {type(e).__name__}: {str(e)[:120]}"} for f in flow_dicts]
    for f in flow_dicts:
        fc = rt.flow_configs.get(f["id"])
        if fc is None:
            recs.append({"id": f["id"], "loaded": True, "elems": [], "oracle": ["adapter: the runtime holds no flow config for this flow of the configuration"], "cls": "@loaded"})
            continue
        recs.append({"id": f["id"], "loaded": True, "elems": [elem_of(e) for e in fc.elements], "oracle": scan_v1(fc.elements),
                     "from": [elem_of(e) for e in f["elements"]], "cls": "@loaded"})
    rt.config.flows = []
    rt.flow_configs = {}
    return recs


# every shorthand key `_dict_to_element` accepts, grouped by the `_type` it produces (the n-th use takes the n-th alias)
V1_SHORT = {
    "UserIntent": [{"user": "said a"}, {"intent": "said b"}, {"you": "said c"}, {"user": "said a(x=1)"}],
    "run_action": [{"bot": "say x"}, {"utter": "say y"}, {"ask": "say z"}, {"bot_ask": "say q"}, {"run": "act"}, {"action": "act(a=1)"},
                   {"execute": "$r = act"}, {"infer": [{"event": "X"}]}, {"add": [{"user": "said i"}]}, {"new": {"event": "Y"}},
                   {"post": [{"event": "Z"}]}],
    "break": [{"break": True}], "continue": [{"continue": True}, {"pass": True}], "stop": [{"stop": True}, {"abort": True}],
    "check": [{"check": "$x"}], "set": [{"set": "$x = 1"}, {"set": "x = $x + 1"}],
    "meta": [{"meta": {"note": "n"}}, {"meta": {"priority": 2}}, {"meta": {}}],
    "flow": [{"flow": "g"}, {"call": "g($x)"}, {"activate": "g"}],
}


def _v1_short(kind, n):
    alts = V1_SHORT[kind]
    return copy.deepcopy(alts[n[0] % len(alts)])



def build_v1_yaml(items, n=None):
    """the same item trees in the CoYML SHORTHAND of a `flows:` section of config.yml (second loading route:
    `RailsConfig.parse_object` -> `parse_flow_elements`)"""
    out = []
    n = n if n is not None else [0]
    for it in items:
        k = it[0]
        n[0] += 1
        if k == "s":
            out.append(_v1_short(it[1], n))
        elif k == "ell":
            out.append({"set": "$x = ..."})
        elif k == "ret":
            out.append({"return": True})
        elif k == "label":
            out.append(dict({"label" if n[0] % 2 else "checkpoint": it[1]}, **({"value": it[2]} if len(it) > 2 else {})))
        elif k == "goto":
            out.append({"goto": it[1]})
        elif k == "if":
            d = {"if": "$x", "then": build_v1_yaml(it[1], n)}
            if it[2]:
                d["else"] = build_v1_yaml(it[2], n)
            out.append(d)
        elif k == "while":
            out.append({"while": "$x", "do": build_v1_yaml(it[1], n)})
        elif k == "any":
            out.append({"any" if n[0] % 2 else "or": [_v1_short(c, [n[0] + j]) for j, c in enumerate(it[1])]})
        elif k == "br":
            for b in it[1]:
                out.append(build_v1_yaml(b, n))
        else:
            raise ValueError(k)
    return out


def compile_v1_yaml(case):
    items = build_v1_yaml(case["items"])
    raw = {"models": [], "flows": [{"id": "gen", "elements": items}]}
    rec = {"id": "gen"}
    try:
        with _quiet():
            if case.get("text"):
                import yaml

                config = _M["RailsConfig"].from_content(yaml_content=yaml.safe_dump(raw, sort_keys=False))
            else:
                config = _M["RailsConfig"].parse_object(copy.deepcopy(raw))
    except Exception as e:  # noqa
        rec["reject"] = f"{type(e).__name__}: {str(e)[:120]}"
        if not (items and isinstance(items[0], dict)):
            return [rec]  # (a flow that starts with a branch list / an empty flow: refused before parse_flow_elements is reached)
        rec["items"] = case["items"]
        return [rec]
    flows = [f for f in config.flows if f.get("id") == "gen"]
    if len(flows) != 1:
        rec["reject"] = "the configuration holds %d flows `gen`" % len(flows)
        return [rec]
    elements = flows[0]["elements"]
    if items and isinstance(items[0], dict):
        rec["items"] = case["items"]
    rec["elems"] = [elem_of(e) for e in elements]
    rec["oracle"] = scan_v1(elements)
    return [rec] + load_v1_flows([{"id": "gen", "elements": elements}])


def compile_v1_items(flow_id, items, model_items, keep=None):
    v1 = _M["v1"]
    rec = {"id": flow_id}
    if model_items is not None:
        rec["items"] = model_items
    try:
        elements = v1.parse_flow_elements(items)
    except Exception as e:  # noqa
        rec["reject"] = f"{type(e).__name__}: {str(e)[:120]}"
        return rec
    rec["elems"] = [elem_of(e) for e in elements]
    rec["oracle"] = scan_v1(elements)
    if keep is not None:
        keep.append({"id": flow_id, "elements": elements})
    return rec


def compile_v1_source(filename, content, load=True):
    """real pipeline of the 1.0 parser, split so that the CoYML items are visible for the compiler differential"""
    v1cp = _M["v1cp"]
    snippets, _imports = v1cp.parse_snippets_and_imports(filename, content)
    result = v1cp.parse_coflows_to_yml_flows(filename, content, snippets=snippets, include_source_mapping=True)
    out = []
    keep = []
    for flow_id, items in result["flows"].items():
        try:
            model_items = items_of(items)
        except Exception:  # noqa  -- an item the converter does not understand: checker + oracle only
            model_items = None
        out.append(compile_v1_items(flow_id, copy.deepcopy(items), model_items, keep))
    if load and keep:
        out.extend(load_v1_flows(keep))
    return out


# ---- phase 5: state of the code under test that survives across compilations (memoisation keyed too coarsely, shared
# mutable results, …).  Every worker process compiles thousands of programs one after the other, so such state IS exercised;
# what is missing is a self-contained failing input.  A compile case whose from-scratch scan fails is therefore run again
# in a FRESH interpreter: when it is clean there, the failure depends on what the process compiled before, the smallest
# suffix of the worker's own history that reproduces it in a fresh interpreter is attached, the finding gets the history
# class `@after-other-compilations`, and the shrinker turns it into a hermetic `v1seq` / `v2seq` case (a sequence of
# programs, always run in a fresh interpreter).
HIST_KINDS = ("v1items", "v1yaml", "v1src", "v2src", "v2ast")
_HIST = []
_CONFIRM_BUDGET = [3]
_NEEDS = {}


def _has_problem(obs):
    return any(f.get("oracle") or f.get("oracle_paths") for f in obs.get("flows", []))


def _fresh(cases):
    """run the cases one after the other in a fresh interpreter; list of observations or None"""
    import subprocess
    import sys

    code = ("import sys, json\nfrom harness.props import C12 as m\nm._CONFIRM_BUDGET[0] = 0\nm.worker_init()\n"
            "cases = json.load(sys.stdin)\nout = [m._run_impl(c) for c in cases]\nsys.stdout.write('\\n@@RESULT@@' + json.dumps(out, default=str))\n")
    try:
        p = subprocess.run([sys.executable, "-c", code], input=json.dumps(cases).encode(), stdout=subprocess.PIPE, stderr=subprocess.DEVNULL,
                           timeout=300, cwd=os.path.dirname(os.path.dirname(os.path.dirname(os.path.abspath(__file__)))))
        return json.loads(p.stdout.decode().split("@@RESULT@@")[-1])
    except Exception:  # noqa
        return None


def run_impl(case):
    k = case["kind"]
    if k in ("v1seq", "v2seq"):
        res = _fresh(case["seq"])
        if not res:
            return {"version": "1.0" if k == "v1seq" else "2.x", "flows": [], "reject": "fresh interpreter: no result"}
        obs = res[-1]
        for f in obs.get("flows", []):
            if f.get("oracle") or f.get("oracle_paths"):
                f["cls"] = "@after-other-compilations"
        obs["hermetic"] = len(case["seq"])
        return obs
    obs = _run_impl(case)
    if k in HIST_KINDS:
        if _has_problem(obs) and _CONFIRM_BUDGET[0] > 0:
            _CONFIRM_BUDGET[0] -= 1
            fresh = _fresh([case])
            if fresh is not None and not _has_problem(fresh[0]):
                need = None
                for m in (1, 2, 4, 8, 16, 32):
                    hist = [c for c in _HIST[-m:]]
                    r = _fresh(hist + [case])
                    if r and _has_problem(r[-1]):
                        need = hist
                        break
                    if m >= len(_HIST):
                        break
                for f in obs["flows"]:
                    if f.get("oracle") or f.get("oracle_paths"):
                        f["cls"] = "@after-other-compilations"
                obs["history_dependent"] = True
                obs["history"] = need
        _HIST.append(case)
        del _HIST[:-32]
    return obs


def _run_impl(case):
    k = case["kind"]
    if k == "file":
        path = os.path.join(REPO, case["path"])
        content = open(path, encoding="utf-8").read()
        ver = config_version(case["path"])
        src = "config"
        if ver is None:
            ver, src = ("2.x" if _M["is_v2"](content) else "1.0"), "content"
        obs = {"version": ver, "version_from": src}
        try:
            with _quiet():
                parsed = _M["parse"](os.path.basename(path), content=content, version=ver)
        except Exception as e:  # noqa  -- ColangParsingError in the loader
            obs["reject"] = f"parse: {type(e).__name__}: {str(e)[:120]}"
            return obs
        if not parsed:
            obs["reject"] = "skipped by parse_colang_file (content is not a Colang %s file)" % ver
            return obs
        if ver == "2.x":
            try:
                obs["flows"] = compile_v2_flows(parsed["flows"], False)
            except Exception as e:  # noqa
                obs["reject"] = f"flow-configs: {type(e).__name__}: {str(e)[:120]}"
        else:
            # the loader's result for 1.0 is what parse_colang_file returned; the split pipeline gives the items for the differential
            flows = compile_v1_source(os.path.basename(path), content, load=False)
            real = {f["id"]: [elem_of(e) for e in f["elements"]] for f in parsed["flows"]}
            for f in flows:
                if "elems" in f and real.get(f["id"]) != f["elems"]:
                    f["oracle"] = f.get("oracle", []) + ["adapter: split pipeline differs from parse_colang_file for this flow"]
            with _quiet():
                flows.extend(load_v1_flows(parsed["flows"]))  # the flow dicts the loader got from parse_colang_file
            obs["flows"] = flows
        return obs
    if k == "v2src":
        obs = {"version": "2.x"}
        try:
            with _quiet():
                parsed = _M["parse"]("gen.co", content=case["src"], include_source_mapping=False, version="2.x")
            obs["flows"] = compile_v2_flows(parsed["flows"], True)
        except Exception as e:  # noqa
            obs["reject"] = f"parse: {type(e).__name__}: {str(e)[:120]}"
        return obs
    if k == "v2witness":
        with _quiet():
            parsed = _M["parse"]("gen.co", content=case["src"], include_source_mapping=False, version="2.x")
        return {"version": "2.x", "witness": True, "flows": compile_v2_flows(parsed["flows"], False)}
    if k == "v2ast":
        A = _M["A"]
        flow = A.Flow(name="main", elements=build_v2_ast(case["stmts"]), file_info={"name": "gen"})
        obs = {"version": "2.x", "flows": compile_v2_flows([flow], False, case.get("again"))}
        for f in obs["flows"]:
            if "cls" not in f:
                f["stmts"] = case["stmts"]
            elif f.get("recompiled") and not f["oracle"]:
                f["stmts2"] = case["stmts"]  # compared with the model of the REPAIRED compiler's k+1-st compilation
        return obs
    if k in ("v2rt", "v1rt"):
        # these cases EXECUTE conversations: CPU-time watchdog (ITIMER_VIRTUAL, independent of the runner's wall-clock alarm)
        import signal

        def on_timeout(signum, frame):  # fires again every second: the interpreter's `except Exception` must not swallow it
            raise _Watchdog("conversation did not finish within 20 s of CPU time")

        old = signal.signal(signal.SIGVTALRM, on_timeout)
        signal.setitimer(signal.ITIMER_VIRTUAL, 20, 1)
        try:
            return run_v2rt(case) if k == "v2rt" else run_v1rt(case)
        except _Watchdog as e:
            signal.setitimer(signal.ITIMER_VIRTUAL, 0)
            return {"version": "2.x" if k == "v2rt" else "1.0", "rt": True, "flows": [], "steps_done": ["timeout"], "reject": "timeout: " + str(e)}
        finally:
            signal.setitimer(signal.ITIMER_VIRTUAL, 0)
            signal.signal(signal.SIGVTALRM, old)
    if k == "v1src":
        obs = {"version": "1.0"}
        try:
            with _quiet():
                obs["flows"] = compile_v1_source("gen.co", case["src"])
        except Exception as e:  # noqa
            obs["reject"] = f"parse: {type(e).__name__}: {str(e)[:120]}"
        return obs
    if k == "v1items":
        keep = []
        flows = [compile_v1_items("gen", build_v1_items(case["items"]), case["items"], keep)]
        if keep:
            flows.extend(load_v1_flows(keep))
        return {"version": "1.0", "flows": flows}
    if k == "v1yaml":
        return {"version": "1.0", "flows": compile_v1_yaml(case)}
    raise ValueError(k)


# ----------------------------------------------------------------------------- model side

def _wants_pathsafe(f):
    """flows that open scopes (when / await groups), of moderate size: run the PROVED path-level checker on the real output"""
    return len(f["prog"]) <= 400 and any(p[0] == "begin" for p in f["prog"]) and not f["oracle"]


def _n_exits(stmts):
    n = 0
    for s in stmts:
        if s[0] in ("break", "continue"):
            n += 1
        elif s[0] == "if":
            n += _n_exits(s[1]) + _n_exits(s[2])
        elif s[0] == "while":
            n += _n_exits(s[1])
    return n


def model_requests(case, obs):
    reqs = []
    if obs.get("witness"):
        return [{"m": "C12.witness"}]
    for f in obs.get("flows", []):
        if obs["version"] == "2.x":
            if "prog" in f:
                reqs.append({"m": "C12.closed", "prog": f["prog"], "lookups": [k for k, _ in f["labels"]]})
                if _wants_pathsafe(f):
                    reqs.append({"m": "C12.pathsafe", "prog": f["prog"]})
                if "stmts" in f:
                    reqs.append({"m": "C12.expand", "stmts": f["stmts"]})
                if "stmts2" in f:
                    reqs.append({"m": "C12.recompile", "stmts": f["stmts2"], "k": f["recompiled"], "slots": _n_exits(f["stmts2"])})
                if "user_labels" in f:
                    reqs.append({"m": "C12.names", "user": f["user_labels"]})
        else:
            if "elems" in f:
                reqs.append({"m": "C12.v1closed", "elems": f["elems"]})
            if "items" in f:
                reqs.append({"m": "C12.v1dynamic" if f.get("dyn") else "C12.v1compile", "items": f["items"]})
            if "from" in f:
                reqs.append({"m": "C12.v1load", "elems": f["from"]})
    return reqs


_UID = re.compile(r"^(.*?)(\d+)$")


def canon_labels(prog):
    """rename the uid part of every label / uid by first occurrence (prefix kept)"""
    ren = {}

    def r(s):
        if s is None:
            return None
        m = _UID.match(s)
        if not m:
            return s
        key = m.group(2)
        if key not in ren:
            ren[key] = len(ren)
        return f"{m.group(1)}#{ren[key]}"

    out = []
    for p in prog:
        t = p[0]
        if t in ("label", "goto", "jump", "merge", "begin", "end", "catch", "break", "continue"):
            out.append([t, r(p[1])])
        elif t == "fork":
            out.append([t, r(p[1]), [r(x) for x in p[2]]])
        else:
            out.append(list(p))
    return out


def canon_full(prog):
    """rename every label / uid completely by first occurrence (structure only)"""
    ren = {}

    def r(x):
        if x is None:
            return None
        return ren.setdefault(x, "L%d" % len(ren))

    out = []
    for p in prog:
        t = p[0]
        if t in ("label", "goto", "jump", "merge", "begin", "end", "catch", "break", "continue"):
            out.append([t, r(p[1])])
        elif t == "fork":
            out.append([t, r(p[1]), [r(x) for x in p[2]]])
        else:
            out.append(list(p))
    return out


def compare(case, obs, mouts):
    if obs.get("witness"):
        real = canon_full(obs["flows"][-1]["prog"][1:])  # [0] is the flow's implicit `match StartFlow(...)`
        wit = canon_full(mouts[0]["prog"])
        if real != wit:
            # after the repair (/repo 3c50707) the else path also merges the case heads and ends the scope: the as-is
            # witness is then exactly the real expansion minus that `merge; end` pair (canon_full renames labels by first
            # occurrence and the pair introduces no new label, so removing it must give the witness back)
            for i in range(len(real) - 1):
                if real[i][0] == "merge" and real[i + 1][0] == "end" and real[:i] + real[i + 2:] == wit:
                    return None
        return None if real == wit else f"the Lean witness program of finding 2.x:scope-reopened is no longer what expand_elements produces: {wit} vs {real}"
    it = iter(mouts)
    for f in obs.get("flows", []):
        if obs["version"] == "2.x":
            if "prog" not in f:
                continue
            m = next(it)
            ok_impl = not f["oracle"]
            if m["closed"] != ok_impl:
                return f"flow {f['id']}: Lean checker says closed={m['closed']} ({m['why']}), from-scratch scan says {f['oracle'][:1] or 'closed'}"
            if m["lookups"] != [v for _, v in f["labels"]]:
                return f"flow {f['id']}: model label table {m['lookups']} differs from FlowConfig.element_labels {f['labels']}"
            if _wants_pathsafe(f):
                mp = next(it)
                if mp["safe"] != (not f.get("oracle_paths")):
                    return f"flow {f['id']}: proved path checker says safe={mp['safe']} ({mp['states']} heads), path-level scan says {f.get('oracle_paths', [])[:1] or 'no scope re-opened'}"
            if "stmts" in f:
                m2 = next(it)
                if canon_labels(m2["prog"]) != canon_labels(f["prog"]):
                    a, b = canon_labels(m2["prog"]), canon_labels(f["prog"])
                    i = next((j for j in range(min(len(a), len(b))) if a[j] != b[j]), min(len(a), len(b)))
                    return f"flow {f['id']}: Expand model differs from expand_elements at element {i}: model {a[i:i+2]} vs real {b[i:i+2]} (lengths {len(a)}/{len(b)})"
            if "stmts2" in f:
                m3 = next(it)
                a, b = canon_labels(m3["prog"]), canon_labels(f["prog"])
                if a != b:
                    i = next((j for j in range(min(len(a), len(b))) if a[j] != b[j]), min(len(a), len(b)))
                    return f"flow {f['id']}: compilation no. {f['recompiled'] + 1} of the same parsed flow differs from the model of the (repaired) re-compilation at element {i}: model {a[i:i+2]} vs real {b[i:i+2]} (lengths {len(a)}/{len(b)})"
            if "user_labels" in f:
                m4 = next(it)
                user = set(f["user_labels"])
                for p in f["prog"]:
                    if p[0] == "label" and p[1] not in user and not any(p[1].startswith(st) for st in m4["stems"]):
                        return f"flow {f['id']}: the real compiler generated the label {p[1]!r} whose name begins with none of the reserved stems of the model ({m4['stems']}): expand_labels_stemmed no longer describes the code"
                bad = [u for u, ok in zip(f["user_labels"], m4["ok"]) if not ok]
                gen_names = [p[1] for p in f["prog"] if p[0] == "label" and p[1] not in user]
                for u in bad:  # outside the hypothesis of expand_labels_avoid_user: only an actual capture is reported
                    if u in gen_names:
                        return f"flow {f['id']}: user label {u!r} equals a generated label name"
        else:
            if "elems" in f:
                m = next(it)
                ok_impl = not [p for p in f["oracle"] if not p.startswith(("adapter:", "goto-misses-checkpoint"))]  # (the checker has no names after resolution)
                if m["ok"] != ok_impl:
                    return f"flow {f['id']}: Lean checker says in-bounds={m['ok']} (first bad {m['bad']}), from-scratch scan says {f['oracle'][:1] or 'ok'}"
            if "items" in f:
                m = next(it)
                if "reject" in f:
                    if "err" not in m:
                        return f"flow {f['id']}: parse_flow_elements raised ({f['reject']}) but the model compiled it"
                elif "err" in m:
                    return f"flow {f['id']}: model rejects ({m['err']}) but parse_flow_elements accepted"
                else:
                    a = [[e["k"], e["n"], e["e"], e["b"], e["c"], e["h"], e["a"]] for e in m["ok"]]
                    b = [[e["k"], e["n"], e["e"], e["b"], e["c"], e["h"], e["a"]] for e in f["elems"]]
                    if a != b:
                        i = next((j for j in range(min(len(a), len(b))) if a[j] != b[j]), min(len(a), len(b)))
                        return f"flow {f['id']}: V1Compile model{' (dynamicFlow = start_flow :: compileFull)' if f.get('dyn') else ''} differs from the real elements at element {i}: model {a[i:i+1]} vs real {b[i:i+1]} (lengths {len(a)}/{len(b)})"
            if "from" in f:
                m = next(it)
                a = [[e["k"], e["n"], e["e"], e["b"], e["c"], e["h"], e["a"]] for e in m["ok"]]
                b = [[e["k"], e["n"], e["e"], e["b"], e["c"], e["h"], e["a"]] for e in f["elems"]]
                if a != b:
                    i = next((j for j in range(min(len(a), len(b))) if a[j] != b[j]), min(len(a), len(b)))
                    return f"flow {f['id']}: the elements the runtime holds differ from the model `loadFlow` of `_load_flow_config` (leading meta element removed, everything else kept) at element {i}: model {a[i:i+1]} vs runtime {b[i:i+1]} (lengths {len(a)}/{len(b)})"
    return None


# ----------------------------------------------------------------------------- oracle / bookkeeping

def _where(case, obs, f):
    where = case.get("path") or case["kind"]
    hist = ""
    if f.get("loaded"):
        hist = " [the elements RuntimeV1_0 holds after _load_flow_config; history class @loaded]"
    if f.get("cls") == "@after-other-compilations":
        n = obs.get("hermetic")
        hist += (f" [last of {n} programs compiled one after the other in a fresh interpreter" if n else
                 " [clean in a fresh interpreter, fails after the programs this process compiled before (obs.history)") + "; history class @after-other-compilations]"
    if "snap" in f:
        hist = f" [after step {f['snap'][0]} of the history, instance/view {f['snap'][1]}{'/' + f['view'] if 'view' in f else ''}; history class {f.get('cls') or '@first-compilation'}]"
    return f"{where} flow `{f['id']}` (Colang {obs['version']}){hist}: "


def oracle(case, obs):
    flows = obs.get("flows", [])
    if obs.get("history"):
        _NEEDS[json.dumps(case, sort_keys=True, default=str)] = obs["history"]
    for f in flows:  # static closedness first, so that a recorded path-level finding never hides it
        if f.get("oracle"):
            return _where(case, obs, f) + "; ".join(f["oracle"][:3])
    for f in flows:
        if f.get("oracle_paths"):
            return _where(case, obs, f) + "; ".join(f["oracle_paths"][:2])
    return None


def signature(case, obs, msg):
    m = re.search(r"(scope-reopened|dangling-target|merge-without-fork|scope-never-closed|endscope-without-beginscope|composite-left|label-table|offset-out-of-bounds|unresolved|missing-offset|goto-misses-checkpoint|adapter)", msg or "")
    if not m:
        return None
    h = re.search(r"history class (@[a-z-]+)", msg or "")
    cls = h.group(1) if h and h.group(1) != "@first-compilation" else ""
    return obs.get("version", "?") + ":" + m.group(1) + cls


def _jumps(f):
    if "prog" in f:
        return sum(1 for p in f["prog"] if p[0] in ("goto", "jump", "fork", "catch", "break", "continue", "merge", "begin"))
    if "elems" in f:
        return sum(1 for e in f["elems"] if any(e[k] is not None for k in ("n", "e", "b", "c")) or e["h"])
    return 0


def nontrivial(case, obs):
    return any(_jumps(f) > 0 for f in obs.get("flows", []))


def tags(case, obs):
    t = ["kind:" + case["kind"], "version:" + obs.get("version", "?")]
    if "reject" in obs:
        t.append("rejected-input")
        if case["kind"] == "file":
            t.append("rejected-file:" + case["path"])
    flows = obs.get("flows", [])
    if obs.get("rt"):
        t.append("rt:api:" + case.get("api", "rails"))
        for d in obs.get("steps_done", []):
            t.append("rt:step:" + d)
        t.append("rt:steps=%d" % len(case["steps"]))
        for c in sorted({f.get("cls", "") for f in flows}):
            t.append("rt:flows-seen" + (c or "@first-compilation"))
        n_conv = sum(1 for x in case["steps"] if x[0] in ("conv", "reinit", "gen"))
        t.append("rt:fresh-conversations=%d" % min(n_conv, 4))
    if case.get("again"):
        t.append("v2ast:again:" + case["again"])
    for f in flows:
        if f.get("same"):
            t.append("v2ast:reinit-identical")
            continue
        if "reject" in f:
            t.append("rejected-flow")
            if case["kind"] == "file":
                t.append("rejected-file:" + case["path"])
            continue
        t.append("flows:" + obs["version"])
        if "prog" in f:
            names = [p[1] for p in f["prog"] if p[0] == "label"]
            if len(names) != len(set(names)):
                t.append("v2:duplicate-labels(benign)")
            kinds = {p[0] for p in f["prog"]}
            for k in ("fork", "begin", "catch", "break", "continue", "goto", "jump"):
                if k in kinds:
                    t.append("v2:has-" + k)
            if any(p[0] in ("break", "continue") and p[1] is None for p in f["prog"]):
                t.append("v2:break-outside-loop")
            if f.get("cls") and any(p[0] in ("break", "continue") and p[1] is not None for p in f["prog"]):
                t.append("rt:loop-exit-in-flow" + f["cls"])
            n = len(f["prog"])
            t.append("v2:len<10" if n < 10 else "v2:len<50" if n < 50 else "v2:len<200" if n < 200 else "v2:len>=200")
            if "stmts" in f:
                t.append("v2:expand-differential")
            if "stmts2" in f:
                t.append("v2:recompile-differential")
            if f.get("user_labels"):
                t.append("v2:user-labels")
            if f.get("oracle_paths"):
                t.append("v2:path-scope-problem")
        if "elems" in f:
            kinds = {e["k"] for e in f["elems"]}
            for k in ("if", "while", "branch", "any", "break", "continue"):
                if k in kinds:
                    t.append("v1:has-" + k)
            if any(e["a"] for e in f["elems"]):
                t.append("v1:has-return")
            n = len(f["elems"])
            t.append("v1:len<10" if n < 10 else "v1:len<50" if n < 50 else "v1:len>=50")
            if "items" in f:
                t.append("v1:dynamic-flow-differential" if f.get("dyn") else "v1:compile-differential")
            if any(e["k"] == "meta" for e in f["elems"][1:]):
                t.append("v1:nested-meta" + ("@held-by-runtime" if "from" in f else ""))
            if "from" in f:
                t.append("v1:load-differential")
                t.append("v1:leading-meta-sliced" if f["from"] and f["from"][0]["k"] == "meta" else "v1:loaded-unchanged")
                spans = 0  # offsets of the held flow that span a nested meta element (what a wrong removal would shift)
                for i, e in enumerate(f["elems"]):
                    for off in [e[k] for k in ("n", "e", "b", "c") if e[k] is not None and not e["a"]] + e["h"]:
                        lo, hi = sorted((i, i + off))
                        if any(x["k"] == "meta" for x in f["elems"][lo + 1:hi]):
                            spans += 1
                if spans:
                    t.append("v1:offset-spans-nested-meta@held-by-runtime")
                if any(i + e[k] == len(f["elems"]) for i, e in enumerate(f["elems"]) for k in ("n", "e", "b") if e[k] is not None and not e["a"]):
                    t.append("v1:offset-to-flow-end@held-by-runtime")
    return t


def _sub_tree(items):
    for i in range(len(items)):
        yield items[:i] + items[i + 1:]
    for i, it in enumerate(items):
        if it[0] in ("if", "while", "br"):
            bodies = it[1] if it[0] == "br" else it[1:]
            for b in bodies:
                if isinstance(b, list):
                    yield items[:i] + b + items[i + 1:]
            for j in range(1, len(it)):
                if it[0] == "br":
                    for bi, b in enumerate(it[1]):
                        for s in _sub_tree(b):
                            yield items[:i] + [["br", it[1][:bi] + [s] + it[1][bi + 1:]]] + items[i + 1:]
                    break
                for s in _sub_tree(it[j]):
                    yield items[:i] + [it[:j] + [s] + it[j + 1:]] + items[i + 1:]


def shrink(case):
    need = _NEEDS.get(json.dumps(case, sort_keys=True, default=str))
    if need is not None:  # a history-dependent failure: the self-contained input is the sequence
        yield {"kind": "v1seq" if case["kind"].startswith("v1") else "v2seq", "seq": need + [case]}
        return
    if case["kind"] in ("v1seq", "v2seq"):
        seq = case["seq"]
        for i in range(len(seq) - 1):
            yield dict(case, seq=seq[:i] + seq[i + 1:])
        return
    if case["kind"] == "v2ast":
        for s in _sub_tree(case["stmts"]):
            yield dict(case, stmts=s)
        if case.get("again") == "recompile2":
            yield dict(case, again="recompile")
    elif case["kind"] in ("v1items", "v1yaml"):
        for s in _sub_tree(case["items"]):
            yield dict(case, items=s)
        if case.get("text"):
            yield {k: v for k, v in case.items() if k != "text"}
    elif case["kind"] in ("v2rt", "v1rt"):
        steps = case["steps"]
        for i in range(1, len(steps)):
            yield dict(case, steps=steps[:i] + steps[i + 1:])
        if case.get("api") == "rails" and case["kind"] == "v2rt":
            yield dict(case, api="runtime")
        for si, st in enumerate(steps):  # the body of a flow added at run time (1.0 `dyn` / 2.x `add`), line by line
            if st[0] in ("dyn", "add") and isinstance(st[-1], str):
                bl = st[-1].split("\n")
                for i in range(1, len(bl)):
                    if bl[i].strip():
                        yield dict(case, steps=steps[:si] + [st[:-1] + ["\n".join(bl[:i] + bl[i + 1:])]] + steps[si + 1:])
        lines = case["src"].split("\n")
        gate = next((i for i, l in enumerate(lines) if "NeverSent" in l), None)
        if case["kind"] == "v2rt" and gate is None:
            return  # a program that is executed as it is (corpus): its source is not shrunk (a shrunk loop need not terminate)
        for i in range(len(lines)):
            if lines[i].strip() and not lines[i].startswith(("flow ", "define ")) and "NeverSent" not in lines[i] and lines[i].strip() != "$x = 0":
                yield dict(case, src="\n".join(lines[:i] + lines[i + 1:]))
    elif case["kind"] in ("v2src", "v1src"):
        lines = case["src"].split("\n")
        for i in range(len(lines)):
            if lines[i].strip() and not lines[i].startswith(("flow ", "define ")):
                yield dict(case, src="\n".join(lines[:i] + lines[i + 1:]))
