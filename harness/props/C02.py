"""C02 — output rails gate every LLM-generated bot message, in every turn.

Shares the `Pipeline` model, translator and real-pipeline adapter with C01 (see props/C01.py).  The
generator concentrates on conversations in which an earlier turn was blocked / rewritten / faulted by
an output rail and every later turn carries a fresh LLM text that the output rails must see.
Oracle: literal transcription of the property text on the recorded observations.
"""
import itertools

from ..impl import pipeline_cases as G
from ..translate import c01 as tr

PROPERTY = "C02"
CASE_TIMEOUT = 300  # s of wall clock per case in pool workers (runner watchdog): a case that spins forever is a verdict, not exit 2
THEOREM_MODULE = "NemoVerif.Theorems.C02"
METHOD = "C02.conv"
RULE = ("case as in C01; 2-5 turns; emphasis on output-rail verdicts (reject / rewrite / raise) in any turn, every later turn is checked again; "
        "calls that end by a PROPAGATED failure (LLMCallException out of a rail's / the generation LLM call, task cancellation at a chosen step) followed by a retry / another message from the last state the caller was given (state JSON, own State object, messages+cache) on the same LLMRails instance. "
        "non-trivial = at least one output rail configured AND (an invoked rail answered something other than accept OR >= 2 turns); distinct = distinct case JSON.")
TRUSTED_BASE = [
    "translator harness/translate/c01.py, adapter harness/impl/pipeline.py, Lean driver Drive/C01.lean (shared with C01)",
    "prompt rendering, LangChain, the Colang parsers and both interpreters are executed, not modelled; the bridge interpreter-refines-Pipeline is validated by execution, not proved",
]
ASSUMPTIONS = [
    "an 'LLM-generated bot message' is the text the fake LLM returns for general / generate_bot_message (1.0) and generate_value / generate_flow_continuation (2.x)",
    "rewriting a bot message is a Colang 1.0 notion: guardrails.co utters the `$text` parameter of `_bot_say`, a 2.x rail cannot change it",
    "Colang 1.0 configurations stay below the 100-events-per-turn cap",
]
EXHAUSTIVE = {"quick": False, "thorough": True}

worker_init = G.worker_init
run_impl = G.run_impl
compare = G.compare
tags = G.tags
shrink = G.shrink


def translate():
    return tr.run()


def static_tie():
    return tr.static_tie()


def model_requests(case, obs):
    return G.model_requests(case, obs, METHOD)


def nontrivial(case, obs):
    return bool(G.eff_out(case)) and G.nontrivial(case, obs)


OUT_SHAPES = [([0], [0]), ([0], [0, 1]), ([], [1, 0]), ([0, 1], [0, 1]), ([0], [0, 1, 2]), ([], [2, 0, 1]), ([0], [0, 0])]


def gen_cases(rng, tier):
    cases = []
    w_in = (0.88, 0.05, 0.05, 0.02)
    w_out = (0.5, 0.2, 0.2, 0.1)
    for _ in range(110 if tier == "quick" else 2500):
        cfg = G.gen_cfg(rng)
        if not cfg["out"] and rng.random() < 0.85:
            cfg["out"] = [0, 1] if G.fits(cfg["ver"], cfg["dialog"], len(cfg["in"]), 2) else [0]
            if not G.fits(cfg["ver"], cfg["dialog"], len(cfg["in"]), len(cfg["out"])):
                cfg["in"] = cfg["in"][:1]
        cfg["turns"] = [G.gen_turn(rng, cfg, k + 1, w_in, w_out, p_retr=0.04) for k in range(rng.choice([2, 3, 3, 4, 5]))]
        if rng.random() < 0.2 and G.fits(cfg["ver"], cfg["dialog"], len(cfg["in"]), len(cfg["out"]), sc=True):
            G.add_selfcheck(rng, cfg)
        elif cfg["ver"] == "1.0" and rng.random() < 0.25:
            G.purify(rng, cfg, "out")  # the last output rail becomes a pure-Colang rail (reads the flows' view of $bot_message)
        if rng.random() < 0.4:
            G.collapse_texts(rng, cfg)  # LLM texts / rewrites that repeat earlier ones
        if rng.random() < 0.2:
            G.random_opts(rng, cfg)  # 1.0: random per-call generation options
        if rng.random() < 0.2:
            G.inject_propagating(rng, cfg)  # one turn ends by a propagated failure (LLMCallException / cancellation), the conversation goes on
        cases.append(cfg)
    # texts that REPEAT around a turn hidden by a fault after `$bot_message` was set (action rails and pure-Colang rails,
    # history carried by messages+cache and by state), see pipeline_cases.REPEAT_PATTERNS
    cases.extend(G.repeat_cases(rng, tier, "out"))
    # ... and the bot message that repeats is the predefined refusal of an input rail (no LLM text in that turn at all)
    cases.extend(G.repeat_cases(rng, tier, "in", patterns=G.REFUSAL_REPEAT[:2] if tier == "quick" else G.REFUSAL_REPEAT))
    # a call that ends by an exception which PROPAGATES out of `generate` in the middle of the turn (the LLM call inside an output /
    # input rail or the generation call fails -> LLMCallException, the request's task is cancelled), at every kind of await point, in
    # both Colang versions; the caller then retries / continues from the last state it was given (state JSON, a State object it
    # decoded, its message list + cache) on the same LLMRails instance with a message answered by another flow: every later LLM
    # text passes all output rails again
    cases.extend(G.propagating_cases(rng, tier, "out"))
    # Colang 1.0 generation options per CALL (state API and messages): calls that switch the output rails off mixed with calls
    # that pass no options - the bot message of every call whose options enable the output rails passes all of them
    cases.extend(G.options_cases(rng, tier, "out"))
    # every turn position blocked / rewritten / faulted once, all later turns clean
    shapes = OUT_SHAPES if tier == "thorough" else OUT_SHAPES[:3]
    for cfg in G.all_cfgs(shapes, carries=("messages", "state") if tier == "thorough" else ("messages",)):
        if not G.fits(cfg["ver"], cfg["dialog"], len(cfg["in"]), len(cfg["out"])):
            continue
        for pos in range(3):
            for what in (("r", "w", "f") if cfg["ver"] == "1.0" else ("r", "f")):
                c = dict(cfg)
                c["turns"] = [G.clean_turn(rng, cfg, k + 1) for k in range(pos + 2)]
                rid = rng.choice(cfg["out"])
                v = ["w", G.rewrite_text(rng, "out", pos + 1)] if what == "w" else what
                c["turns"][pos]["vout"] = [[i, (v if i == rid else vv)] for i, vv in c["turns"][pos]["vout"]]
                cases.append(c)
    if tier == "thorough":
        # all block / rewrite / accept sequences over <= 3 turns x <= 2 output rails
        for cfg in G.all_cfgs([([0], [0]), ([0], [0, 1])]):
            opts = ["a", "r", "w"] if cfg["ver"] == "1.0" else ["a", "r"]
            per_turn = list(itertools.product(opts, repeat=len(cfg["out"])))
            for seq in itertools.product(per_turn, repeat=3):
                c = dict(cfg)
                c["turns"] = [G.clean_turn(rng, cfg, k + 1) for k in range(3)]
                for k, table in enumerate(seq):
                    c["turns"][k]["vout"] = [[i, (["w", G.rewrite_text(rng, "out", k + 1)] if v == "w" else v)] for i, v in zip(cfg["out"], table)]
                cases.append(c)
    return G.sort_cases(cases)


# ----------------------------------------------------------------------------- oracle (property text, on observations)

def turn_oracle(case, tc, to):
    steps = to["steps"]
    cfg_out = G.eff_out(case, tc)  # the output rails enabled for THIS call (explicit options of the call, or the defaults)
    rep = to["reply"]
    text = G.reply_text(rep)
    # did the LLM produce a bot message in this turn?
    produced = any(s[0] == "llm" and s[1] in G.GEN_TASKS for s in steps)
    bot = G.sentinel(tc["bot"])
    rewrites = [v[1] for _, v in (tc.get("vout") or []) if G.is_rewrite(v)]
    if not produced:
        if bot in text:
            return f"[unproduced-text] the reply contains the LLM text ({bot}) although no generation call was recorded"
        # no LLM text was produced in this turn: whatever is returned is a predefined message (the refusal, the internal-error
        # text) - in particular not the LLM text of an EARLIER turn (blocked, hidden or already answered there)
        if rep["role"] == "assistant" and not rep["exc"] and text not in (G.REFUSAL, G.INTERNAL_ERROR, ""):
            return f"[foreign-reply] no bot message was generated in this turn, yet the reply is {text[:80]!r} (neither the refusal nor the internal-error text)"
        return None
    last_gen = max(idx for idx, s in enumerate(steps) if s[0] == "llm" and s[1] in G.GEN_TASKS)
    calls = [s for idx, s in enumerate(steps) if s[0] == "rail" and s[1] == "out" and idx > last_gen]
    ids = [s[2] for s in calls]
    # the verdicts along the configured order: the text each rail must be shown, and where the message is blocked
    cur = tc["bot"]
    chain = []
    blocked = None
    for rid in cfg_out:
        chain.append((rid, cur))
        v = G.verdict_of(tc, "out", rid)
        if v in ("r", "f", "x"):  # "x": the rail's own LLM call failed - the rail has not approved the message
            blocked = rid
            break
        if case["ver"] == "1.0" and G.is_rewrite(v):
            cur = v[1]
    # "processed by all configured output rails": the message every output rail is processing in this turn is the LLM text of
    # THIS turn (or what the previous rail of this turn rewrote it to) - evaluated on what each rail actually received
    # (action rails: the context / parameters of their action; pure-Colang rails: the flow's own view)
    for (rid, want), s in zip(chain, calls):
        if s[2] == rid and s[3] != want:
            return f"[out-text] output rail {rid} was shown {s[3]!r} instead of the text of this turn {want!r}"
    returned_llm_text = bot in text or any(G.sentinel(r) in text for r in rewrites)
    if returned_llm_text:
        # "processed by all configured output rails, in order, before it is returned"
        if ids != cfg_out:
            return f"[out-skipped] the reply carries the LLM text but the output rails that ran on it are {ids}, configured {cfg_out}"
        # "a rejected message never appears in the response"
        if blocked is not None:
            return f"[blocked-returned] output rail {blocked} blocked the message but the reply still carries it: {text[:80]!r}"
        # "a rewritten message is returned in its rewritten form"
        if text != cur:
            return f"[not-final-form] the reply is {text[:80]!r}, the output rails left {cur[:80]!r}"
    else:
        if blocked is None and rep["role"] == "assistant" and not rep["exc"] and ids == cfg_out and text not in (G.REFUSAL, G.INTERNAL_ERROR):
            return f"[lost-text] all output rails accepted but the reply is {text[:80]!r}"
    # the reply of turn k is the text that passed the rails in turn k, the refusal, the internal-error text (or a rail exception):
    # in particular never a text of ANOTHER turn (an earlier LLM text / rewrite that was hidden, rejected or already answered)
    if rep["role"] == "assistant" and not rep["exc"] and text not in (G.REFUSAL, G.INTERNAL_ERROR, ""):
        if blocked is not None or text != cur:
            return f"[foreign-reply] the reply {text[:80]!r} is neither the text that passed the output rails in this turn ({(cur if blocked is None else None)!r}) nor the refusal / internal-error text"
    if ids != cfg_out[:len(ids)]:
        return f"[out-order] output rails ran in the order {ids}, configured order is {cfg_out}"
    if blocked is not None and len(ids) >= 1 and ids == cfg_out[:len(ids)]:
        n_expected = cfg_out.index(blocked) + 1 if cfg_out.count(blocked) == 1 else None
        if n_expected is not None and len(ids) > n_expected:
            return f"[out-after-block] output rails {ids[n_expected:]} ran after rail {blocked} had blocked the message"
    return None


def oracle(case, obs):
    for k, (tc, to) in enumerate(zip(case["turns"], obs["turns"])):
        if to["raised"]:
            if G.P.propagating(tc):
                # "a ... failure in one turn never weakens the checking of later turns of the same conversation": the call ended by a
                # failure that leaves `generate` by design (the LLM call of a rail / of the generation failed, the request was cancelled);
                # nothing was returned for it, the caller goes on from the last state it was given - and every later LLM text must
                # again pass all output rails before it is returned
                continue
            return None
        msg = turn_oracle(case, tc, to)
        if msg:
            return f"turn {k + 1}: {msg}"
    return None


def signature(case, obs, msg):
    return G.region_signature(case, obs, msg, oracle_codes_stale=("blocked-returned", "out-after-block", "lost-text", "out-skipped"), oracle_codes_flag=("out-skipped",), oracle_codes_sc=("blocked-returned",))
