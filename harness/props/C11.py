"""C11 — a saved or aged Colang 2 conversation state continues exactly like the live one.

Four case kinds ("rails" = the real API: LLMRails.generate_async with the state travelling as JSON vs the live State object):
  * "ser"      function-level differential: `decode_from_dict(json(encode_to_dict(obj)))` on generated object graphs
               built from the repo's own dataclasses (with sharing) vs the Lean model `Serialize.encode/decode`;
  * "cleanup"  function-level differential: the real `_clean_up_state` under a fake clock on generated `State`s
               (boundary ages, activated/done combinations, parent/child links) vs `CleanUp.cleanUp`;
  * "e2e"      the heart of the property, oracle level: generated Colang 2.x programs and event histories are run on
               the real interpreter; at EVERY cut point the state is saved+restored (and, separately, the clock is
               pushed past the clean-up age) and the same continuation is fed to the live state and to the copy;
               outgoing events are compared up to fresh uids.
Oracle (from the property statement, independent of the Lean model): `state_to_json` never raises on a reached
state; restored / aged continuations produce the live outputs; every head of a restored state has both callbacks
re-installed; the restored object graph is isomorphic to the live one (same unfolding, same sharing).
"""
import contextlib
import io
import json
import re
import uuid as uuidlib
from datetime import datetime, timedelta

from ..impl import c11api as api
from ..impl import c11pv as pv
from ..translate import c11 as tr

PROPERTY = "C11"
THEOREM_MODULE = "NemoVerif.Theorems.C11"
RULE = ("ser: random object graph over scalars/list/tuple/set/deque/dict/enum/datetime/Event/InternalEvent/ActionEvent/"
        "FlowHead/FlowState/Action/re.Pattern and dicts with None/bool/int/tuple keys, with a pool of shared sub-objects, 12% carrying one "
        "special leaf (regex, non-string or tuple key — supported since d13eeb5 —, comparison, unknown class, non-JSON action payload); cleanup: 1-7 flow records, ages at the boundary "
        "(age-1us, age, age+1us), every status, activated 0/1/2, parent/child links, action references; e2e: program built "
        "from flow templates (start/await/activate/when/match groups, event/flow/action references, variables holding sets "
        "and nested containers) + random history; every cut point is enumerated for restore and for ageing. "
        "value domain (all kinds): 18% of the scalars are drawn from non-finite/extreme floats, -0.0, ints beyond 2^53/2^64/the double range/2048 bits/4300 digits, "
        "text-layer strings (NaN/Infinity/null as strings, U+2028, NUL, non-BMP, lone surrogates, 3000+ chars), float dict keys, empty containers, chains 20-100 deep (ser) "
        "and while-loop nesting 30-200 deep (e2e); they enter through literals, arithmetic, incoming event payloads, action results, flow parameters and the API; "
        "every ser value goes through the repo's state_to_json/json_to_state inside a real State. "
        "non-trivial = ser: graph has a container of depth>=2 or a shared object; cleanup: at least one record removed and one "
        "kept; e2e: history produced at least two non-empty outputs and the state at some cut held >= 3 flow instances.")
TRUSTED_BASE = [
    "translator harness/translate/c11.py (class/field/enum tables by introspection of the tree under test, clean-up age by AST path)",
    "correspondence harness harness/props/C11.py + harness/impl/c11pv.py + Lean driver Drive/C11.lean (codecs on both sides)",
    "CPython json module (modelled as identity on JSON values + key stringification; allow_nan and the three non-standard float tokens are modelled and tied by the tokens case), dataclass constructors, pydantic (RailsConfig.model_validate not exercised)",
    "the behavioural continuation claim (T3) is NOT carried by a theorem: it is tested on the real interpreter at every cut point of the generated histories",
]
ASSUMPTIONS = [
    "Lean model: dict keys are None/bool/int/str or flat tuples of them (float keys are generated and decided by the oracle only; no nested tuple keys; equal keys such as 1/True/1.0 are not generated together); "
    "floats = finite doubles (exact dyadics), -0.0, nan, inf, -inf; strings with lone surrogates and ints beyond 4300 digits are oracle-only (not UTF-8 / decimal transportable to the driver)",
    "container nesting depth <= 100 (generated) — CPython's recursion limit bounds encode_to_dict/json at depth ~1000: a resource bound like memory, not part of the statement",
    "function-level models: Serialize.encode/decode (sharing-free reading), CleanUp.cleanUp (well-formed flow_id_states index)",
    "fake clock replaces statemachine.datetime / flows.datetime; uuids come from a counter; random.choice picks the first candidate",
]
EXHAUSTIVE = {"quick": False, "thorough": False}

AGE_US = 5_000_000
VOLATILE = ("uid", "event_created_at", "source_uid")


def translate():
    return tr.run()


def static_tie():
    """llmrails.generate_async must (still) restore a 2.x state with json_to_state and serialise the output
    state with state_to_json on every call — that is what makes an unserialisable state a failing call."""
    import ast

    from ..translate.util import find_def, parse

    tree = parse("nemoguardrails/rails/llm/llmrails.py")
    fn = find_def(tree, "generate_async", cls="LLMRails")
    calls = {n.func.id for n in ast.walk(fn) if isinstance(n, ast.Call) and isinstance(n.func, ast.Name)}
    out = []
    if "state_to_json" not in calls:
        out.append("LLMRails.generate_async no longer calls state_to_json")
    if "json_to_state" not in calls:
        out.append("LLMRails.generate_async no longer calls json_to_state")
    return out


# ============================================================================= generators: ser

SCALARS = [None, True, False, 0, 1, -3, 7, 0.5, 2.25, "a", "b", "", "xy", "__type", "value", "ref"]
KEYS = ["x", "y", "z", "k1", "k2", "name", "__type", "value", "_p"]
ENUMS = [("FlowStatus", "FINISHED"), ("FlowStatus", "WAITING"), ("FlowHeadStatus", "ACTIVE"), ("ActionStatus", "STARTED"), ("InteractionLoopType", "NEW"), ("SpecOpType", "MATCH")]


# the rest of the value domain of a flow variable / event argument / action result (everything a Colang expression, an incoming
# event or an action can put into the state): non-finite and extreme floats, -0.0, ints beyond 64 bits and beyond the range of a
# double, strings that stress the JSON text layer (the tokens json.dumps writes for nan/inf, line separators, NUL, non-BMP, lone
# surrogates, long), markers of the serializer's own format
import math as _math

SPECIAL_SCALARS = [
    _math.inf, -_math.inf, _math.nan, -0.0, 0.0, 1.7976931348623157e308, -1.7976931348623157e308, 5e-324, 1e-320, 2.2250738585072014e-308, 0.1, 1e16, 1 / 3,
    2 ** 53 + 1, 2 ** 63, -(2 ** 63) - 1, 2 ** 64, 10 ** 30, -(10 ** 400), 2 ** 1024, 2 ** 3000, -(2 ** 14000), 10 ** 5000,
    "NaN", "Infinity", "-Infinity", "null", "-0.0", "\u2028x\u2029", "\x00", "\x7f\x85", "é😀", "\ud800", "a\udfffb", "\\\"/\n\t", "__id", "__ref_count", "items",
    "L" * 3000,
]


def enc_scalar(x):
    if x is None or isinstance(x, bool):
        return x
    if isinstance(x, int):
        return pv.icode(x)
    if isinstance(x, float):
        return {"f": pv.fcode(x)}
    return pv.scode(x)


def pick_scalar(rng):
    if rng.random() < 0.18:
        return rng.choice(SPECIAL_SCALARS)
    return rng.choice(SCALARS)


def g_hashable(rng, depth=1):
    r = rng.random()
    if r < 0.7 or depth <= 0:
        return enc_scalar(pick_scalar(rng))
    if r < 0.85:
        return {"t": [g_hashable(rng, depth - 1) for _ in range(rng.randrange(3))]}
    return {"e": list(rng.choice(ENUMS))}


def g_raw(rng, depth):
    """JSON-native payload for Action.context / start_event_arguments"""
    r = rng.random()
    if depth <= 0 or r < 0.5:
        return enc_scalar(pick_scalar(rng))
    if r < 0.75:
        return {"l": [g_raw(rng, depth - 1) for _ in range(rng.randrange(3))]}
    return {"d": [[{"s": k}, g_raw(rng, depth - 1)] for k in rng.sample(["x", "y", "z", "q"], rng.randrange(3))]}


def g_value(rng, depth, npool, bad=None):
    """random PV; `bad` = kind of unsupported leaf to plant once (or None)."""
    r = rng.random()
    if npool and r < 0.12:
        return {"share": rng.randrange(npool)}
    if depth <= 0 or r < 0.3:
        return enc_scalar(pick_scalar(rng))
    sub = lambda: g_value(rng, depth - 1, npool)  # noqa: E731
    n = rng.choice([0, 1, 1, 2, 2, 3])
    if r < 0.42:
        return {"l": [sub() for _ in range(n)]}
    if r < 0.48:
        return {"t": [sub() for _ in range(n)]}
    if r < 0.54:
        return {"S": dedupe_hashable([g_hashable(rng) for _ in range(n)])}
    if r < 0.58:
        return {"q": [sub() for _ in range(n)]}
    if r < 0.74:
        if rng.random() < 0.2:  # non-string keys: written as an item list since d13eeb5
            pool = [None, True, {"i": 0}, {"i": 5}, {"i": -2}, {"s": "k"}, {"s": "__type"}, {"T": []}, {"T": [{"i": 1}, {"s": "b"}]}, {"T": [None, False]},
                    {"i": 2 ** 64}, {"s": ""}, {"s": "é😀"}]
            if rng.random() < 0.25:  # float keys: every hashable scalar kind (decided by the oracle; the Lean key universe has no floats)
                pool += [{"F": [3, 1]}, {"F": "nan"}, {"F": "inf"}, {"F": "-inf"}, {"F": [1, 1074]}]
            ks = rng.sample(pool, min(n, 3))
            if True in ks and {"i": 1} in ks:
                ks.remove(True)
            return {"d": [[k, sub()] for k in ks]}
        return {"d": [[{"s": k}, sub()] for k in rng.sample(KEYS, n)]}
    if r < 0.78:
        return {"e": list(rng.choice(ENUMS))}
    if r < 0.81:
        return {"dt": rng.choice(["2024-01-02T03:04:05.000006", "2023-12-31T23:59:59", "2024-02-29T12:00:00.500000"])}
    if r < 0.83:
        return {"st": rng.choice(["event", "action", "flow", "reference"])}
    if r < 0.84:
        return {"r": rng.choice(pv.REGEXES)}
    if r < 0.89:
        return {"D": ["Event", [[{"s": "name"}, {"s": rng.choice(["Ev", "X"])}], [{"s": "arguments"}, {"d": [[{"s": k}, sub()] for k in rng.sample(KEYS, min(n, 2))]}],
                               [{"s": "matching_scores"}, {"l": [enc_scalar(rng.choice([1.0, 0.5, 0.25]))] * rng.randrange(2)}]]]}
    if r < 0.92:
        return {"D": ["InternalEvent", [[{"s": "name"}, {"s": "FlowStarted"}], [{"s": "arguments"}, {"d": [[{"s": "flow_id"}, {"s": "f"}]]}], [{"s": "flow"}, sub() if rng.random() < 0.5 else None]]]}
    if r < 0.94:
        return {"D": ["ActionEvent", [[{"s": "name"}, {"s": "UtteranceBotActionFinished"}], [{"s": "arguments"}, {"d": []}], [{"s": "action_uid"}, {"s": "a1"}], [{"s": "action"}, g_action(rng)]]]}
    if r < 0.96:
        return {"D": ["FlowHead", [[{"s": "uid"}, {"s": "h1"}], [{"s": "flow_state_uid"}, {"s": "u1"}], [{"s": "matching_scores"}, {"l": []}],
                                  [{"s": "position_changed_callback"}, rng.choice([None, {"p": 1}])], [{"s": "_position"}, {"i": rng.randrange(5)}],
                                  [{"s": "_status"}, {"e": ["FlowHeadStatus", rng.choice(["ACTIVE", "INACTIVE", "MERGING"])]}]]]}
    if r < 0.98:
        return {"D": ["FlowState", [[{"s": "uid"}, {"s": "u1"}], [{"s": "flow_id"}, {"s": "f"}], [{"s": "loop_id"}, None], [{"s": "hierarchy_position"}, {"s": "0.1"}],
                                   [{"s": "context"}, {"d": [[{"s": k}, sub()] for k in rng.sample(KEYS, min(n, 2))]}], [{"s": "priority"}, {"f": [1, 0]}],
                                   [{"s": "_status"}, {"e": ["FlowStatus", rng.choice(["WAITING", "STARTED", "FINISHED"])]}], [{"s": "status_updated"}, {"dt": "2024-01-02T03:04:05.000006"}]]]}
    return g_action(rng)


def dedupe_hashable(items):
    """Python set semantics: 1 == True == 1.0 collapse; keep the first of each equality class."""
    out, seen = [], []
    for h in items:
        try:
            val = pv.build(h)
        except Exception:  # noqa
            continue
        if any(val == s for s in seen):
            continue
        seen.append(val)
        out.append(h)
    return out


def g_action(rng, bad=False):
    args = g_raw(rng, 2)
    if not (isinstance(args, dict) and "d" in args):
        args = {"d": [[{"s": "script"}, args]]}
    ctx = g_raw(rng, 2)
    if not (isinstance(ctx, dict) and "d" in ctx):
        ctx = {"d": []}
    return {"a": ["a" + str(rng.randrange(3)), rng.choice(["UtteranceBotAction", "TestAction"]), rng.choice([None, "(main)1"]),
                  rng.choice(["INITIALIZED", "STARTING", "STARTED", "STOPPING", "FINISHED"]), ctx, args, rng.randrange(3)]}


BAD_KINDS = ["regex", "cmp", "other", "bytes", "view", "method", "intkey", "nonekey", "boolkey", "tuplekey", "action_set", "action_tuple", "action_typekey", "partial"]


def plant(rng, v, kind):
    """put one unsupported leaf somewhere in v (returns a new value)"""
    leaf = {"regex": {"r": rng.choice(pv.REGEXES)}, "cmp": {"c": [rng.choice(["less_than", "equal_greater_than", "not_equal_to"]), rng.choice([{"i": 3}, {"f": [5, 1]}, True])]}, "other": {"o": "Unknown"}, "partial": {"p": 1},
            "bytes": {"o": "bytes"}, "view": {"o": rng.choice(["dict_keys", "dict_values", "dict_items"])}, "method": {"o": "builtin_function_or_method"},
            "intkey": {"d": [[{"i": rng.choice([1, 0, -2])}, {"s": "a"}], [{"s": "k"}, {"i": 1}]]},
            "nonekey": {"d": [[None, {"i": 3}], [{"s": "s"}, {"r": ["a+", 32]}]]}, "boolkey": {"d": [[True, {"i": 4}]]},
            "tuplekey": {"d": [[{"T": rng.choice([[], [{"i": 1}, {"s": "b"}], [None, True]])}, {"i": 5}], [{"i": 7}, {"l": [{"s": "x"}]}]]},
            "action_set": {"a": ["a9", "TestAction", None, "STARTED", {"d": []}, {"d": [[{"s": "x"}, {"S": [{"i": 1}]}]]}, 1]},
            "action_tuple": {"a": ["a9", "TestAction", None, "STARTED", {"d": [[{"s": "r"}, {"t": [{"i": 1}, {"s": "b"}]}]]}, {"d": []}, 1]},
            "action_typekey": {"a": ["a9", "TestAction", None, "STARTED", {"d": [[{"s": "__type"}, {"s": "set"}], [{"s": "value"}, {"l": [{"i": 1}]}]]}, {"d": []}, 1]},
            }[kind]
    if isinstance(v, dict):
        for t in ("l", "t", "q"):
            if t in v and v[t] and rng.random() < 0.8:
                i = rng.randrange(len(v[t]))
                items = list(v[t])
                items[i] = plant(rng, items[i], kind)
                return {t: items}
        if "d" in v and v["d"] and rng.random() < 0.8:
            i = rng.randrange(len(v["d"]))
            items = [list(e) for e in v["d"]]
            items[i][1] = plant(rng, items[i][1], kind)
            return {"d": items}
    if rng.random() < 0.5:
        return {"l": [v, leaf]}
    return {"d": [[{"s": "w"}, leaf], [{"s": "v"}, v]]}


def g_ser_case(rng, depth):
    npool = rng.choice([0, 0, 1, 2, 3])
    pool = []
    for i in range(npool):
        # pool objects may refer to earlier pool objects (DAG); mostly registrable kinds, sometimes a list
        r = rng.random()
        if r < 0.15:
            pool.append({"l": [g_value(rng, 1, i) for _ in range(rng.randrange(1, 3))]})
        else:
            v = g_value(rng, max(1, depth - 1), i)
            if v is None or isinstance(v, bool) or any(t in v for t in ("i", "f", "s", "share")):
                v = {"d": [[{"s": "x"}, v]]}
            pool.append(v)
    v = g_value(rng, depth, npool)
    if rng.random() < 0.05:
        # deep nesting: a chain of 20..100 containers around the value — of one kind (a depth limit per container kind) or mixed
        chain = rng.choice(["mixed", "mixed", "l", "l", "d", "t", "q", "di"])
        for _ in range(rng.randrange(20, 101)):
            w = rng.random() if chain == "mixed" else {"l": 0.0, "d": 0.5, "t": 0.8, "q": 0.9, "di": 0.99}[chain]
            v = {"l": [v]} if w < 0.4 else {"d": [[{"s": "n"}, v]]} if w < 0.7 else {"t": [v]} if w < 0.85 else {"q": [v]} if w < 0.95 else {"d": [[{"i": 1}, v]]}
    if npool and rng.random() < 0.8:
        v = {"l": [v] + [{"share": rng.randrange(npool)} for _ in range(rng.randrange(1, 4))]}
    bad = None
    if rng.random() < 0.12:
        bad = rng.choice(BAD_KINDS)
        v = plant(rng, v, bad)
    if rng.random() < 0.25:
        # a whole `State` as the root: goes through state_to_json / json_to_state (callbacks re-created)
        fss = []
        for i in range(rng.randrange(1, 4)):
            uid = f"(f)u{i}"
            head = {"D": ["FlowHead", [[{"s": "uid"}, {"s": f"h{i}"}], [{"s": "flow_state_uid"}, {"s": uid}], [{"s": "matching_scores"}, {"l": []}], [{"s": "_position"}, {"i": rng.randrange(4)}]]]}
            fss.append([{"s": uid}, {"D": ["FlowState", [[{"s": "uid"}, {"s": uid}], [{"s": "flow_id"}, {"s": "f"}], [{"s": "loop_id"}, None], [{"s": "hierarchy_position"}, {"s": "0"}],
                                                     [{"s": "heads"}, {"d": [[{"s": f"h{i}"}, head]]}], [{"s": "context"}, {"d": [[{"s": "v"}, v if i == 0 else g_value(rng, 2, npool)]]}],
                                                     [{"s": "_status"}, {"e": ["FlowStatus", rng.choice(["WAITING", "STARTED", "FINISHED"])]}], [{"s": "status_updated"}, {"dt": "2024-01-02T03:04:05.000006"}]]]}])
        v = {"D": ["State", [[{"s": "flow_states"}, {"d": fss}], [{"s": "flow_configs"}, {"d": []}], [{"s": "context"}, {"d": [[{"s": "g"}, g_value(rng, 2, npool)]]}]]]}
    return {"kind": "ser", "v": v, "pool": pool, "bad": bad}


# ============================================================================= generators: cleanup

STATUSES = ["WAITING", "STARTING", "STARTED", "STOPPING", "STOPPED", "FINISHED"]


def g_cleanup_case(rng):
    n = rng.randrange(1, 8)
    flow_ids = ["f", "g", "h"]
    flows = []
    for i in range(n):
        uid = f"u{i}"
        parent = rng.choice([None] + [f"u{j}" for j in range(i)] + (["gone"] if rng.random() < 0.1 else []))
        age = rng.choice([0, 1, AGE_US - 1, AGE_US, AGE_US + 1, AGE_US + 1, 2 * AGE_US, 10 * AGE_US])
        flows.append({
            "uid": uid, "flow_id": rng.choice(flow_ids), "parent": parent, "children": [],
            "status": rng.choice(STATUSES + ["FINISHED", "STOPPED", "FINISHED"]), "updated": -age,
            "activated": rng.choice([0, 0, 0, 1, 2]),
            "action_uids": rng.sample(["a0", "a1", "a2", "a3"], rng.randrange(3)),
            "heads": [{"uid": f"h{i}_{k}", "pos": rng.randrange(4), "scores": [1] * rng.randrange(3)} for k in range(rng.randrange(3))],
        })
    for f in flows:
        if f["parent"] and f["parent"] != "gone" and rng.random() < 0.9:
            # a flow activated n times is listed n times by its parent
            for _ in range(max(1, f["activated"]) if rng.random() < 0.5 else 1):
                flows[int(f["parent"][1:])]["children"].append(f["uid"])
    for f in flows:
        # open scopes list flows started in them (children, mostly)
        popl = f["children"] + [g["uid"] for g in flows]
        f["scope_flows"] = [rng.sample(popl, min(len(popl), rng.randrange(0, 3))) for _ in range(rng.randrange(0, 3))]
    if rng.random() < 0.1 and flows:
        rng.choice(flows)["children"].append("stale")
    idx = {}
    for f in flows:
        idx.setdefault(f["flow_id"], []).append(f["uid"])
    acts = ["a0", "a1", "a2", "a3", "a4"]
    if rng.random() < 0.08:
        acts.remove(rng.choice(acts[:4]))
    rng.shuffle(acts)
    return {"kind": "cleanup", "now": 0, "flows": flows, "idx": [[k, v] for k, v in idx.items()], "actions": acts}


# ============================================================================= generators: e2e programs

# values only an expression can make (`float` is one of the functions of the expression language), beyond the plain literals
SPECIAL_LITERALS = [
    'float("inf")', 'float("-inf")', 'float("nan")', "1e308 * 10", "-1e308 * 10", 'float("inf") - float("inf")', "-0.0", "0.0 * -1", "5e-324", "1.7976931348623157e308", "0.1 + 0.2",
    '[float("nan"), {"lim": float("inf")}]', '{float("inf"), 1.5}', '{"lo": float("-inf"), "hi": float("inf"), "z": -0.0}', '{1.5: "x", float("inf"): "top"}', 'greater_than(float("-inf"))',
    "2 ** 80", "10 ** 400", "0 - 2 ** 63 - 1", '"\\ud800"', '"\\u2028\\u2029"', '"NaN"', '"é😀"', '"a" * 4000', "[[[[[[[[[[[[[[[[[[[[1.5]]]]]]]]]]]]]]]]]]]]",
    "{}", "[]", '[[], {}, [{}]]', '{"e": {}}',
]
LITERALS = [
    '{"a", "b"}', '{1, 2, 3}', 'regex("a+")', '{1: "one", 2: [3, {"k": regex("b")}]}', '[1, [2, {"k": "v"}]]', '{"k": [1, 2], "n": {"z": {"q", "r"}}}', '[{"x"}, {"y": {1}}]', '"txt"', "42", "2.5", "True", "None", "[]", '{"only"}',
]
BAD_LITERALS = {"regex": 'regex("a+")', "cmp": "less_than(3)", "intkey": '{1: "one", 2: "two"}',
                # values of built-in types the encoder has no branch for / CPython cannot write in decimal (open findings)
                "bytes": '"abc".encode()', "view": '{"a": 1}.keys()', "method": "[1].append", "hugeint": "10 ** 5000"}

SUBFLOWS = {
    "helper": "flow helper $p\n  match Go(k=$p)\n  send HelperDone(p=$p)\n",
    "watch": "flow watch\n  match Ping() as $e\n  send Pong(x=$e.x)\n",
    "count": "flow count\n  global $count\n  match Tick()\n  $count = $count + 1\n  send Count(c=$count)\n",
    "keep": "flow keep $v\n  match Show()\n  send Shown(v=$v)\n  match Show()\n  send ShownAgain(v=$v)\n",
    "group": "flow group\n  match (A() and B()) or C()\n  send GroupDone()\n",
    "branch": "flow branch\n  when A()\n    send WA()\n  or when B()\n    send WB()\n  match C()\n  send BranchDone()\n",
    "act": "flow act\n  start TestAction(v=1) as $a\n  match $a.Finished() as $fin\n  send ActDone(r=$fin.result)\n",
    "nest": "flow nest\n  start helper(7) as $inner\n  match $inner.Finished()\n  send NestDone()\n",
    "selfwatch": "flow selfwatch\n  match FlowStarted() as $fs\n  match Never()\n",
    # one flow activated by two parents that end at different times (its parent_uid names the first activator)
    "shared": "flow shared\n  match Ping() as $e\n  send SharedPong(x=$e.x)\n",
    "par1": "flow par1\n  activate shared\n  match Stop1()\n  send Par1Done()\n",
    "par2": "flow par2\n  activate shared\n  match Stop2()\n  send Par2Done()\n",
}
EVENTS = ["E1", "E2", "E3", "E4", "Ping", "Tick", "Show", "Go", "A", "B", "C", "Stop1", "Stop2"]


def g_program(rng, want=None):
    used = set()
    lines = ["  global $count", "  $count = 0"]
    nvars = 0
    flows_refs, act_refs = [], []
    feats = set()
    nstmt = rng.randrange(5, 14)

    def newvar():
        nonlocal nvars
        nvars += 1
        return f"$v{nvars}"

    valvars = []

    def newval():
        v = newvar()
        valvars.append(v)
        return v

    def anyvar():
        return rng.choice(valvars) if valvars else None

    if want:
        v = newval()
        lines.append(f"  {v} = {BAD_LITERALS[want]}" if want in BAD_LITERALS else "")
        feats.add(want)
        if want == "alias":
            lines[-1] = f"  {v} = [1, 2]"
            w = newval()
            lines.append(f"  {w} = {v}")
            lines.append(f"  match E1()")
            lines.append(f"  $tmp = {v}.append(3)")
            lines.append(f"  send OutAlias(a={v}, b={w})")
            feats.add("inplace")
        if want == "cycle":
            lines[-1] = "  activate selfwatch"
            used.add("selfwatch")
        if want == "intkey":
            lines.append("  match E1()")
            lines.append(f"  send OutKey(k=str({v}))")
    for _ in range(nstmt):
        r = rng.random()
        if r < 0.16:
            w = rng.random()
            if w < 0.06 and "deep-loop" not in feats:
                # nesting as deep as a loop makes it (no literal is that deep): lists or dicts, 30..120 levels
                v, i = newval(), newvar()
                k = rng.randrange(30, 101)
                wrap = rng.choice(["[{v}]", '{{"k": {v}}}', '[0, {{"in": {v}}}]']).format(v=v)
                lines += [f"  {v} = [1.5]", f"  {i} = 0", f"  while {i} < {k}", f"    {v} = {wrap}", f"    {i} = {i} + 1"]
                feats.add("deep-loop")
            elif w < 0.3:
                lines.append(f"  {newval()} = {rng.choice(SPECIAL_LITERALS)}")
                feats.add("special-literal")
            else:
                lines.append(f"  {newval()} = {rng.choice(LITERALS)}")
        elif r < 0.2 and valvars:
            src = anyvar()
            lines.append(f"  {newval()} = {src}")
        elif r < 0.3:
            f = rng.choice(["watch", "count", "group", "branch"])
            used.add(f)
            lines.append(f"  activate {f}")
        elif r < 0.4:
            used.add("helper")
            v = newvar()
            lines.append(f"  start helper({rng.randrange(1, 4)}) as {v}")
            flows_refs.append(v)
        elif r < 0.46 and valvars:
            used.add("keep")
            lines.append(f"  start keep({anyvar()}) as {newvar()}")
        elif r < 0.52:
            v = newvar()
            lines.append(f'  start UtteranceBotAction(script="s{nvars}") as {v}')
            act_refs.append(v)
        elif r < 0.56:
            f = rng.choice(["act", "nest"])
            used.add(f)
            used.add("helper")
            lines.append(f"  start {f}")
        elif r < 0.68:
            e = rng.choice(["E1", "E2", "E3", "E4"])
            if rng.random() < 0.3:
                v = newvar()
                lines.append(f"  match {e}() as {v}")
                lines.append(f"  send Got{e}(x={v}.x)")
            else:
                lines.append(f"  match {e}()")
        elif r < 0.8 and valvars:
            a, b = anyvar(), anyvar()
            lines.append(f"  send Out{len(lines)}(a={a}, b={b})")
        elif r < 0.85 and flows_refs:
            v = rng.choice(flows_refs)
            lines.append(f"  match {v}.Finished() or E4()")
            lines.append(f"  send St{len(lines)}(s=str({v}.status))")
        elif r < 0.9 and act_refs:
            v = act_refs.pop(rng.randrange(len(act_refs)))
            w = newvar()
            lines.append(f"  match {v}.Finished() as {w}")
            lines.append(f"  send Fin{len(lines)}(fs={w}.final_script)")
        elif r < 0.93:
            used.add("helper")
            lines.append(f"  await helper({rng.randrange(1, 4)})")
            lines.append(f"  send Awaited{len(lines)}()")
        elif r < 0.95:
            # the two-parents pattern
            used.update(["shared", "par1", "par2"])
            lines.append("  start par1")
            lines.append("  start par2")
        elif r < 0.97:
            lines.append("  when E1()\n    send W1()\n  or when E2()\n    send W2()")
        else:
            lines.append(rng.choice(["  match (E1() and E2())", "  match E1() or E3()"]))
    # a continuation that asks the interpreter which flows it knows (`flow_id in state.flow_id_states`, the system action the
    # llm.co library flows use): inserted after some waiting statement and/or at the end
    if rng.random() < 0.45:
        known = sorted(used - {"selfwatch"}) + ["nosuch", "main"]
        probes = []
        for _ in range(rng.randrange(1, 3)):
            f = rng.choice(known)
            probes.append(f'  $kn = await CheckValidFlowExistsAction(flow_id="{f}")')
            probes.append(f"  send Known{len(lines) + len(probes)}(f=\"{f}\", k=$kn)")
        pos = [i for i, l in enumerate(lines) if l.startswith(("  match ", "  await "))]
        at = (rng.choice(pos) + 1) if pos and rng.random() < 0.5 else len(lines)
        if at == len(lines):
            probes = [f"  match {rng.choice(['E1', 'E2', 'Tick'])}()"] + probes
        lines[at:at] = probes
    if rng.random() < 0.7:
        lines.append("  match Never()")
    else:
        lines.append("  match E3()")  # main finishes and restarts
    if "nest" in used or "act" in used:
        used.add("helper")
    src = "".join(SUBFLOWS[f] + "\n" for f in sorted(used)) + "flow main\n" + "\n".join(l for l in lines if l) + "\n"
    return src, sorted(feats)


def g_history(rng, n, src=""):
    own = sorted(set(re.findall(r"(?:match|when) \(?([A-Z][A-Za-z0-9]*)\(", src)) & set(EVENTS))
    ks = [int(x) for x in re.findall(r"helper\((\d)\)", src)] or [1, 2, 3, 7]
    if "Go" in own:
        own = own + ["Go", "Go"]
    h = []
    for _ in range(n):
        r = rng.random()
        if r < 0.12:
            fin = {"finish": rng.randrange(3)}
            if rng.random() < 0.3:  # what an action may return: a score / distance / time-out that is not finite, a huge count, odd text
                fin["res"] = enc_scalar(rng.choice(SPECIAL_SCALARS))
            h.append(fin)
        elif r < 0.16:
            h.append({"started": rng.randrange(3)})
        else:
            e = rng.choice(own) if own and rng.random() < 0.7 else rng.choice(EVENTS)
            ev = {"type": e}
            if e == "Go":
                ev["k"] = rng.choice(ks) if rng.random() < 0.85 else rng.choice([1, 2, 3, 7])
            elif e in ("Ping", "E1", "E2", "E3", "E4"):
                ev["x"] = rng.choice([1, "s", [1, 2], {"k": "v"}, None])
                if rng.random() < 0.2:  # an incoming event may carry any JSON-ish payload the embedding application computed
                    sp = enc_scalar(rng.choice(SPECIAL_SCALARS))
                    ev["x"] = {"$pv": sp if rng.random() < 0.6 else {"d": [[{"s": "lim"}, sp], [{"s": "vals"}, {"l": [sp, {"i": 1}]}]]}}
            h.append(ev)
    return h


def g_e2e_case(rng, maxlen, want=None):
    src, feats = g_program(rng, want)
    n = rng.randrange(3, maxlen + 1)
    hist = g_history(rng, n, src)
    if want in ("alias", "intkey"):
        hist[rng.randrange(1, len(hist))] = {"type": "E1", "x": 1}
    return {"kind": "e2e", "src": src, "history": hist, "features": feats}


RAILS_TPL = """import core

flow helper $p
  user said "go"
  bot say "went {{$p}}"

flow main
  $v = {lit}
  $w = [$v, 1]
  user said "hi"
  bot say "Hello!"
  start helper({n}) as $h
  user said "again"
  bot say "Again {{len(str($v))}}"
  user said "bye"
  bot say "Bye {{str($h.status)}}"
  match Never()
"""


def g_rails_case(rng, want=None):
    lit = BAD_LITERALS[want] if want else rng.choice(LITERALS + SPECIAL_LITERALS[:16])
    turns = [rng.choice(["hi", "again", "bye", "go", "other"]) for _ in range(rng.randrange(2, 6))]
    if rng.random() < 0.7:
        turns[0] = "hi"
    return {"kind": "rails", "src": RAILS_TPL.format(lit=lit, n=rng.randrange(1, 4)), "turns": turns, "features": [want] if want else []}


def gen_cases(rng, tier):
    n_ser, n_cl, n_e2e, maxlen, depth = (6000, 4000, 400, 8, 4) if tier == "quick" else (60000, 40000, 3000, 25, 5)
    cases = [g_ser_case(rng, rng.randrange(1, depth + 1)) for _ in range(n_ser)]
    cases += [g_cleanup_case(rng) for _ in range(n_cl)]
    for i in range(n_e2e):
        want = None
        r = rng.random()
        if r < 0.02:
            want = "regex"
        elif r < 0.03:
            want = "cmp"
        elif r < 0.05:
            want = "intkey"
        elif r < 0.07:
            want = "alias"
        elif r < 0.09:
            want = "cycle"
        elif r < 0.12:
            want = rng.choice(["bytes", "view", "method", "hugeint"])
        ml = maxlen if tier == "quick" else rng.choice([8, 8, 12, 12, 25])
        cases.append(g_e2e_case(rng, ml, want))
    for i in range(12 if tier == "quick" else 160):
        cases.append(g_rails_case(rng, "regex" if rng.random() < 0.1 else None))
    # api cases are the most expensive single cases (~100 generate_async calls each): spread them over the list so that
    # the runner's chunked pool does not hand all of them to one worker
    apis = [api.g_api_case(rng, tier) for _ in range(8 if tier == "quick" else 90)]
    step = max(1, len(cases) // (len(apis) + 1))
    for i, c in enumerate(apis):
        cases.insert(min(len(cases), (i + 1) * step + i), c)
    return cases


# ============================================================================= implementation side

_M = {}


class _Clock:
    base = datetime(2030, 1, 1, 0, 0, 0)
    offset_us = 0

    @classmethod
    def now(cls, tz=None):
        return cls.base + timedelta(microseconds=cls.offset_us)


class _FakeRandomBits:
    """replaces nemoguardrails.utils.secure_random: uuids become a counter"""
    counter = 0

    def getrandbits(self, n):
        _FakeRandomBits.counter += 1
        return _FakeRandomBits.counter


class _FirstChoice:
    @staticmethod
    def choice(seq):
        return seq[0]


def worker_init():
    import nemoguardrails.utils as utils
    from nemoguardrails.colang import parse_colang_file
    from nemoguardrails.colang.v2_x.runtime import flows
    from nemoguardrails.colang.v2_x.runtime import serialization as ser
    from nemoguardrails.colang.v2_x.runtime import statemachine as sm
    from nemoguardrails.colang.v2_x.runtime.runtime import create_flow_configs_from_flow_list

    class FakeDT(datetime):
        @classmethod
        def now(cls, tz=None):
            return _Clock.now()

    import logging

    logging.disable(logging.CRITICAL)  # the interpreter logs every flow error with a traceback
    sm.datetime = FakeDT
    flows.datetime = FakeDT
    utils.secure_random = _FakeRandomBits()
    sm.random = _FirstChoice
    _M.update(sm=sm, flows=flows, ser=ser, parse=parse_colang_file, mkcfg=create_flow_configs_from_flow_list)


def _safe(x):
    """observations are written to UTF-8 files and hashed by the runner: a raw string with a lone surrogate (an error message
    quoting a value, a reply) must not travel as such (values themselves are coded by pv.scode); non-finite floats neither"""
    if isinstance(x, str):
        try:
            x.encode("utf-8")
            return x
        except UnicodeEncodeError:
            return x.encode("utf-8", "backslashreplace").decode("utf-8")
    if isinstance(x, float) and (x != x or x in (float("inf"), float("-inf"))):
        return "float:" + repr(x)
    if isinstance(x, dict):
        return {_safe(k): _safe(v) for k, v in x.items()}
    if isinstance(x, (list, tuple)):
        return [_safe(v) for v in x]
    return x


def run_impl(case):
    return _safe(_run_impl(case))


def _run_impl(case):
    if not _M:
        worker_init()
    k = case["kind"]
    if k == "ser":
        return run_ser(case)
    if k == "cleanup":
        return run_cleanup(case)
    if k == "e2e":
        import signal

        def on_timeout(signum, frame):
            raise TimeoutError("e2e case exceeded its CPU budget")

        old = signal.signal(signal.SIGVTALRM, on_timeout)
        signal.setitimer(signal.ITIMER_VIRTUAL, 120)
        try:
            with contextlib.redirect_stdout(io.StringIO()):
                return run_e2e(case)
        except (TimeoutError, MemoryError) as e:
            return {"skip": "budget:" + type(e).__name__, "cuts": len(case["history"]), "problems": []}
        finally:
            signal.setitimer(signal.ITIMER_VIRTUAL, 0)
            signal.signal(signal.SIGVTALRM, old)
    if k == "rails":
        return run_rails(case)
    if k == "tokens":
        return run_tokens(case)
    if k == "api":
        return api.run_api(case, _Clock, _FakeRandomBits)
    raise ValueError(k)


def run_rails(case):
    """The real API: LLMRails.generate_async with the state handed back and forth as JSON (what a server does)
    vs the same conversation on the live State object (the JSON is still produced, but not used)."""
    import asyncio

    from nemoguardrails import LLMRails, RailsConfig
    from nemoguardrails.rails.llm import llmrails as lr

    def conversation(live):
        cfg = RailsConfig.from_content(case["src"], 'colang_version: "2.x"\n')
        rails = LLMRails(config=cfg)
        stash = {}
        orig = lr.state_to_json

        def wrapped(st, *a, **kw):
            stash["obj"] = st
            if live:
                try:
                    return orig(st, *a, **kw)
                except BaseException:  # noqa
                    return "{}"
            return orig(st, *a, **kw)

        lr.state_to_json = wrapped
        outs = []
        try:
            state = {}
            for t in case["turns"]:
                _Clock.offset_us += 1000
                try:
                    res = asyncio.run(rails.generate_async(messages=[{"role": "user", "content": t}], state=state))
                except BaseException as e:  # noqa
                    outs.append("EXC:" + _exc_kind(e) + ":" + str(e)[:120])
                    break
                outs.append([m.get("content") for m in res.response])
                state = stash["obj"] if live else res.state
        finally:
            lr.state_to_json = orig
        return outs

    _Clock.offset_us = 0
    _FakeRandomBits.counter = 0
    with contextlib.redirect_stdout(io.StringIO()), contextlib.redirect_stderr(io.StringIO()):
        try:
            live = conversation(True)
        except Exception as e:  # noqa
            return {"skip": "init:" + type(e).__name__ + ":" + str(e)[:100]}
        _Clock.offset_us = 0
        _FakeRandomBits.counter = 0
        saved = conversation(False)
    return {"live": live, "saved": saved}


def _exc_kind(e):
    s = str(e)
    if isinstance(e, RecursionError):
        return "cyclic"
    if type(e) is Exception and "Unhandled type" in s:
        return "unhandled"
    if isinstance(e, TypeError):
        return "typeError"
    if isinstance(e, KeyError):
        return "keyError"
    if isinstance(e, ValueError) and "Out of range float" in s:
        return "valueError"  # json.dumps(allow_nan=False)
    if isinstance(e, ValueError) and "integer string conversion" in s:
        return "intDigits"  # CPython's int -> decimal str limit (4300 digits)
    if type(e) is Exception and "Unknown d_type" in s:
        return "unknownType"
    if type(e) is Exception and "Could not find reference" in s:
        return "missingRef"
    return "other:" + type(e).__name__


def run_ser(case):
    ser = _M["ser"]
    pool = []
    for p in case["pool"]:
        pool.append(pv.build(p, pool))
    obj = pv.build(case["v"], pool)
    seen = pv.observe(obj)
    obs = {"seen": seen, "shared": "__shared__" if False else None}
    sig0 = pv.sharing_signature(obj)
    obs["n_shared"] = sum(1 for x in sig0 if x >= 0)
    obs["aliased_lists"] = pv.aliased_lists(obj)
    if isinstance(obj, _M["flows"].State):
        obs["root_state"] = True
        try:
            text = ser.state_to_json(obj)
        except Exception as e:  # noqa
            obs["enc_exc"] = _exc_kind(e)
            obs["enc_msg"] = str(e)[:120]
            return obs
        if '"__id"' not in text:
            obs["enc"] = pv.plain_json_to_model(json.loads(text))
        try:
            back = ser.json_to_state(text)
        except Exception as e:  # noqa
            obs["dec_exc"] = _exc_kind(e)
            obs["dec_msg"] = str(e)[:120]
            return obs
        obs["callbacks"] = _callbacks_ok(back)
        obs["dec"] = strip_partials(pv.observe(back))
        obs["sharing_kept"] = pv.sharing_signature(back) == sig0
        obs["aliased_lists_after"] = pv.aliased_lists(back)
        return obs
    # Every value goes through the repo's own `state_to_json` / `json_to_state` (and therefore through its `json.dumps` /
    # `json.loads` calls with whatever options they pass): the value sits in the global context of an otherwise empty real `State`;
    # the part of the document that encodes it is what the model is asked about.  `d` (python ids still in it) is used for the
    # refs comparison only.
    wrapper = _M["flows"].State(flow_states={}, flow_configs={}, context={"v": obj})
    try:
        text = ser.state_to_json(wrapper)
        d = ser.encode_to_dict(obj, {})
    except Exception as e:  # noqa
        obs["enc_exc"] = _exc_kind(e)
        obs["enc_msg"] = str(e)[:120]
        return obs
    try:
        cv, ids = pv.to_cv(obj)
        obs["cv"] = cv
        obs["enc_refs"] = pv.real_encoding_normal_form(d, ids)
    except Exception:  # noqa  -- a value outside the labelled universe (functools.partial leaves are fine, unknown classes are not)
        pass
    try:
        sub = json.loads(text)["value"]["context"]["value"]["v"]
    except Exception as e:  # noqa
        from ..translate.util import TieBroken

        raise TieBroken(f"state_to_json: the document of a State no longer has value.context.value.<name> ({type(e).__name__})")
    if '"__id"' not in text:
        obs["enc"] = pv.plain_json_to_model(sub)
    try:
        back = ser.json_to_state(text).context["v"]
    except Exception as e:  # noqa
        obs["dec_exc"] = _exc_kind(e)
        obs["dec_msg"] = str(e)[:120]
        return obs
    obs["dec"] = pv.observe(back)
    obs["sharing_kept"] = pv.sharing_signature(back) == sig0
    obs["aliased_lists_after"] = pv.aliased_lists(back)
    return obs


def run_tokens(case):
    """text layer: what the repo's `state_to_json` really writes for each kind of float and what `json_to_state` reads back
    (the token is cut out of the document of a State whose global context holds the float under the name "v")"""
    ser, flows = _M["ser"], _M["flows"]
    rows = []
    for code in ("nan", "inf", "-inf", "-0", [1, 1]):
        x = pv.fbuild(code)
        row = {"f": code}
        try:
            text = ser.state_to_json(flows.State(flow_states={}, flow_configs={}, context={"v": x}))
        except Exception as e:  # noqa
            row["dumps"] = _exc_kind(e)
            rows.append(row)
            continue
        row["dumps"] = "ok"
        m = re.search(r'"v": ([^,}\s]+)', text)
        row["token"] = m.group(1) if m else None
        try:
            row["back"] = pv.fcode(ser.json_to_state(text).context["v"])
        except Exception as e:  # noqa
            row["back"] = "EXC:" + _exc_kind(e)
        rows.append(row)
    return {"rows": rows}


def run_cleanup(case):
    sm, flows = _M["sm"], _M["flows"]
    _Clock.offset_us = 0
    now = _Clock.now()
    fss = {}
    for f in case["flows"]:
        fs = flows.FlowState(uid=f["uid"], flow_id=f["flow_id"], loop_id=None, hierarchy_position="0")
        fs.heads = {h["uid"]: flows.FlowHead(uid=h["uid"], flow_state_uid=f["uid"], matching_scores=[1.0] * len(h["scores"]), _position=h["pos"]) for h in f["heads"]}
        fs.parent_uid = f["parent"]
        fs.child_flow_uids = list(f["children"])
        fs._status = flows.FlowStatus[f["status"]]
        fs.status_updated = now + timedelta(microseconds=f["updated"])
        fs.activated = f["activated"]
        fs.action_uids = list(f["action_uids"])
        fs.scopes = {f"s{k}": (list(l), []) for k, l in enumerate(f.get("scope_flows", []))}
        fss[f["uid"]] = fs
    st = flows.State(flow_states=fss, flow_configs={})
    st.flow_id_states = {k: [fss[u] for u in us] for k, us in case["idx"]}
    st.actions = {a: flows.Action(name="X", arguments={}) for a in case["actions"]}
    before_actions = dict(st.actions)
    before = {u: pv.observe(fs) for u, fs in fss.items()}
    try:
        sm._clean_up_state(st)
    except Exception as e:  # noqa
        return {"exc": _exc_kind(e), "msg": str(e)[:100]}
    unchanged = True
    for u, fs in st.flow_states.items():
        b = dict((k["s"], v) for k, v in before[u]["D"][1])
        a = dict((k["s"], v) for k, v in pv.observe(fs)["D"][1])
        for fld in a:
            if fld in ("child_flow_uids", "heads", "scopes"):
                continue
            if a[fld] != b[fld]:
                unchanged = False
    return {
        "flows": [{"uid": u, "children": list(fs.child_flow_uids), "scope_flows": [list(v[0]) for v in fs.scopes.values()], "heads": [{"uid": h.uid, "n_scores": len(h.matching_scores)} for h in fs.heads.values()]} for u, fs in st.flow_states.items()],
        "idx": [[k, [fs.uid for fs in v]] for k, v in st.flow_id_states.items()],
        "actions": list(st.actions.keys()),
        "actions_same_objects": all(st.actions[a] is before_actions[a] for a in st.actions),
        "other_fields_unchanged": unchanged,
    }


# ----------------------------------------------------------------------------- e2e

_UUID_RE = re.compile(r"[0-9a-f]{8}-[0-9a-f]{4}-[0-9a-f]{4}-[0-9a-f]{4}-[0-9a-f]{12}")


def _plain(v):
    """outgoing event payload -> comparable JSON (sets sorted)"""
    return pv.canon(pv.observe(v, [20000]))


def _canon_outputs(steps):
    """rename uuids by order of first appearance"""
    text = json.dumps(steps, sort_keys=True)
    names = {}

    def sub(m):
        return names.setdefault(m.group(0), f"#{len(names)}")

    # order of first appearance must follow the event order, not the sorted-key order: collect first
    for st in steps:
        for ev in st if isinstance(st, list) else []:
            for m in _UUID_RE.finditer(json.dumps(ev)):
                names.setdefault(m.group(0), f"#{len(names)}")
    return json.loads(_UUID_RE.sub(sub, text))


def _system_action(state, start_event):
    import asyncio

    from nemoguardrails.actions.v2_x.generation import LLMGenerationActionsV2dotx

    return asyncio.run(LLMGenerationActionsV2dotx.check_if_flow_exists(None, state=state, flow_id=start_event.get("flow_id")))


_PARSED = {}


class _Run:
    def __init__(self, src):
        sm, flows = _M["sm"], _M["flows"]
        # every cut point re-runs the same program several times: parse it once, hand every run its own copy of the configs
        import pickle

        if _PARSED.get("src") != src:
            cfg0 = _M["mkcfg"](_M["parse"](filename="", content=src, include_source_mapping=False, version="2.x")["flows"])
            _PARSED.clear()
            _PARSED.update(src=src, blob=pickle.dumps(cfg0))
        cfg = pickle.loads(_PARSED["blob"])
        self.state = flows.State(flow_states=[], flow_configs=cfg)
        sm.initialize_state(self.state)
        self.started = []  # (action_uid, name) of StartXAction events seen so far
        self.finished = set()
        self.outs = []
        self.feed(flows.InternalEvent(name="StartFlow", arguments={"flow_id": "main"}))

    def concrete(self, ev):
        if "type" in ev:
            return {k: (pv.build(v["$pv"]) if isinstance(v, dict) and "$pv" in v else v) for k, v in ev.items()}
        pending = [a for a in self.started if a[0] not in self.finished]
        if not pending:
            return {"type": "Noop"}
        if "finish" in ev:
            uid, name = pending[ev["finish"] % len(pending)]
            self.finished.add(uid)
            out = {"type": name + "Finished", "action_uid": uid, "is_success": True}
            if name == "UtteranceBotAction":
                out["final_script"] = "done"
            else:
                out["result"] = {"r": [1, 2]}
            if "res" in ev:
                out["final_script" if name == "UtteranceBotAction" else "result"] = pv.build(ev["res"])
            return out
        uid, name = pending[ev["started"] % len(pending)]
        return {"type": name + "Started", "action_uid": uid}

    def feed(self, ev):
        sm = _M["sm"]
        try:
            sm.run_to_completion(self.state, ev if not isinstance(ev, dict) else self.concrete(ev))
            out = []
            for e in self.state.outgoing_events:
                if e["type"].startswith("Start") and e["type"].endswith("Action") and "action_uid" in e:
                    self.started.append((e["action_uid"], e["type"][5:]))
                out.append({k: _plain(v) for k, v in e.items() if k not in VOLATILE})
            # system actions are executed by the runtime between two run_to_completion calls: do what it does for the one the
            # programs use (the REAL action function on the REAL state), and feed its ...ActionFinished event right away
            todo = [dict(e) for e in self.state.outgoing_events if e["type"] == "StartCheckValidFlowExistsAction"]
            rounds = 0
            while todo and rounds < 6:
                rounds += 1
                e = todo.pop(0)
                self.finished.add(e["action_uid"])
                res = _system_action(self.state, e)
                sm.run_to_completion(self.state, {"type": "CheckValidFlowExistsActionFinished", "action_uid": e["action_uid"], "action_name": "CheckValidFlowExistsAction",
                                                  "status": "success", "is_success": True, "return_value": res, "events": []})
                for e2 in self.state.outgoing_events:
                    if e2["type"].startswith("Start") and e2["type"].endswith("Action") and "action_uid" in e2:
                        self.started.append((e2["action_uid"], e2["type"][5:]))
                    out.append({k: _plain(v) for k, v in e2.items() if k not in VOLATILE})
                    if e2["type"] == "StartCheckValidFlowExistsAction":
                        todo.append(dict(e2))
        except Exception as e:  # noqa
            out = "EXC:" + type(e).__name__
        self.outs.append(out)
        return out

    def clone_bookkeeping(self, other):
        self.started = list(other.started)
        self.finished = set(other.finished)


def _callbacks_ok(state):
    sm = _M["sm"]
    import functools

    for fs in state.flow_states.values():
        for h in fs.heads.values():
            for cb in (h.position_changed_callback, h.status_changed_callback):
                if not (isinstance(cb, functools.partial) and cb.func is sm._flow_head_changed and len(cb.args) == 2 and cb.args[0] is state and cb.args[1] is fs):
                    return f"head {h.uid} of {fs.flow_id}"
    return None


def _state_facts(state):
    """structural facts about a reached state, used by signature()"""
    from dataclasses import is_dataclass

    facts = {"nonstr_keys": False, "regex": False, "cmp": False, "builtin_other": False, "huge_int": False}
    views = (type({}.keys()), type({}.values()), type({}.items()), type([].append), bytes)
    seen = set()
    stack = [fs.context for fs in state.flow_states.values()] + [state.context]
    # a value also lives in the state through the action it was reported by / sent to and through the event lists
    stack += [x for a in state.actions.values() for x in (a.context, a.start_event_arguments)]
    stack += [fs.arguments for fs in state.flow_states.values()]
    stack += list(state.last_events) + list(state.internal_events) + list(state.outgoing_events)
    n = 0
    while stack and n < 50000:
        x = stack.pop()
        n += 1
        if id(x) in seen:
            continue
        seen.add(id(x))
        if isinstance(x, dict):
            if any(not isinstance(k, str) for k in x):
                facts["nonstr_keys"] = True
            stack.extend(x.values())
        elif isinstance(x, (list, tuple, set)):
            stack.extend(x)
        elif isinstance(x, re.Pattern):
            facts["regex"] = True
        elif isinstance(x, views):
            facts["builtin_other"] = True
        elif isinstance(x, int) and pv.too_long_for_decimal(x):
            facts["huge_int"] = True
        elif type(x).__name__ == "ComparisonExpression":
            facts["cmp"] = True
        elif is_dataclass(x) and type(x).__name__ in ("Event", "InternalEvent", "ActionEvent"):
            stack.append(x.arguments)
    facts["aliased_lists"] = pv.aliased_lists([fs.context for fs in state.flow_states.values()]) > 0

    def nonjson(x, d=0):
        if x is None or isinstance(x, (bool, int, float, str)):
            return False
        if isinstance(x, list):
            return any(nonjson(y, d + 1) for y in x)
        if isinstance(x, dict):
            return "__type" in x or any(not isinstance(k, str) for k in x) or any(nonjson(y, d + 1) for y in x.values())
        return True

    facts["action_nonjson"] = any(nonjson(a.context) or nonjson(a.start_event_arguments) for a in state.actions.values())
    return facts


def _graph_diff(a, b):
    """identity-aware isomorphism of two object graphs (lists transparent); returns first difference or None"""
    import functools
    from dataclasses import is_dataclass
    from enum import Enum

    Action = _M["flows"].Action
    fwd, bwd = {}, {}
    # containers that live inside the payload of an Action (region of the open finding "action-payload-not-json")
    payload_ids = set()
    todo = [v for act in getattr(a, "actions", {}).values() for v in (act.context, act.start_event_arguments)]
    while todo:
        z = todo.pop()
        if isinstance(z, (dict, list, tuple, set)) and id(z) not in payload_ids:
            payload_ids.add(id(z))
            todo.extend(z.values() if isinstance(z, dict) else z)
    stack = [(a, b, "state", False)]
    n = 0
    while stack:
        x, y, path, raw = stack.pop()
        n += 1
        if n > 400000:
            return None
        if isinstance(x, functools.partial) or isinstance(y, functools.partial):
            continue
        if type(x) is not type(y) and not (isinstance(x, dict) and isinstance(y, dict)):
            # (AttributeDict vs dict is invisible: every variable read re-wraps dicts, eval.py)
            return f"{path}: type {type(x).__name__} vs {type(y).__name__}"
        if isinstance(x, float):
            if pv.fcode(x) != pv.fcode(y):  # nan is nan, -0.0 is not 0.0
                return f"{path}: {x!r} vs {y!r}"
            continue
        if x is None or isinstance(x, (bool, int, str)):
            if x != y:
                return f"{path}: {x!r} vs {y!r}"
            continue
        if isinstance(x, (Enum, datetime)):
            if x != y:
                return f"{path}: {x} vs {y}"
            continue
        if isinstance(x, re.Pattern):
            if (x.pattern, x.flags) != (y.pattern, y.flags):
                return f"{path}: {x} vs {y}"
            continue
        if not raw:
            # objects inside Action.to_dict() payloads are written raw (no refs): compared by value only
            if id(x) in fwd or id(y) in bwd:
                if fwd.get(id(x)) != id(y) or bwd.get(id(y)) != id(x):
                    return f"{path}: sharing differs ({type(x).__name__})" + (" <action>" if id(x) in payload_ids else "")
                continue
            fwd[id(x)] = id(y)
            bwd[id(y)] = id(x)
        if isinstance(x, list):
            if len(x) != len(y):
                return f"{path}: list length {len(x)} vs {len(y)}"
            stack.extend((x[i], y[i], f"{path}[{i}]", raw) for i in range(len(x)))
        elif isinstance(x, dict):
            if list(x.keys()) != list(y.keys()):
                return f"{path}: dict keys {list(x.keys())[:6]} vs {list(y.keys())[:6]}"
            stack.extend((x[k], y[k], f"{path}[{k!r}]", raw) for k in x)
        elif is_dataclass(x):
            stack.extend((getattr(x, f), getattr(y, f), f"{path}.{f}", raw) for f in x.__dataclass_fields__.keys())
        elif isinstance(x, Action):
            stack.extend((getattr(x, f), getattr(y, f), f"{path}.<action>.{f}", False) for f in ("uid", "name", "flow_uid", "status", "context", "start_event_arguments", "flow_scope_count"))
        elif isinstance(x, set):
            if pv.canon(pv.observe(x)) != pv.canon(pv.observe(y)):  # by exact value (a restored nan is another object: {nan} != {nan})
                return f"{path}: set {x} vs {y}"
        elif isinstance(x, tuple) or type(x).__name__ == "deque":
            if len(x) != len(y):
                return f"{path}: length"
            stack.extend((xi, yi, f"{path}[{i}]", raw) for i, (xi, yi) in enumerate(zip(x, y)))
    return None



# ----------------------------------------------------------------------------- the relation `Aged` of the T3 lemmas, on real states

def _shallow(v, d=0):
    """comparable picture of a context value: containers by value, runtime objects by class and uid"""
    if isinstance(v, float):
        return {"f": pv.fcode(v)}  # nan != nan: floats are compared by their exact code
    if v is None or isinstance(v, (bool, int, str)):
        return v
    if d > 6:
        return "<deep>"
    if isinstance(v, dict):
        return {"d": [[_shallow(k, d + 1), _shallow(x, d + 1)] for k, x in v.items()]}
    if isinstance(v, (list, tuple)) or type(v).__name__ == "deque":
        return {type(v).__name__: [_shallow(x, d + 1) for x in v]}
    if isinstance(v, (set, frozenset)):
        return {"set": sorted((json.dumps(_shallow(x, d + 1), sort_keys=True, default=str) for x in v))}
    if isinstance(v, re.Pattern):
        return {"re": [v.pattern, v.flags]}
    if hasattr(v, "uid"):
        return f"<{type(v).__name__} {getattr(v, 'uid', None)}>"
    if hasattr(v, "name") and hasattr(v, "arguments"):
        return {"ev": [type(v).__name__, v.name, _shallow(v.arguments, d + 1)]}
    return f"<{type(v).__name__}>"


def _aged_summary(state):
    """what `Bisim.Aged` (lean/NemoVerif/Lemmas/CleanUpBisimFns.lean) speaks about, read off a real `State`"""
    now = _Clock.now()
    fs = {}
    for uid, f in state.flow_states.items():
        fs[uid] = {
            "rec": [f.flow_id, f.loop_id, f.hierarchy_position, _shallow(f.head_fork_uids), list(f.action_uids), _shallow(f.context), f.priority,
                    _shallow(f.arguments), f.parent_uid, f.parent_head_uid, f.status.name, f.activated, f.new_instance_started,
                    [[h.uid, h.position, h.status.name, len(h.matching_scores), list(h.scope_uids), list(h.child_head_uids), list(h.catch_pattern_failure_label)] for h in f.heads.values()],
                    [[k, list(v[1])] for k, v in f.scopes.items()]],
            "children": list(f.child_flow_uids), "scope_flows": [list(v[0]) for v in f.scopes.values()],
            "age_us": int((now - f.status_updated) / timedelta(microseconds=1)), "status": f.status.name, "activated": f.activated,
        }
    return {
        "order": list(state.flow_states.keys()), "fs": fs,
        "idx": {k: [x.uid for x in v] for k, v in state.flow_id_states.items()},
        "actions": {k: [a.name, a.status.name, a.flow_uid, a.flow_scope_count, _shallow(a.context), _shallow(a.start_event_arguments)] for k, a in state.actions.items()},
        "maps": [[[k, [list(x) for x in v]] for k, v in state.event_matching_heads.items()], [[list(k) if isinstance(k, tuple) else k, v] for k, v in state.event_matching_heads_reverse_map.items()]],
        "rest": [len(state.internal_events), state.main_flow_state.uid if state.main_flow_state else None, _shallow(state.context)],
    }


def _aged_violation(live, aged):
    """None, or why `Aged rm live aged` does not hold (rm = the instances missing in the aged state)"""
    rm = [u for u in live["order"] if u not in aged["fs"]]
    if [u for u in aged["order"] if u not in live["fs"]]:
        return "the aged state has an instance the live one does not have"
    if aged["order"] != [u for u in live["order"] if u not in rm]:
        return "flow_states order differs"
    for u in rm:
        if live["fs"][u]["status"] not in ("FINISHED", "STOPPED"):
            return f"{u} is missing in the aged state but is not done in the live one ({live['fs'][u]['status']})"
    if aged["maps"] != live["maps"]:
        return "the dispatch maps (event_matching_heads / reverse map) differ"
    for u in aged["order"]:
        a, l = aged["fs"][u], live["fs"][u]
        if a["rec"] != l["rec"]:
            k = next(i for i in range(len(a["rec"])) if a["rec"][i] != l["rec"][i])
            return f"record of the kept instance {u} differs in field #{k}: live {json.dumps(l['rec'][k], default=str)[:120]} aged {json.dumps(a['rec'][k], default=str)[:120]}"
        # both sides without the discarded uids: the clean-up drops a discarded uid from the child list of its `parent_uid` only,
        # a flow activated by a second parent is listed by that parent too (XRel in CleanUpBisimFns.lean filters both sides)
        if [c for c in a["children"] if c not in rm] != [c for c in l["children"] if c not in rm]:
            return f"child_flow_uids of {u}: aged {a['children']} and live {l['children']} differ in more than the discarded {rm}"
        if [[c for c in sc if c not in rm] for sc in a["scope_flows"]] != [[c for c in sc if c not in rm] for sc in l["scope_flows"]]:
            return f"scope flow lists of {u} differ in more than the discarded instances {rm}"
        if a["age_us"] < l["age_us"]:
            return f"{u} is younger in the aged state"
    if list(aged["idx"].keys()) != list(live["idx"].keys()) or any(aged["idx"][k] != [x for x in live["idx"][k] if x not in rm] for k in live["idx"]):
        return "flow_id_states is not the live one without the discarded instances"
    for k, v in aged["actions"].items():
        if live["actions"].get(k) != v:
            return f"action {k} of the aged state is not the live one"
    for u in aged["order"]:
        for au in live["fs"][u]["rec"][4]:
            if (au in live["actions"]) != (au in aged["actions"]):
                return f"action {au} referenced by the kept instance {u} is missing on one side"
    if aged["rest"] != live["rest"]:
        return "queue length / main flow / global context differ"
    return None


def run_e2e(case):
    ser = _M["ser"]
    _Clock.offset_us = 0
    _FakeRandomBits.counter = 0
    obs = {"cuts": len(case["history"]), "problems": [], "facts": {}, "max_flows": 0, "nonempty": 0, "removed_by_ageing": 0}
    try:
        live = _Run(case["src"])
    except Exception as e:  # noqa  -- generator produced a program the parser/expander rejects: not a C11 question
        obs["skip"] = "init:" + type(e).__name__ + ":" + str(e)[:80]
        return obs
    hist = case["history"]
    snaps = []
    for i, ev in enumerate(hist):
        # ---- cut point i (between events): save
        snap = {"counter": _FakeRandomBits.counter, "started": list(live.started), "finished": set(live.finished)}
        obs["max_flows"] = max(obs["max_flows"], len(live.state.flow_states))
        try:
            snap["json"] = ser.state_to_json(live.state)
        except BaseException as e:  # noqa
            facts = _state_facts(live.state)
            obs["facts"].update({k: v for k, v in facts.items() if v})
            obs["problems"].append({"cut": i, "what": "encode", "kind": _exc_kind(e), "msg": str(e)[:160]})
            snap["json"] = None
        snaps.append(snap)
        _Clock.offset_us += 1000
        live.feed(ev)
    obs["nonempty"] = sum(1 for o in live.outs[1:] if o)
    live_outs = live.outs[1:]
    end_counter = _FakeRandomBits.counter
    # ---- restore at every cut and continue
    for i, snap in enumerate(snaps):
        if snap["json"] is None:
            continue
        try:
            st2 = ser.json_to_state(snap["json"])
        except BaseException as e:  # noqa
            obs["problems"].append({"cut": i, "what": "decode", "kind": _exc_kind(e), "msg": str(e)[:160]})
            continue
        cb = _callbacks_ok(st2)
        if cb:
            obs["problems"].append({"cut": i, "what": "callbacks", "msg": cb})
        copy = _Run.__new__(_Run)
        copy.state, copy.outs = st2, []
        copy.started, copy.finished = list(snap["started"]), set(snap["finished"])
        _FakeRandomBits.counter = snap["counter"]
        _Clock.offset_us = 1000 * i
        for ev in hist[i:]:
            _Clock.offset_us += 1000
            copy.feed(ev)
        a, b = _canon_outputs(live_outs[i:]), _canon_outputs(copy.outs)
        if a != b:
            step = next((k for k in range(len(a)) if a[k] != b[k]), 0)
            obs["problems"].append({"cut": i, "what": "restore-diverges", "step": i + step, "live": a[step], "copy": b[step]})
            if not obs["facts"]:
                # facts about the state that was saved (re-run the prefix to look at it)
                pass
    # ---- structural comparison + facts at the cuts where something went wrong or at the last cut
    if obs["problems"] or True:
        _Clock.offset_us = 0
        _FakeRandomBits.counter = 0
        rerun = _Run(case["src"])
        live_summ = []
        for i, ev in enumerate(hist):
            if snaps[i]["json"] is not None and (i == len(hist) - 1 or any(p["cut"] == i for p in obs["problems"])):
                facts = _state_facts(rerun.state)
                obs["facts"].update({k: v for k, v in facts.items() if v})
                c0 = _FakeRandomBits.counter  # decoding constructs objects whose default uid draws from the counter
                try:
                    d = _graph_diff(rerun.state, ser.json_to_state(ser.state_to_json(rerun.state)))
                except BaseException as e:  # noqa
                    d = None
                _FakeRandomBits.counter = c0
                if d:
                    obs["problems"].append({"cut": i, "what": "structure", "msg": d[:200]})
            _Clock.offset_us += 1000
            rerun.feed(ev)
            try:
                live_summ.append(_aged_summary(rerun.state))
            except Exception:  # noqa
                live_summ.append(None)
    # ---- ageing at every cut: same program, same history, the clock jumps past the age before event i
    for i in range(len(hist)):
        _Clock.offset_us = 0
        _FakeRandomBits.counter = 0
        aged = _Run(case["src"])
        rel_bad = None
        i2_bad = False
        for j, ev in enumerate(hist):
            _Clock.offset_us += 1000
            if j == i:
                n_before = len(aged.state.flow_states)
                _Clock.offset_us += AGE_US * 2
            if j >= i and not i2_bad:
                # hypothesis I2 of the T3 lemmas (`Bisim.ActParentsKept`) on the real state: will the clean-up of this step discard
                # the parent instance of a still activated flow?  (region of the open finding cleanup-dangling-parent)
                fsd, now = aged.state.flow_states, _Clock.now()
                for f0 in fsd.values():
                    par = fsd.get(f0.parent_uid) if f0.activated > 0 and f0.parent_uid else None
                    if (par is not None and par.status.name in ("FINISHED", "STOPPED") and par.activated == 0
                            and (now - par.status_updated) > timedelta(microseconds=AGE_US)):
                        obs["facts"]["act_parent_discardable"] = True
                        i2_bad = True
            out = aged.feed(ev)
            # the hypothesis of the T3 lemmas (`Bisim.Aged`), checked on the real states after every later event
            if j >= i and rel_bad is None and not i2_bad and not isinstance(out, str) and not isinstance(live_outs[j], str) and live_summ[j] is not None:
                obs["aged_rel_checked"] = obs.get("aged_rel_checked", 0) + 1
                try:
                    why = _aged_violation(live_summ[j], _aged_summary(aged.state))
                except Exception as e:  # noqa  -- the summary could not be taken: counted, never silent
                    why = None
                    obs["aged_rel_error"] = type(e).__name__ + ": " + str(e)[:80]
                if why:
                    rel_bad = {"cut": i, "what": "aged-relation", "step": j, "msg": why}
            elif i2_bad:
                obs["aged_rel_skipped_i2"] = obs.get("aged_rel_skipped_i2", 0) + 1
        if rel_bad:
            obs["problems"].append(rel_bad)
        a, b = _canon_outputs(live_outs[i:]), _canon_outputs(aged.outs[1 + i:])
        if a != b:
            step = next((k for k in range(len(a)) if a[k] != b[k]), 0)
            obs["problems"].append({"cut": i, "what": "ageing-diverges", "step": i + step, "live": a[step], "copy": b[step]})
    # how much did ageing actually remove (evidence that the clean-up fired): one run aged at every step
    _Clock.offset_us = 0
    _FakeRandomBits.counter = 0
    aged = _Run(case["src"])
    removed = 0
    for ev in hist:
        _Clock.offset_us += AGE_US * 2
        before = set(aged.state.flow_states)
        aged.feed(ev)
        removed += len(before - set(aged.state.flow_states))
    obs["removed_by_ageing"] = removed
    a, b = _canon_outputs(live_outs), _canon_outputs(aged.outs[1:])
    if a != b:
        step = next((k for k in range(len(a)) if a[k] != b[k]), 0)
        obs["problems"].append({"cut": -1, "what": "ageing-diverges", "step": step, "live": a[step], "copy": b[step]})
    obs["live_outs"] = live_outs if len(json.dumps(live_outs)) < 3000 else "(long)"
    return obs


# ============================================================================= model

def model_requests(case, obs):
    if case["kind"] == "ser":
        if pv.unmodelled(obs["seen"]):
            return []  # outside the wire format of the driver (lone surrogates, float keys, ints beyond 4300 digits): oracle only
        reqs = [{"m": "C11.ser", "v": obs["seen"]}]
        if "cv" in obs:
            reqs.append({"m": "C11.shared", "t": obs["cv"]})
        return reqs
    if case["kind"] == "tokens":
        return [{"m": "C11.tokens"}]
    if case["kind"] == "cleanup":
        return [{"m": "C11.cleanup", "now": case["now"], "flows": case["flows"], "idx": case["idx"], "actions": case["actions"]}]
    return []


def compare(case, obs, mouts):
    m = mouts[0]
    if case["kind"] == "ser":
        real_ok = "enc_exc" not in obs
        if real_ok != ("ok" in m["enc"]) or real_ok != m["shape"]:
            return f"encoder: implementation {'ok' if real_ok else obs['enc_exc']}, model {m['enc'] if 'err' in m['enc'] else 'ok'} (EncShape={m['shape']})"
        if not real_ok:
            if obs["enc_exc"] == m["enc"]["err"] or (obs["enc_exc"] == "unhandled" and m["enc"]["err"] == "typeError"):
                return None  # the model reports the first defect in traversal order; Python finishes encode_to_dict before json.dumps
            return f"encoder error kind: implementation {obs['enc_exc']}, model {m['enc']['err']}"
        if "enc" in obs and obs["enc"] != m["enc"]["ok"]:
            return "encoded JSON differs: impl " + json.dumps(obs["enc"])[:300] + " model " + json.dumps(m["enc"]["ok"])[:300]
        if "dec_exc" in obs:
            if "err" in m["dec"] and m["dec"]["err"] == obs["dec_exc"]:
                return None
            return f"decoder: implementation raised {obs['dec_exc']}, model {json.dumps(m['dec'])[:200]}"
        if "err" in m["dec"]:
            return f"decoder: implementation ok, model {m['dec']}"
        if pv.canon(obs["dec"]) != pv.canon(m["dec"]["ok"]):
            return "decoded value differs: impl " + json.dumps(obs["dec"])[:300] + " model " + json.dumps(m["dec"]["ok"])[:300]
        if m["decodable"] and pv.canon(m["norm"]) != pv.canon(obs["dec"]):
            return "decoded value differs from Serialize.norm (theorem roundtrip_lossy): impl " + json.dumps(obs["dec"])[:300] + " norm " + json.dumps(m["norm"])[:300]
        if m["encodable"] and pv.canon(m["dec"]["ok"]) != pv.canon(obs["seen"]):
            return "model: Encodable but round trip not identity (theorem roundtrip_tree contradicted by the driver?)"
        if len(mouts) > 1 and "enc_refs" in obs:
            # T2 tie, concrete layer: the JSON of the encoder WITH refs (which occurrence is a definition, which a reference
            # and to what, which definitions carry an __id / which lists are marked) vs Shared.encodeC
            want = pv.model_encoding_normal_form(mouts[1]["enc"])
            if want != obs["enc_refs"]:
                return "encoder with refs differs from Shared.encodeC: " + first_diff(obs["enc_refs"], want)
            if not mouts[1]["wf"] or not mouts[1]["decodes"]:
                return "model: Shared.decodeC fails on Shared.encodeC output (wf=%s)" % mouts[1]["wf"]
        return None
    if case["kind"] == "tokens":
        for r, mr in zip(obs["rows"], m["rows"]):
            if r["f"] != mr["f"]:
                return "tokens: row order"
            want = "ok" if mr["dumps"] == "ok" else mr["dumps"].get("err")
            if r["dumps"] != want:
                return f"json.dumps of float {r['f']}: implementation {r['dumps']}, model {want} (allow_nan={m['allow_nan']})"
            if r["dumps"] != "ok":
                continue
            if mr["token"] is not None and (r["token"] != mr["token"] or r["back"] != mr["back"]):
                return f"text layer, float {r['f']}: implementation writes {r['token']} and reads back {r['back']}, model {mr['token']} / {mr['back']}"
            if mr["token"] is None and r["token"] in ("NaN", "Infinity", "-Infinity"):
                return f"text layer: the finite float {r['f']} is written as the constant {r['token']}"
        return None
    if case["kind"] == "cleanup":
        if "exc" in obs:
            return None if m.get("err") == obs["exc"] else f"clean-up: implementation raised {obs['exc']} ({obs.get('msg')}), model {json.dumps(m)[:200]}"
        if "err" in m:
            return f"clean-up: implementation ok, model {m}"
        for k in ("flows", "idx", "actions"):
            if obs[k] != m[k]:
                return f"clean-up {k}: impl {json.dumps(obs[k])[:300]} model {json.dumps(m[k])[:300]}"
        return None
    return None


# ============================================================================= oracle

def _removable(f, now):
    return f["status"] in ("STOPPED", "FINISHED") and (now - f["updated"]) > AGE_US and f["activated"] == 0


def oracle(case, obs):
    k = case["kind"]
    if k == "ser":
        if obs.get("enc_exc") == "unhandled" and "Unknown" in obs.get("enc_msg", ""):
            return None  # an object of a class the runtime never creates: outside "every reachable state"
        if "enc_exc" in obs:
            return f"state_to_json raises on a value a state can hold: {obs['enc_exc']} ({obs.get('enc_msg')})"
        if "dec_exc" in obs:
            return f"decode_from_dict raises on the encoder's own output: {obs['dec_exc']} ({obs.get('dec_msg')})"
        if obs.get("callbacks"):
            return "json_to_state: callbacks not re-installed on " + obs["callbacks"]
        if pv.canon(obs["dec"]) != pv.canon(strip_partials(obs["seen"])):
            return "restored value differs from the saved one: " + first_diff(pv.canon(strip_partials(obs["seen"])), pv.canon(obs["dec"]))
        if not obs["sharing_kept"]:
            return "restored graph does not have the sharing structure of the saved one"
        if obs["aliased_lists"] and obs["aliased_lists_after"] != obs["aliased_lists"]:
            return "a list reachable along two paths comes back as two separate lists"
        return None
    if k == "cleanup":
        if "exc" in obs:
            # a missing action / stale index is outside the property (the generator plants a few to exercise the error path)
            return None
        must_keep = [f["uid"] for f in case["flows"] if not _removable(f, case["now"])]
        # the parent instance of an ACTIVATED flow is still looked up when that flow is deactivated
        # (_is_reference_activated_flow): discarding it changes later behaviour (KeyError) -> it has to stay
        needed = set(f["parent"] for f in case["flows"] if f["activated"] > 0 and f["parent"])
        got = [f["uid"] for f in obs["flows"]]
        gone = [u for u in must_keep if u not in got]
        extra = [u for u in got if u not in must_keep and u not in needed]
        if gone or extra:
            return f"clean-up removed instances it must keep {gone} / kept instances past the age {extra}"
        dang = [u for u in needed if u in [f["uid"] for f in case["flows"]] and u not in got]
        if dang:
            return f"clean-up discarded {dang}, the parent instance of a still activated flow: its deactivation will raise KeyError"
        keep = got
        if not obs["other_fields_unchanged"]:
            return "clean-up changed a field of a remaining instance"
        # which flow ids are known (`flow_id in state.flow_id_states`) is observable (CheckValidFlowExistsAction, used by the
        # llm.co flows): idle time must not change it, and every entry lists the remaining instances of its flow id
        if [k0 for k0, _ in obs["idx"]] != [k0 for k0, _ in case["idx"]]:
            return f"clean-up changed the set of known flow ids: {[k0 for k0, _ in case['idx']]} -> {[k0 for k0, _ in obs['idx']]}"
        for k0, us in obs["idx"]:
            exp = [f["uid"] for f in case["flows"] if f["flow_id"] == k0 and f["uid"] in keep]
            if us != exp:
                return f"flow_id_states[{k0!r}] = {us} after the clean-up, remaining instances {exp}"
        refd = []
        for f in case["flows"]:
            if f["uid"] in keep:
                for a in f["action_uids"]:
                    if a not in refd:
                        refd.append(a)
        if sorted(obs["actions"]) != sorted(refd) or not obs["actions_same_objects"]:
            return f"clean-up left actions {obs['actions']}, referenced {refd}"
        removed = set(f["uid"] for f in case["flows"]) - set(keep)
        for f, g in zip([f for f in case["flows"] if f["uid"] in keep], obs["flows"]):
            exp = list(f["children"])
            if [c for c in g["children"] if c not in removed and c in exp] != [c for c in exp if c not in removed]:
                return f"clean-up dropped a live child uid from {f['uid']}: {g['children']} vs {exp}"
            for l0, l1 in zip(f.get("scope_flows", []), g.get("scope_flows", [])):
                if [c for c in l0 if c not in removed] != [c for c in l1 if c not in removed]:
                    return f"clean-up dropped a live flow uid from a scope of {f['uid']}: {l1} vs {l0}"
        return None
    if "skip" in obs:
        return None
    if k == "tokens":
        for r in obs["rows"]:
            if r["dumps"] != "ok":
                return f"state_to_json raises on a State whose global context holds the float {r['f']}: {r['dumps']}"
            if r["back"] != r["f"]:
                return f"the float {r['f']} in the global context is restored as {r['back']} (written as {r['token']})"
        return None
    if k == "rails":
        for i, (a, b) in enumerate(zip(obs["live"], obs["saved"])):
            if isinstance(b, str) and b.startswith("EXC:"):
                return f"generate_async raises at turn {i} when the state travels as JSON: {b[4:]}"
            if a != b:
                return f"conversation with the state travelling as JSON diverges at turn {i}: live {a} saved {b}"
        if len(obs["live"]) != len(obs["saved"]):
            return "conversation with the state travelling as JSON stops early"
        return None
    if k == "api":
        if "live_failed" in obs:
            return f"generate_async raises at turn {obs['live_failed']} of an undisturbed conversation with the state travelling as JSON: {obs['live'][-1][4:]}"
        d = api.first_divergence(obs)
        if d:
            return (f"saved state (API level) does not continue like the live conversation: {d['family']}: {d['what']}: turn {d['turn']} "
                    f"live {json.dumps(obs['live'][d['turn']])[:220]} got {json.dumps(d['got'])[:220]}")
        return None
    if obs["problems"]:
        p = _worst(obs["problems"])
        if p["what"] == "encode":
            return f"state_to_json raises at cut {p['cut']}: {p['kind']} {p['msg']}"
        if p["what"] == "decode":
            return f"json_to_state raises at cut {p['cut']}: {p['kind']} {p['msg']}"
        if p["what"] == "callbacks":
            return f"restored state at cut {p['cut']}: callbacks not re-installed on {p['msg']}"
        if p["what"] == "restore-diverges":
            return f"state restored at cut {p['cut']} diverges at event {p['step']}: live {json.dumps(p['live'])[:200]} copy {json.dumps(p['copy'])[:200]}"
        if p["what"] == "ageing-diverges":
            return f"clock pushed past the clean-up age at cut {p['cut']}: diverges at event {p['step']}: live {json.dumps(p['live'])[:200]} aged {json.dumps(p['copy'])[:200]}"
        if p["what"] == "structure":
            return f"restored state at cut {p['cut']} is not isomorphic to the saved one: {p['msg']}"
        if p["what"] == "aged-relation":
            return (f"clock pushed past the clean-up age at cut {p['cut']}: after event {p['step']} the aged state is not related to the live one as "
                    f"the T3 lemmas assume (Bisim.Aged): {p['msg']}")
    return None


_ORDER = ["callbacks", "decode", "ageing-diverges", "aged-relation", "restore-diverges", "structure", "encode"]


def _worst(problems):
    return sorted(problems, key=lambda p: (_ORDER.index(p["what"]), p["cut"]))[0]


def max_depth(j, d=0):
    if isinstance(j, dict):
        for t in ("l", "t", "q", "S"):
            if t in j:
                return max([max_depth(x, d + 1) for x in j[t]] + [d + 1])
        if "d" in j:
            return max([max_depth(v, d + 1) for _, v in j["d"]] + [d + 1])
        if "D" in j:
            return max([max_depth(v, d + 1) for _, v in j["D"][1]] + [d + 1])
    return d


def strip_partials(j):
    """functools.partial objects are dropped on purpose (json_to_state re-creates them): expected value is None"""
    if isinstance(j, dict):
        if "p" in j:
            return None
        if "D" in j:
            return {"D": [j["D"][0], [[k, strip_partials(v)] for k, v in j["D"][1]]]}
        for t in ("l", "t", "q", "S"):
            if t in j:
                return {t: [strip_partials(x) for x in j[t]]}
        if "d" in j:
            return {"d": [[k, strip_partials(v)] for k, v in j["d"]]}
    return j


def first_diff(a, b, path="$"):
    if type(a) is not type(b):
        return f"{path}: {json.dumps(a)[:80]} vs {json.dumps(b)[:80]}"
    if isinstance(a, dict):
        if set(a) != set(b):
            return f"{path}: {json.dumps(a)[:80]} vs {json.dumps(b)[:80]}"
        for k in a:
            d = first_diff(a[k], b[k], path + "." + k)
            if d:
                return d
        return None
    if isinstance(a, list):
        if len(a) != len(b):
            return f"{path}: {json.dumps(a)[:80]} vs {json.dumps(b)[:80]}"
        for i, (x, y) in enumerate(zip(a, b)):
            d = first_diff(x, y, f"{path}[{i}]")
            if d:
                return d
        return None
    return None if a == b else f"{path}: {json.dumps(a)[:80]} vs {json.dumps(b)[:80]}"


# ============================================================================= signatures of open findings

def _pv_has(j, pred):
    if pred(j):
        return True
    if isinstance(j, dict):
        for t in ("l", "t", "q", "S"):
            if t in j:
                return any(_pv_has(x, pred) for x in j[t])
        if "d" in j:
            return any(_pv_has(v, pred) for _, v in j["d"])
        if "D" in j:
            return any(_pv_has(v, pred) for _, v in j["D"][1])
        if "a" in j:
            return _pv_has(j["a"][4], pred) or _pv_has(j["a"][5], pred)
    return False


def _nonstr_key(j):
    return isinstance(j, dict) and "d" in j and any(not (isinstance(k, dict) and "s" in k) for k, _ in j["d"])


def _action_nonjson(j):
    def raw_bad(x):
        return isinstance(x, dict) and (any(t in x for t in ("t", "S", "q", "D", "e", "dt", "st", "a", "r", "c", "o", "p")) or ("d" in x and any(k == {"s": "__type"} or not (isinstance(k, dict) and "s" in k) for k, _ in x["d"])))
    return isinstance(j, dict) and "a" in j and (_pv_has(j["a"][4], raw_bad) or _pv_has(j["a"][5], raw_bad))


def signature(case, obs, msg):
    """Region of an open finding, decided from the *structure of the input / reached state* (not from the
    symptom), so that a later repair of the defect does not turn into a model-vs-code alarm."""
    k = case["kind"]
    if k == "ser":
        seen = obs.get("seen")
        if seen is None and "seen" not in obs:
            return None
        is_corr = msg.startswith(("encoder", "encoded JSON", "decoder:", "decoded value", "model:"))  # incl. "encoder refs discipline"
        if not is_corr:  # an oracle failure names its symptom: prefer it when several regions overlap
            if "two separate lists" in msg:
                return "aliased-list"
            if "ComparisonExpression" in msg:
                return "state-holds-comparison"
            if "not JSON serializable" in msg or "keys must be" in msg:
                return "action-payload-not-json"
        if _pv_has(seen, lambda j: isinstance(j, dict) and j.get("o") in pv.BUILTIN_OTHERS):
            return "state-holds-unserialisable-builtin"
        if _pv_has(seen, lambda j: isinstance(j, dict) and "ih" in j and pv.too_long_for_decimal(int(j["ih"], 16))):
            return "int-beyond-str-digits"
        if _pv_has(seen, lambda j: isinstance(j, dict) and "c" in j):
            return "state-holds-comparison"
        if _pv_has(seen, lambda j: isinstance(j, dict) and "a" in j):
            # the model mirrors fixes/C11-action-payload.diff (every field of an Action goes through encode_to_dict):
            # until it is applied, any value holding an Action is inside the region
            return "action-payload-not-json"
        if obs.get("aliased_lists"):
            return "aliased-list"
        return None
    if k == "cleanup":
        # region of the open finding "cleanup-dangling-parent": some old-rule removable instance is the parent of an activated flow
        needed = set(f["parent"] for f in case["flows"] if f["activated"] > 0 and f["parent"])
        if any(_removable(f, case["now"]) and f["uid"] in needed for f in case["flows"]):
            return "cleanup-dangling-parent"
        return None
    if k in ("rails", "api", "tokens"):
        return None
    probs = obs.get("problems") or []
    if not probs:
        return None
    p = _worst(probs)
    facts = obs.get("facts", {})
    if p["what"] == "encode":
        if p["kind"] == "unhandled" and "ComparisonExpression" in p["msg"]:
            return "state-holds-comparison"
        if p["kind"] == "cyclic":
            return "cyclic-state-reference"
        if p["kind"] == "typeError" and facts.get("action_nonjson"):
            return "action-payload-not-json"
        if p["kind"] == "unhandled" and facts.get("builtin_other") and re.search(r"'(bytes|dict_keys|dict_values|dict_items|builtin_function_or_method)'", p["msg"]):
            return "state-holds-unserialisable-builtin"
        if p["kind"] == "intDigits" and facts.get("huge_int"):
            return "int-beyond-str-digits"
        return None
    if p["what"] == "ageing-diverges" and "KeyError" in json.dumps(p.get("copy")) and len(re.findall(r"activate shared", case["src"])) >= 2:
        return "cleanup-dangling-parent"
    if p["what"] == "restore-diverges":
        if facts.get("aliased_lists") and ".append(" in case["src"]:
            return "aliased-list"
    if p["what"] == "structure":
        m = p.get("msg", "")
        if "<action>" in m:
            return "action-payload-not-json"
        if "sharing differs (list)" in m:
            return "aliased-list"
    return None


# ============================================================================= bookkeeping

def nontrivial(case, obs):
    k = case["kind"]
    if k == "ser":
        s = json.dumps(obs.get("seen"))
        return obs.get("n_shared", 0) > 0 or s.count("[") > 6
    if k == "cleanup":
        return "flows" in obs and 0 < len(obs["flows"]) < len(case["flows"])
    if k == "tokens":
        return True
    if k == "rails":
        return "live" in obs and sum(1 for o in obs["live"] if o and not isinstance(o, str)) >= 2
    if k == "api":
        # at least two turns answered, at least one local action ran, and at least three attempts really failed part-way
        return ("skip" not in obs and "live_failed" not in obs and sum(1 for o in obs["live"] if o and o[0].get("content")) >= 2
                and sum(obs["actions"]) >= 1 and obs["n_failed"] >= 3)
    return "skip" not in obs and obs.get("nonempty", 0) >= 2 and obs.get("max_flows", 0) >= 3


def tags(case, obs):
    k = case["kind"]
    t = ["kind:" + k]
    if k == "ser":
        t.append("bad:" + str(case.get("bad")))
        t.append("enc:" + obs.get("enc_exc", "ok"))
        if "dec_exc" in obs:
            t.append("dec:" + obs["dec_exc"])
        t.append("shared:" + str(min(obs.get("n_shared", 0), 4)))
        if obs.get("aliased_lists"):
            t.append("aliased-list")
        if "enc" in obs:
            t.append("json-level-compared")
        if "enc_refs" in obs:
            t.append("refs-json-compared")
        if obs.get("root_state"):
            t.append("root:State")
        um = pv.unmodelled(obs.get("seen"))
        if um:
            t.append("oracle-only:" + um)
        sj = json.dumps(obs.get("seen"))
        for name, pat in (("float:nan", '"f": "nan"'), ("float:inf", '"f": "inf"'), ("float:-inf", '"f": "-inf"'), ("float:-0", '"f": "-0"'), ("surrogate", '"su"'), ("float-key", '"F"')):
            if pat in sj:
                t.append("dom:" + name)
        if re.search(r'"i": -?\d{20,}', sj):
            t.append("dom:bigint")
        if sj.count("[") > 150 and max_depth(obs.get("seen")) >= 20:
            t.append("dom:deep>=20")
    elif k == "cleanup":
        if "exc" in obs:
            t.append("exc:" + obs["exc"])
        else:
            t.append("removed:" + str(min(len(case["flows"]) - len(obs["flows"]), 4)))
            if any(abs(-f["updated"] - AGE_US) <= 1 for f in case["flows"]):
                t.append("boundary-age")
    elif k == "tokens":
        t.extend("token:" + str(r.get("token")) for r in obs["rows"])
    elif k == "rails":
        t.append("rails-turns:" + str(len(case["turns"])))
        if "skip" in obs:
            t.append("skip:" + obs["skip"][:40])
    elif k == "api":
        if "skip" in obs:
            t.append("skip:" + obs["skip"][:40])
        elif "live_failed" in obs:
            t.append("api-live-failed")
        else:
            t.append("api-turns:" + str(len(case["turns"])))
            t.append("api-calls:" + str(obs["n_calls"] // 50 * 50))
            t.append("api-actions:" + str(min(sum(obs["actions"]), 4)))
            t.append("api-await-points:" + str(sum(obs["awaits"]) // 20 * 20))
            for fk, c in obs["fail_kinds"].items():
                t.append("api-fail:" + fk)
            for f in sorted(set(s0["family"] for s0 in obs["steps"])):
                t.append("api-family:" + f)
            for f in case.get("features", []):
                t.append("api-feat:" + f)
    else:
        if "skip" in obs:
            t.append("skip:" + obs["skip"].split(":")[1])
        else:
            t.append("cuts:" + str(min(obs["cuts"], 25) // 5 * 5))
            t.append("flows:" + str(min(obs["max_flows"], 12) // 3 * 3))
            t.append("aged-removed:" + str(min(obs["removed_by_ageing"], 5)))
            if obs.get("aged_rel_checked"):
                t.append("aged-relation-checked")
            if obs.get("aged_rel_error"):
                t.append("aged-relation-summary-error")
            if obs.get("aged_rel_skipped_i2"):
                t.append("aged-relation-skipped:parent-of-activated-discardable")
            for f in case.get("features", []):
                t.append("feat:" + f)
            for p in obs["problems"][:1]:
                t.append("problem:" + p["what"])
    return t


def shrink(case):
    if case["kind"] == "e2e":
        h = case["history"]
        for i in range(len(h)):
            if len(h) > 1:
                yield dict(case, history=h[:i] + h[i + 1:])
        # only statements of `main` that do not wait are dropped (dropping a `match` can create a flow that
        # restarts without ever waiting, i.e. a non-terminating program: C10 territory, not C11)
        lines = case["src"].split("\n")
        start = lines.index("flow main") if "flow main" in lines else len(lines)
        for i, l in enumerate(lines):
            if i > start and re.match(r"  (\$|send |start |activate )", l):
                yield dict(case, src="\n".join(lines[:i] + lines[i + 1:]))
    elif case["kind"] == "api":
        yield from api.shrink_api(case)
    elif case["kind"] == "cleanup":
        fl = case["flows"]
        for i in range(len(fl)):
            if len(fl) > 1:
                rest = fl[:i] + fl[i + 1:]
                idx = {}
                for f in rest:
                    idx.setdefault(f["flow_id"], []).append(f["uid"])
                yield dict(case, flows=rest, idx=[[k, v] for k, v in idx.items()])
    elif case["kind"] == "ser":
        v = case["v"]
        if isinstance(v, dict):
            for t in ("l", "t", "q", "S"):
                if t in v:
                    for i in range(len(v[t])):
                        yield dict(case, v={t: v[t][:i] + v[t][i + 1:]})
                    for x in v[t]:
                        yield dict(case, v=x)
            if "d" in v:
                for i in range(len(v["d"])):
                    yield dict(case, v={"d": v["d"][:i] + v["d"][i + 1:]})
                for _, x in v["d"]:
                    yield dict(case, v=x)
            if "D" in v:
                for _, x in v["D"][1]:
                    if isinstance(x, dict):
                        yield dict(case, v=x)
