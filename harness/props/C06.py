"""C06 — flow and action lifetimes are bounded by the parent flow.

Tie: record/replay.  Generated flow hierarchies (start / await / activate / when / and-or groups, explicit
Stop/FinishFlow, deactivate, early-restart label) are run through the REAL Colang 2.x interpreter with event
histories in which action Started/Finished events arrive late, early, twice or never.  `_abort_flow`,
`_finish_flow`, the `EndScope` branch of `slide` (hooked through the `scopes.pop` it performs),
`_update_action_status_by_event`, the `StartFlow` branch of `_process_internal_events_without_default_matchers`,
the `start_new_flow_instance` label and the end-of-flow decision of `_advance_head_front` are wrapped; the
abstract state before every OUTERMOST call is fed to the Lean model `Models/Lifetime.lean` through the
driver and the model's post-state is compared with the real one.

Oracle: written from the property statement on the real `State` / `outgoing_events` over the whole history,
independent of the model (see `oracle`).
"""
import contextlib
import io
import json
import os
import random

PROPERTY = "C06"
CASE_TIMEOUT = 300  # s of wall clock per case in pool workers (runner watchdog): a case that spins forever is a verdict, not exit 2
THEOREM_MODULE = "NemoVerif.Theorems.C06"
RULE = ("program: main + 1..5 flows in a call DAG (each flow either only activated or only started/awaited), bodies from "
        "match / start action / await action / start|await|activate flow / and-or groups / when-or when-else / abort / "
        "StopFlow / FinishFlow / deactivate / early-restart label, nesting depth <= 4, 15 % with a conflict cluster (2-3 flows matching the same event and then "
        "starting an action), 8 % of the programs with >= 2 activated flows mutually activating, 35 % with a dying-sender race cluster "
        "(two flows waiting for the same event: one ends the other's parent / the other itself - awaited by reference, or-group, when, StopFlow, FinishFlow, "
        "failing - while the other queues activate / start / await / an action; twin activators ending with the activated flow; hand-over between two activators), 25 % of the programs with an activated flow give one of them a parameter (activated with two values, positionally or by name); history: 3..10 (quick) / up to 30 "
        "(thorough) items drawn from plain events and action Started/Finished events for already started actions "
        "(late, duplicated, after Stop, or never), race programs in 60 % with the race event followed later by the event that ends the holder of the activation, "
        "20 % of the histories with clock ticks > 5 s (clean-up of ended instances runs inside the history). non-trivial = at least one recorded outermost abort/finish call whose "
        "instance had a child or an action; distinct = distinct (program, history) JSON.")
TRUSTED_BASE = [
    "record/replay harness harness/props/C06.py (monkeypatched wrappers, abstract-state snapshot, uid renaming) + Lean driver Drive/C06.lean",
    "Python `in` substring tests of Action.process_event and the parameter comparison of _get_reference_activated_flow_instance are shipped to the model as oracle tables",
    "the statement-by-statement reading of _abort_flow/_finish_flow/EndScope into Models/Lifetime.lean (tied by replay of every outermost call)",
]
ASSUMPTIONS = [
    "heads abstracted to their number; event-matching index not modelled (C09)",
    "at most one activated flow per program has a parameter (one positional string argument); flows without @meta tags (no *_LOG events); action names end in 'Action' and contain neither 'Start' nor 'Stop'",
    "each action instance is started by exactly one `send $ref.Start()` element (programs built from start/await/activate/when/groups)",
    "external events are plain events or <Action>Started/<Action>Finished events for action uids the interpreter emitted",
    "clean-up of old instances runs only where a history has a clock tick (20 % of the histories); the stretch of a trace across a clean-up is not replayed by the operation machine",
]

EVENTS = ["E0", "E1", "E2"]
SCRIPTS = ["s0", "s1"]
MAX_STEPS_GUARD = 3000
MAX_RECORDS = 250


# ============================================================================= generator

def _g_target(rng, subs, acts_ok=True):
    """an awaitable thing: ('act', script) | ('flow', name) | ('ev', name)"""
    r = rng.random()
    if subs and r < 0.45:
        return ["flow", rng.choice(subs)]
    if r < 0.8:
        return ["act", rng.choice(SCRIPTS)]
    return ["ev", rng.choice(EVENTS)]


def _g_stmts(rng, subs, actv, depth, in_act, waited):
    """list of statements; `waited` tracks whether the flow has certainly waited before (for abort safety)."""
    n = rng.choice([1, 2, 2, 3, 3, 4])
    out = []
    for _ in range(n):
        r = rng.random()
        if r < 0.2:
            out.append(["match", rng.choice(EVENTS)])
            waited = True
        elif r < 0.32:
            out.append(["start_act", rng.choice(SCRIPTS)])
        elif r < 0.40:
            out.append(["await_act", rng.choice(SCRIPTS)])
            waited = True
        elif r < 0.52 and subs:
            out.append(["start", rng.choice(subs)])
        elif r < 0.60 and subs:
            out.append(["await", rng.choice(subs)])
        elif r < 0.70 and actv:
            out.append(["activate", rng.choice(actv)])
        elif r < 0.78:
            k = rng.choice(["and", "or"])
            a, b = _g_target(rng, subs), _g_target(rng, subs)
            if a[0] == "ev" or b[0] == "ev":
                out.append(["match_group", k, rng.choice(EVENTS), rng.choice(EVENTS)])
                waited = True
            else:
                out.append([rng.choice(["await_group", "start_group"]), k, a, b])
        elif r < 0.88 and depth > 0:
            cases = []
            for _c in range(rng.choice([1, 2, 2])):
                tg = _g_target(rng, subs)
                cases.append([tg, _g_stmts(rng, subs, actv, depth - 1, in_act, waited or tg[0] != "flow")])
            els = _g_stmts(rng, subs, actv, depth - 1, in_act, waited) if rng.random() < 0.3 else None
            out.append(["when", cases, els])
        elif r < 0.91 and (subs or actv):
            out.append([rng.choice(["stopflow", "finishflow"]), rng.choice(subs + actv)])
        elif r < 0.94 and actv:
            out.append(["deactivate", rng.choice(actv)])
        elif r < 0.96 and waited:
            out.append(["abort"])
            break
        elif r < 0.97 and in_act and waited:
            out.append(["restart_label"])
        else:
            out.append(["match", rng.choice(EVENTS)])
            waited = True
    return out


def gen_program(rng):
    n = rng.choice([1, 2, 2, 3, 3, 4, 5])
    names = [f"f{i}" for i in range(n)]
    kinds = {nm: ("act" if rng.random() < 0.4 else "sub") for nm in names}
    flows = {}
    for i, nm in enumerate(names):
        later = names[i + 1:]
        subs = [x for x in later if kinds[x] == "sub"]
        actv = [x for x in later if kinds[x] == "act"]
        flows[nm] = _g_stmts(rng, subs, actv, 2, kinds[nm] == "act", False)
    subs = [x for x in names if kinds[x] == "sub"]
    actv = [x for x in names if kinds[x] == "act"]
    body = _g_stmts(rng, subs, actv, 2, False, False)
    # make sure main uses something and usually never ends
    if names and not any(st[0] in ("start", "await", "activate", "when", "await_group", "start_group") for st in body):
        nm = rng.choice(names)
        body.insert(0, ["activate", nm] if kinds[nm] == "act" else ["start", nm])
    # main usually ends during the history (its end aborts everything it started); sometimes it never does
    body.append(["match", "Never"] if rng.random() < 0.3 else ["match", rng.choice(EVENTS)])
    flows["main"] = body
    prog = {"flows": flows, "kinds": kinds}
    # conflict cluster: several flows (often a flow and one it starts) wait for the same event and then start an action —
    # the same one in 70 % (co-win: shared action), a different one otherwise (a loser is aborted with its children
    # while the other heads of the same round are still being resolved)
    if len(names) >= 2 and rng.random() < 0.15:
        e = rng.choice(EVENTS)
        members = rng.sample(names, min(len(names), rng.choice([2, 3])))
        same = rng.choice(SCRIPTS)
        for nm in members:
            sc = same if rng.random() < 0.7 else rng.choice(SCRIPTS)
            pos = rng.randrange(0, min(2, len(flows[nm])) + 1)
            flows[nm][pos:pos] = [["match", e], ["start_act", sc]]
        prog["cluster"] = members
    # mutually activating flows (activation cycle): the call graph is no longer a DAG
    if len(actv) >= 2 and rng.random() < 0.08:
        x, y = rng.sample(actv, 2)
        flows[x].insert(rng.randrange(0, 2), ["activate", y])
        flows[y].insert(rng.randrange(0, len(flows[y]) + 1), ["activate", x])
        if not any(st == ["activate", x] or st == ["activate", y] for st in _walk(body)):
            body.insert(0, ["activate", x])
        prog["cycle"] = [x, y]
    if rng.random() < 0.35:
        _g_race(rng, prog)
    _g_params(rng, prog)
    return prog


def _g_params(rng, prog):
    """25 % of the programs with an activated flow: one activated flow gets a parameter `$p`; every `activate` of it passes "u" (70 %)
    or "v" - each value has its own reference instance (`_get_reference_activated_flow_instance` compares the parameters),
    activators of different values must not share an instance, activators of the same value must."""
    kinds = prog["kinds"]
    cand = [n for n in prog["flows"] if kinds.get(n) == "act" and n not in prog.get("cycle", [])]
    if not cand or rng.random() >= 0.25:
        return
    a = rng.choice(cand)
    n = 0
    for body in prog["flows"].values():
        for st in _walk(body):
            if st[0] == "activate" and st[1] == a and len(st) == 2:
                st.append("u" if rng.random() < 0.7 else "v")
                st.append(rng.choice(["pos", "pos", "named"]))   # `activate a "u"` / `activate a(p="u")`: the same reference instance
                n += 1
    if n:
        prog["params"] = [a]


def _g_race(rng, prog):
    """dying-sender race: two flows wait for the SAME event; one of them (the killer) thereby ends the other one's
    parent (it finishes while the parent awaits it / an or-group or `when` scope closes / it stops the parent
    explicitly), the other one (the sender) executes a statement that only QUEUES an internal event at that moment
    (`activate` of a flow that may already be activated by a living flow, `start` / `await` of a flow, start of an
    action).  Depending on the order in which the interpreter advances the two heads the sender is dead when its
    queued event is processed.  Also: two activators of the same flow that end on the event on which the activated
    flow itself ends (restart queued while the last activator disappears)."""
    flows, kinds = prog["flows"], prog["kinds"]
    names = [n for n in flows if n != "main"]
    # host: main or an existing started flow starts the wrapper; the flows the sender refers to come later in the call DAG
    host = rng.choice(["main"] + [n for n in names if kinds[n] == "sub" and rng.random() < 0.5])
    later = names if host == "main" else names[names.index(host) + 1:]
    subs = [x for x in later if kinds[x] == "sub"]
    actv = [x for x in later if kinds[x] == "act"]
    e = rng.choice(EVENTS)
    tag = f"r{len(names)}"
    rk, rs, rt = tag + "k", tag + "s", tag + "t"
    r = rng.random()
    new = {}
    if r < 0.55 or not subs:
        if actv and rng.random() < 0.7:
            a = rng.choice(actv)
        else:
            a = tag + "a"
            new[a] = [rng.choice([["match", rng.choice(EVENTS)], ["start_act", rng.choice(SCRIPTS)]]), ["match", rng.choice(EVENTS)]]
            kinds[a] = "act"
        x = ["activate", a]
    elif r < 0.85:
        a = None
        x = [rng.choice(["start", "await"]), rng.choice(subs)]
    else:
        a = None
        x = ["start_act", rng.choice(SCRIPTS)]
    form = rng.choice(["ref", "ref", "ref", "ref", "or", "await", "when", "stop", "stop", "fin", "fin", "twin", "handover", "handover", "handover"])
    if form in ("twin", "handover") and a is None:
        form = "ref"
    tail = [["match", rng.choice(EVENTS + ["Never"])]]
    if rng.random() < 0.3:
        tail = [["start_act", rng.choice(SCRIPTS)]] + tail
    killer = [["match", e]]
    sender = [["match", e], x] + tail
    if form == "twin":
        # both activate `a` and end on `e`; `a` itself ends on `e` too
        killer = [["activate", a], ["match", e]]
        sender = [["activate", a], ["match", e]]
        body = new.get(a, flows.get(a))
        body.append(["match", e])
        tie = [["start", rk], ["start", rs]] if rng.random() < 0.5 else [["start", rs], ["start", rk]]
        tie.append(["match", rng.choice(EVENTS + ["Never"])])
    elif form == "handover":
        # two activators of `a`; the one that started it (its parent) ends first, the other one holds it on and ends later —
        # with a clock tick in between the ended parent is old enough to be cleaned up while `a` still points to it
        end2 = rng.choice([v for v in EVENTS if v != e])
        killer = [["activate", a], ["match", e]]
        sender = [["activate", a], ["match", end2]]
        tie = [["start", rk], ["start", rs], ["match", "Never"]]
    elif form == "ref":
        first = [["start_as", rk, "k"], ["start", rs]]
        if rng.random() < 0.25:
            first.reverse()
        if rng.random() < 0.25:
            killer = [["match", e], ["abort"]]   # the awaited flow FAILS: the awaiting parent fails with it
        tie = first + [["match_fin", "k"]]
    elif form == "or":
        pair = [["flow", rk], ["flow", rs]]
        if rng.random() < 0.4:
            pair.reverse()
        tie = [["await_group", "or"] + pair]
    elif form == "await":
        tie = [["start", rs], ["await", rk]]
    elif form == "when":
        cs = [[["flow", rk], [["match", rng.choice(EVENTS)]]], [["flow", rs], [["match", rng.choice(EVENTS)]]]]
        if rng.random() < 0.4:
            cs.reverse()
        tie = [["when", cs, None]]
    else:  # "stop": the killer stops the sender's parent explicitly
        # (the parent, or the sender itself; stopped, or FINISHED from outside)
        verb, tgt = (rng.choice(["stopflow", "finishflow"]), rng.choice([rt, rs])) if form == "stop" else ("finishflow", rs)
        killer = [["match", e], [verb, tgt], ["match", "Never"]]
        tie = [["start", rs], ["match", "Never"]]
    new[rk], new[rs] = killer, sender
    kinds[rk] = kinds[rs] = kinds[rt] = "sub"
    if rng.random() < 0.3 and form not in ("stop", "fin", "handover"):
        tie = tie + [["match", rng.choice(EVENTS)]]
    new[rt] = tie
    # a living flow usually holds the activation already
    ins = [["start", rt]]
    if form in ("stop", "fin"):
        ins = [["start", rk], ["start", rt]] if rng.random() < 0.6 else [["start", rt], ["start", rk]]
    end = None
    if form == "handover":
        end = end2
    elif a is not None and rng.random() < 0.9:
        if rng.random() < 0.6:
            # a flow of its own holds the activation and ends on another event: the genuine (last) activator
            end = rng.choice([v for v in EVENTS if v != e])
            rh = tag + "h"
            new[rh] = [["activate", a], ["match", end]]
            kinds[rh] = "sub"
            flows["main"].insert(0, ["start", rh])
        else:
            flows[rng.choice(["main", host])].insert(0, ["activate", a])
    hb = flows[host]
    pos = rng.randrange(0, min(2, len(hb)) + 1)
    hb[pos:pos] = ins
    # the new flows go BEFORE main (rendering order is irrelevant to the interpreter, `main` stays last for readability)
    main = flows.pop("main")
    flows.update(new)
    flows["main"] = main
    prog["race"] = {"form": form, "event": e, "x": x, "end": end}


def _used_events(prog):
    """event names the program waits for (drawn more often, so that flows actually advance and end)"""
    ev = []
    for body in prog["flows"].values():
        for st in _walk(body):
            if st[0] == "match" and st[1] in EVENTS:
                ev.append(st[1])
            elif st[0] == "match_group":
                ev += [x for x in st[2:4] if x in EVENTS]
            elif st[0] == "when":
                ev += [t[1] for t, _b in st[1] if t[0] == "ev"]
    return ev


def gen_history(rng, tier, prog=None):
    n = rng.randrange(5, 13) if tier == "quick" else rng.randrange(3, 31)
    used = _used_events(prog) if prog else []
    h = []
    for _ in range(n):
        r = rng.random()
        if r < 0.25:
            # schedule-directed: the k-th plain event some head is waiting for at that moment (resolved at run time)
            h.append({"auto": rng.randrange(0, 6)})
        elif r < 0.55:
            h.append({"ev": rng.choice(used) if used and rng.random() < 0.7 else rng.choice(EVENTS)})
        elif r < 0.85:
            h.append({"act": "Finished", "k": rng.randrange(0, 6), "pick": rng.choice(["any", "live", "stopped"])})
        else:
            h.append({"act": "Started", "k": rng.randrange(0, 6), "pick": rng.choice(["any", "live", "stopped"])})
    if rng.random() < 0.2:
        # let the interpreter's clock pass the 5 s after which ended instances are cleaned up (once or twice per history)
        for _ in range(rng.choice([1, 1, 2])):
            h.insert(rng.randrange(1, len(h) + 1), {"tick": rng.choice([6, 6, 20])})
    race = (prog or {}).get("race")
    if race and rng.random() < 0.6:
        # the race event, later the event that ends the flow holding the activation (if there is one), then some more
        i = rng.randrange(0, len(h) + 1)
        h.insert(i, {"ev": race["event"]})
        j = rng.randrange(i + 1, len(h) + 1)
        h.insert(j, {"ev": race.get("end") or rng.choice(EVENTS)})
        if rng.random() < (0.8 if race["form"] == "handover" else 0.25):
            h.insert(rng.randrange(i + 1, j + 1), {"tick": rng.choice([6, 20])})   # the clean-up runs when the next event arrives
        h.append({"ev": rng.choice(used) if used else rng.choice(EVENTS)})
    return h


def gen_cases(rng, tier):
    n = 300 if tier == "quick" else 8000
    cases = []
    for _ in range(n):
        prog = gen_program(rng)
        cases.append({"kind": "e2e", "prog": prog, "hist": gen_history(rng, tier, prog), "seed": rng.randrange(1 << 30)})
    return cases


# ----------------------------------------------------------------------------- rendering

def _r_target(t):
    if t[0] == "flow":
        return t[1]
    if t[0] == "act":
        return f'UtteranceBotAction(script="{t[1]}")'
    return f"{t[1]}()"


def _render(stmts, ind, out):
    p = "  " * ind
    for st in stmts:
        k = st[0]
        if k == "match":
            out.append(f"{p}match {st[1]}()")
        elif k == "start_act":
            out.append(f'{p}start UtteranceBotAction(script="{st[1]}")')
        elif k == "await_act":
            out.append(f'{p}await UtteranceBotAction(script="{st[1]}")')
        elif k == "activate" and len(st) > 2:
            out.append(f'{p}activate {st[1]}(p="{st[2]}")' if st[3:] == ["named"] else f'{p}activate {st[1]} "{st[2]}"')
        elif k in ("start", "await", "activate", "deactivate"):
            out.append(f"{p}{k} {st[1]}")
        elif k == "match_group":
            out.append(f"{p}match {st[2]}() {st[1]} {st[3]}()")
        elif k == "await_group":
            out.append(f"{p}await {_r_target(st[2])} {st[1]} {_r_target(st[3])}")
        elif k == "start_group":
            out.append(f"{p}start {_r_target(st[2])} {st[1]} {_r_target(st[3])}")
        elif k == "when":
            for i, (t, body) in enumerate(st[1]):
                out.append(f"{p}{'when' if i == 0 else 'or when'} {_r_target(t)}")
                _render(body, ind + 1, out)
            if st[2] is not None:
                out.append(f"{p}else")
                _render(st[2], ind + 1, out)
        elif k == "stopflow":
            out.append(f'{p}send StopFlow(flow_id="{st[1]}")')
        elif k == "finishflow":
            out.append(f'{p}send FinishFlow(flow_id="{st[1]}")')
        elif k == "abort":
            out.append(f"{p}abort")
        elif k == "restart_label":
            out.append(f"{p}start_new_flow_instance:")
        elif k == "start_as":
            out.append(f"{p}start {st[1]} as ${st[2]}")
        elif k == "match_fin":
            out.append(f"{p}match ${st[1]}.Finished()")
        else:
            raise ValueError(k)


def render_program(prog):
    out = []
    for nm, body in prog["flows"].items():
        out.append(f"flow {nm} $p" if nm in prog.get("params", []) else f"flow {nm}")
        _render(body, 1, out)
        out.append("")
    return "\n".join(out)


# ============================================================================= implementation (record)

_SM = None
REC = None


class _RecList(list):
    """records are numbered in the order of their START so that consecutive ones can be paired"""
    def append(self, rec):
        rec.setdefault("seq", len(self))
        if REC is not None:
            rec.setdefault("step", REC.step)
        list.append(self, rec)


class _Rec:
    def __init__(self):
        self.depth = 0
        self.records = _RecList()       # outermost calls of the modelled functions
        self.pending = None     # EndScope / label restart in progress: dict
        self.end_pending = None  # head reached end of flow: waiting for the decision
        self.ends = []
        self.guard = 0
        self.activations = []   # executed `activate` statements: {"step", "src", "fid"}
        self.step = 0


def _canon(x):
    return json.dumps(x, sort_keys=True, default=str)


def snap(state):
    flows = []
    for uid, f in state.flow_states.items():
        flows.append({
            "uid": uid, "fid": f.flow_id, "parent": f.parent_uid, "children": list(f.child_flow_uids),
            "status": f.status.name, "activated": int(f.activated), "nis": bool(f.new_instance_started),
            "actions": list(f.action_uids), "scopes": [[n, list(v[0]), list(v[1])] for n, v in f.scopes.items()],
            "heads": len(f.heads), "main": f.flow_id == "main", "args": _canon(f.arguments),
        })
    actions = [{"uid": u, "status": a.status.name, "count": a.flow_scope_count, "name": a.name} for u, a in state.actions.items()]
    return {"flows": flows, "actions": actions, "queue": list(state.internal_events), "out": list(state.outgoing_events)}


def _abs_queue(pre_q, post_q):
    ids = {id(e): i for i, e in enumerate(pre_q)}
    out = []
    for e in post_q:
        if id(e) in ids:
            out.append({"k": "old", "i": ids[id(e)]})
            continue
        a = e.arguments
        if e.name in ("FlowFailed", "FlowFinished", "FlowStarted"):
            out.append({"k": e.name, "uid": a.get("source_flow_instance_uid")})
        elif e.name == "StartFlow":
            rest = {k: v for k, v in a.items() if k not in ("flow_instance_uid", "flow_id", "source_flow_instance_uid", "source_head_uid", "flow_hierarchy_position", "activated")}
            out.append({"k": "StartFlow", "fid": a.get("flow_id"), "source": a.get("source_flow_instance_uid"), "activated": int(a.get("activated") or 0), "rest": _canon(rest)})
        else:
            out.append({"k": "other:" + e.name})
    return out


def _abs_out(pre_o, post_o):
    ids = {id(e): i for i, e in enumerate(pre_o)}
    out = []
    for e in post_o:
        if id(e) in ids:
            out.append({"k": "old", "i": ids[id(e)]})
        elif e.get("type", "").startswith("Stop") and "action_uid" in e:
            out.append({"k": "Stop", "action": e["action_uid"], "type": e["type"]})
        elif e.get("type", "").startswith("Start") and "action_uid" in e:
            out.append({"k": "Start", "action": e["action_uid"], "type": e["type"]})
        else:
            out.append({"k": "other:" + str(e.get("type"))})
    return out


def _strip(s):
    """JSON-able version of a snapshot (queue/out replaced by their lengths)."""
    return {"flows": s["flows"], "actions": s["actions"], "nq": len(s["queue"]), "nout": len(s["out"])}


def _post(pre, post):
    return {"flows": post["flows"], "actions": post["actions"], "queue": _abs_queue(pre["queue"], post["queue"]), "out": _abs_out(pre["out"], post["out"])}


def _install():
    """Monkeypatch the modelled functions of the statemachine module (once per worker process)."""
    sm = _SM
    if getattr(sm, "_verif_c06_installed", False):
        return
    sm._verif_c06_installed = True
    o_abort, o_finish, o_slide = sm._abort_flow, sm._finish_flow, sm.slide
    o_update, o_proc, o_add = sm._update_action_status_by_event, sm._process_internal_events_without_default_matchers, sm.add_new_flow_instance
    o_changed, o_pushleft = sm._flow_head_changed, sm._push_left_internal_event
    from nemoguardrails.colang.v2_x.runtime.flows import FlowHeadStatus

    def resolve_end(R, what, uid):
        ep = R.end_pending
        if ep is None:
            return
        R.end_pending = None
        fs, head = ep["_fs"], ep["_head"]
        act = "park"
        if what in ("finish", "abort") and uid == ep["uid"]:
            act = what
        R.ends.append({"uid": ep["uid"], "status": ep["status"], "activated": ep["activated"], "act": act,
                       "status_after": fs.status.name, "head_inactive": head.status == FlowHeadStatus.INACTIVE,
                       "started_pushed": None if act == "park" else any(e.name == "FlowStarted" and e.arguments.get("source_flow_instance_uid") == ep["uid"] and id(e) not in ep["_qids"] for e in ep["_state"].internal_events)})

    def outer(op, orig):
        # `*extra`: a repaired `_abort_flow` may thread further arguments through its recursion (visited set)
        def w(state, flow_state, matching_scores, deactivate_flow=False, *extra):
            R = REC
            if R is None:
                return orig(state, flow_state, matching_scores, deactivate_flow, *extra)
            if R.depth > 0:
                return orig(state, flow_state, matching_scores, deactivate_flow, *extra)
            resolve_end(R, op, flow_state.uid)
            if len(R.records) >= MAX_RECORDS:
                return orig(state, flow_state, matching_scores, deactivate_flow, *extra)
            pre = snap(state)
            R.depth += 1
            exc = None
            try:
                return orig(state, flow_state, matching_scores, deactivate_flow, *extra)
            except BaseException as e:
                exc = type(e).__name__
                raise
            finally:
                R.depth -= 1
                R.records.append({"op": op, "uid": flow_state.uid, "d": bool(deactivate_flow), "pre": _strip(pre),
                                  "post": None if exc else _post(pre, snap(state)), "exc": exc})
        return w

    sm._abort_flow = outer("abort", o_abort)
    sm._finish_flow = outer("finish", o_finish)

    class ScopesDict(dict):
        _state = None
        _uid = None

        def pop(self, name, *a):
            R = REC
            if R is not None and R.depth == 0 and self._state is not None and name in self and len(R.records) < MAX_RECORDS:
                R.pending = {"op": "endscope", "uid": self._uid, "name": name, "_pre": snap(self._state), "_state": self._state}
                R.depth += 1
            return dict.pop(self, name, *a)

    def w_add(state, flow_state):
        if REC is not None and not isinstance(flow_state.scopes, ScopesDict):
            sd = ScopesDict(flow_state.scopes)
            sd._state, sd._uid = state, flow_state.uid
            flow_state.scopes = sd
        return o_add(state, flow_state)

    sm.add_new_flow_instance = w_add

    def finish_pending(R, exc=None):
        p = R.pending
        R.pending = None
        R.depth -= 1
        rec = {"op": p["op"], "uid": p["uid"], "pre": _strip(p["_pre"]), "exc": exc,
               "post": None if exc else _post(p["_pre"], snap(p["_state"]))}
        if "name" in p:
            rec["name"] = p["name"]
        R.records.append(rec)

    def w_changed(state, flow_state, head):
        R = REC
        if R is not None and R.pending is not None and R.pending["uid"] == flow_state.uid and R.depth == 1:
            finish_pending(R)
        return o_changed(state, flow_state, head)

    sm._flow_head_changed = w_changed

    def w_pushleft(state, event):
        R = REC
        if R is not None and R.depth == 0 and R.pending is None and event.name == "StartFlow" and len(R.records) < MAX_RECORDS:
            # only the `start_new_flow_instance` label pushes left outside _abort_flow/_finish_flow
            R.pending = {"op": "label", "uid": event.arguments.get("source_flow_instance_uid"), "_pre": snap(state), "_state": state}
            R.depth += 1
        return o_pushleft(state, event)

    sm._push_left_internal_event = w_pushleft
    o_push = sm._push_internal_event

    def w_push(state, event):
        # history of executed `activate` statements (the `send StartFlow(activated=True)` element of `slide`): who
        # activated which flow, recorded when the statement is EXECUTED, independent of what is later done with it
        R = REC
        if R is not None and getattr(event, "name", None) == "StartFlow":
            a = event.arguments
            src = a.get("source_flow_instance_uid")
            if a.get("activated", None) and src in state.flow_states and state.flow_states[src].flow_id != a.get("flow_id"):
                R.activations.append({"step": R.step, "src": src, "fid": a.get("flow_id"), "arg": a.get("$0", a.get("p"))})
        return o_push(state, event)

    sm._push_internal_event = w_push

    def w_slide(state, flow_state, flow_config, head):
        R = REC
        if R is None:
            return o_slide(state, flow_state, flow_config, head)
        R.guard += 1
        if R.guard > MAX_STEPS_GUARD:
            raise _Runaway()
        resolve_end(R, "slide", None)
        try:
            res = o_slide(state, flow_state, flow_config, head)
        except _Runaway:
            raise
        except BaseException as e:
            if R.pending is not None:
                finish_pending(R, type(e).__name__)
            raise
        if R.pending is not None:   # should not happen: the position setter fires right after
            finish_pending(R, "unfinished")
        if head.position >= len(flow_config.elements) and R.depth == 0:
            R.end_pending = {"uid": flow_state.uid, "status": flow_state.status.name, "activated": int(flow_state.activated),
                             "_fs": flow_state, "_head": head, "_state": state, "_qids": {id(e) for e in state.internal_events}}
        return res

    sm.slide = w_slide

    def w_update(state, event):
        R = REC
        if R is None or R.depth > 0:
            return o_update(state, event)
        R.guard += 1
        if R.guard > MAX_STEPS_GUARD:
            raise _Runaway()
        if len(R.records) >= MAX_RECORDS:
            return o_update(state, event)
        pre = snap(state)
        R.depth += 1
        try:
            return o_update(state, event)
        finally:
            R.depth -= 1
            n = event.name
            R.records.append({"op": "update", "pre": _strip(pre), "post": _post(pre, snap(state)), "exc": None,
                              "ev": {"auid": event.action_uid, "isAction": "Action" in n, "started": "ActionStarted" in n,
                                     "updated": "ActionUpdated" in n, "finished": "ActionFinished" in n, "start": "Start" in n, "stop": "Stop" in n}})

    sm._update_action_status_by_event = w_update

    def params_match(state, flow_id, inst, event):
        from nemoguardrails.colang.v2_x.runtime.eval import eval_expression
        for idx, arg in enumerate(state.flow_configs[flow_id].parameters):
            val = inst.arguments[arg.name]
            matched = arg.name in event.arguments and val == event.arguments[arg.name]
            matched |= f"${idx}" in event.arguments and val == event.arguments[f"${idx}"]
            matched |= (arg.name not in event.arguments and f"${idx}" not in event.arguments and arg.default_value_expr is not None
                        and val == eval_expression(arg.default_value_expr, {}))
            if not matched:
                return False
        return True

    def w_proc(state, event):
        R = REC
        if R is not None:
            R.guard += 1
            if R.guard > MAX_STEPS_GUARD:
                raise _Runaway()
        if R is None or R.depth > 0 or event.name != "StartFlow" or len(R.records) >= MAX_RECORDS:
            return o_proc(state, event)
        resolve_end(R, "proc", None)
        pre = snap(state)
        a = event.arguments
        fid = a.get("flow_id")
        info = {"fid": fid, "known": fid in state.flow_configs and fid != "main", "act": bool(a.get("activated", None)),
                "hasInst": fid in state.flow_id_states, "source": a.get("source_flow_instance_uid")}
        try:
            info["pm"] = [fs.uid for fs in state.flow_id_states.get(fid, []) if params_match(state, fid, fs, event)]
        except Exception:  # noqa
            info["pm"] = None
        n_before = len(state.flow_states)
        R.depth += 1
        exc = None
        try:
            return o_proc(state, event)
        except BaseException as e:
            exc = type(e).__name__
            raise
        finally:
            R.depth -= 1
            post = snap(state)
            if exc is None:
                if len(state.flow_states) > n_before:
                    res = {"r": "create", "source": event.arguments.get("source_flow_instance_uid"), "new_uid": a.get("flow_instance_uid")}
                    # the new instance is not part of the abstract pre-state: drop it from the comparison
                    post["flows"] = [f for f in post["flows"] if f["uid"] != a.get("flow_instance_uid")]
                elif any(f1["activated"] > f0["activated"] for f0, f1 in zip(pre["flows"], post["flows"])):
                    inst = [f1["uid"] for f0, f1 in zip(pre["flows"], post["flows"]) if f1["activated"] > f0["activated"]]
                    res = {"r": "reused", "inst": inst[0]}
                else:
                    res = {"r": "ignored"}
            R.records.append({"op": "startflow", "pre": _strip(pre), "post": None if exc else _post(pre, post), "exc": exc,
                              "info": info, "res": None if exc else res})

    sm._process_internal_events_without_default_matchers = w_proc


class _Runaway(BaseException):
    """raised by the step guard; BaseException so that the interpreter's own `except Exception` cannot swallow it"""


def worker_init():
    global _SM
    from nemoguardrails.colang.v2_x.runtime import statemachine as sm

    _SM = sm
    import logging

    logging.getLogger("nemoguardrails").setLevel(logging.CRITICAL)
    sm.log.setLevel(logging.CRITICAL)
    _install()


def _flows_obs(state):
    return [{"uid": u, "fid": f.flow_id, "status": f.status.name, "parent": f.parent_uid, "activated": int(f.activated),
             "children": list(f.child_flow_uids), "actions": list(f.action_uids), "arg": f.arguments.get("p")} for u, f in state.flow_states.items()]


def run_impl(case):
    global REC
    sm = _SM
    from nemoguardrails.colang import parse_colang_file
    from nemoguardrails.colang.v2_x.runtime.flows import InternalEvent, State
    from nemoguardrails.colang.v2_x.runtime.runtime import create_flow_configs_from_flow_list

    src = case.get("src") or render_program(case["prog"])
    obs = {"src": src, "steps": [], "records": [], "ends": []}
    try:
        with contextlib.redirect_stdout(io.StringIO()):
            cfg = create_flow_configs_from_flow_list(parse_colang_file(filename="", content=src, include_source_mapping=False, version="2.x")["flows"])
    except Exception as e:  # noqa
        obs["skip"] = "parse:" + type(e).__name__ + ":" + str(e)[:120]
        return obs
    rnd = random.Random(case.get("seed", 0))
    o_choice = sm.random.choice
    # the interpreter's clock (`datetime.now()` in statemachine.py / flows.py): `{"tick": n}` items let n seconds pass, so
    # that `_clean_up_state` (instances that ended more than 5 s ago) runs INSIDE a history
    import datetime as _dt
    from nemoguardrails.colang.v2_x.runtime import flows as _fl

    class _Clock(_dt.datetime):
        off = _dt.timedelta(0)

        @classmethod
        def now(cls, tz=None):
            return _dt.datetime.now(tz) + cls.off

    o_dt_sm, o_dt_fl = sm.datetime, _fl.datetime
    REC = R = _Rec()
    started, stopped, finished_rx = [], set(), set()   # action uids in order of their Start event

    def absorb(out):
        for e in out:
            t = e.get("type", "")
            if "action_uid" in e and t.startswith("Start"):
                started.append((e["action_uid"], t[len("Start"):]))
            if "action_uid" in e and t.startswith("Stop"):
                stopped.add(e["action_uid"])

    def step(ev, label):
        R.guard = 0
        R.step = len(obs["steps"])
        st_obs = {"in": label}
        try:
            with contextlib.redirect_stdout(io.StringIO()):
                sm.run_to_completion(st, ev)
            # a pending end-of-flow decision is resolved by the end of the run
            if R.end_pending is not None:
                ep = R.end_pending
                R.end_pending = None
                from nemoguardrails.colang.v2_x.runtime.flows import FlowHeadStatus
                R.ends.append({"uid": ep["uid"], "status": ep["status"], "activated": ep["activated"], "act": "park",
                               "status_after": ep["_fs"].status.name, "head_inactive": ep["_head"].status == FlowHeadStatus.INACTIVE, "started_pushed": None})
        except _Runaway:
            st_obs["runaway"] = True
        except RecursionError:
            st_obs["exc"] = "RecursionError"
        except Exception as e:  # noqa
            st_obs["exc"] = type(e).__name__ + ":" + str(e)[:100]
        R.depth, R.pending, R.end_pending = 0, None, None
        out = [{"type": e.get("type"), "action_uid": e.get("action_uid")} for e in st.outgoing_events]
        absorb(st.outgoing_events)
        st_obs["out"] = out
        st_obs["flows"] = _flows_obs(st)
        st_obs["actions"] = [{"uid": u, "status": a.status.name, "count": a.flow_scope_count} for u, a in st.actions.items()]
        obs["steps"].append(st_obs)
        return "runaway" in st_obs or "exc" in st_obs

    try:
        sm.random.choice = lambda seq: seq[rnd.randrange(len(seq))]
        if any("tick" in h for h in case["hist"]):
            sm.datetime = _fl.datetime = _Clock
        with contextlib.redirect_stdout(io.StringIO()):
            st = State(flow_states=[], flow_configs=cfg)
            sm.initialize_state(st)
        bad = step(InternalEvent(name="StartFlow", arguments={"flow_id": "main"}), {"start": "main"})
        for h in case["hist"]:
            if bad:
                break
            if "ev" in h:
                bad = step({"type": h["ev"]}, h)
                continue
            if "tick" in h:
                _Clock.off += _dt.timedelta(seconds=h["tick"])
                obs["steps"].append({"in": h, "skipped": True})
                obs["ticked"] = True
                continue
            if "auto" in h:
                waited = sorted(n for n, hs in st.event_matching_heads.items() if n in EVENTS and hs)
                name = waited[h["auto"] % len(waited)] if waited else EVENTS[h["auto"] % len(EVENTS)]
                bad = step({"type": name}, dict(h, ev=name))
                continue
            pool = started
            if h.get("pick") == "live":
                pool = [x for x in started if x[0] not in stopped and x[0] not in finished_rx] or started
            elif h.get("pick") == "stopped":
                pool = [x for x in started if x[0] in stopped] or started
            if not pool:
                obs["steps"].append({"in": h, "skipped": True})
                continue
            uid, name = pool[h["k"] % len(pool)]
            ev = {"type": name + h["act"], "action_uid": uid}
            if h["act"] == "Finished":
                ev.update({"is_success": True, "was_stopped": uid in stopped})
                if name == "UtteranceBotAction":
                    ev["final_script"] = "x"
            bad = step(ev, dict(h, uid=uid, type=ev["type"]))
            if h["act"] == "Finished":
                finished_rx.add(uid)
    except Exception as e:  # noqa
        obs["init_exc"] = type(e).__name__ + ":" + str(e)[:200]
    finally:
        sm.random.choice = o_choice
        sm.datetime, _fl.datetime = o_dt_sm, o_dt_fl
        REC = None
    obs["records"] = R.records
    obs["ends"] = R.ends
    obs["activations"] = R.activations
    return obs


# ============================================================================= operation-sequence tie (T2)
# Between two recorded calls the interpreter changes the abstract state only by the "environment" operations of
# Models/LifetimeOps.lean (startChild, status, newAction, coWin, frame).  The difference between the post-state of
# record k and the pre-state of record k+1 is decomposed into such operations, replayed by the Lean step function
# `applyOp` (guards included) and the result is compared with the real pre-state: every recorded trace is checked to
# be a path of the step relation `lifetime_invariant` is proved about.

_STATUS_PATH = {("WAITING", "STARTING"): ["STARTING"], ("WAITING", "STARTED"): ["STARTING", "STARTED"],
                ("STARTING", "STARTED"): ["STARTED"], ("STARTING", "STOPPING"): ["STOPPING"], ("STARTED", "STOPPING"): ["STOPPING"],
                ("WAITING", "STOPPING"): ["STARTING", "STOPPING"]}


def _gap_request(prev, nxt, cleanup_ok=False):
    """prev / nxt: {"flows": [...], "actions": [...]} snapshots. Returns (request, expected, problem).
    cleanup_ok: the two calls belong to different steps (`_clean_up_state` runs at the start of every step; it removes instances
    after a clock tick - or, on a very slow machine, when a case takes more than 5 s of real time)."""
    pf = {f["uid"]: f for f in prev["flows"]}
    nf = {f["uid"]: f for f in nxt["flows"]}
    pa = {a["uid"]: a for a in prev["actions"]}
    na = {a["uid"]: a for a in nxt["actions"]}
    if [f["uid"] for f in prev["flows"]] == [f["uid"] for f in nxt["flows"]] and \
            all({k: v for k, v in pf[u].items() if k != "args"} == {k: v for k, v in nf[u].items() if k != "args"} for u in pf) and prev["actions"] == nxt["actions"]:
        return None, None, None
    st, fu, au, fid, sc = _encode_state({"flows": prev["flows"], "actions": prev["actions"], "nq": 0, "nout": 0})
    ops = []
    newflows, newactions = [], []
    if any(u not in nf for u in pf):
        if cleanup_ok:
            return None, None, None   # clean-up is not an operation of the machine: the stretch is not replayed
        return None, None, "an instance disappeared between two calls of one step (clean-up only runs at the start of a step)"
    # new instances
    for f in nxt["flows"]:
        if f["uid"] not in pf:
            if f["parent"] is None or f["parent"] not in nf:
                return None, None, f"new instance {f['uid']} without a live parent"
            ops.append({"op": "startChild", "c": fu.get(f["uid"]), "fid": fid.get(f["fid"]), "p": fu.get(f["parent"]), "k": max(0, f["activated"])})
            newflows.append(fu.get(f["uid"]))
    # actions: new ones, co-wins
    removed = [a for a in pa if a not in na]
    for f in nxt["flows"]:
        old = pf.get(f["uid"], {"actions": []})["actions"]
        new = f["actions"]
        if len(new) < len(old):
            return None, None, f"action list of {f['uid']} shrank"
        done = set()
        for o, n in zip(old, new):
            if o != n and (o, n) not in done:
                if o not in removed or n not in pa:
                    return None, None, f"action list of {f['uid']} changed in an unexpected way ({o} -> {n})"
                ops.append({"op": "coWin", "loser": fu.get(f["uid"]), "a": au.get(n), "b": au.get(o)})
                done.add((o, n))
        for a in new[len(old):]:
            if a in pa:
                return None, None, f"{f['uid']} adopted the existing action {a} outside a co-win"
            ops.append({"op": "newAction", "uid": fu.get(f["uid"]), "a": au.get(a)})
            newactions.append(au.get(a))
    # status paths and bookkeeping
    for f in nxt["flows"]:
        old = pf.get(f["uid"])
        ost = old["status"] if old else "WAITING"
        if ost != f["status"]:
            path = _STATUS_PATH.get((ost, f["status"]))
            if path is None:
                return None, None, f"status of {f['uid']} went {ost} -> {f['status']} outside abort/finish"
            for s_ in path:
                ops.append({"op": "status", "uid": fu.get(f["uid"]), "status": s_})
        if old is not None and f["nis"] and not old["nis"]:
            # `_advance_head_front`: an activated instance that fails before it was started is marked as not to be restarted
            ops.append({"op": "noRestart", "uid": fu.get(f["uid"])})
        ops.append({"op": "frame", "uid": fu.get(f["uid"]), "heads": f["heads"],
                    "scopes": [[sc.get(n), [fu.get(x) for x in fl], [au.get(x) for x in al]] for n, fl, al in f["scopes"]]})
    want_f = [{"uid": fu.get(f["uid"]), "fid": fid.get(f["fid"]), "parent": fu.get(f["parent"]), "children": [fu.get(c) for c in f["children"]],
               "status": f["status"], "activated": f["activated"], "nis": f["nis"], "actions": [au.get(a) for a in f["actions"]],
               "scopes": [[sc.get(n), [fu.get(x) for x in fl], [au.get(x) for x in al]] for n, fl, al in f["scopes"]],
               "heads": f["heads"], "main": f["main"]} for f in nxt["flows"]]
    want_a = sorted(({"uid": au.get(a["uid"]), "status": a["status"], "count": a["count"]} for a in nxt["actions"]), key=lambda x: x["uid"])
    return {"m": "C06.ops", "st": st, "ops": ops, "newflows": newflows, "newactions": newactions}, (want_f, want_a), None


def _gaps(obs):
    recs = [r for r in obs.get("records", []) if r.get("post") is not None]
    out = []
    for a, b in zip(recs, recs[1:]):
        if a["op"] == "startflow" and a.get("res", {}).get("r") == "create":
            pass  # the new instance appears in the gap (startChild)
        out.append((a, b))
    return out


def _gap_items(obs):
    """[(request | None, expected, problem)] for consecutive fully recorded calls"""
    if obs.get("gap_off"):
        return []
    items = []
    all_recs = obs.get("records", [])
    for i in range(len(all_recs) - 1):
        a, b = all_recs[i], all_recs[i + 1]
        if a.get("post") is None or a.get("exc") or b.get("seq") != a.get("seq", -1) + 1:
            continue
        items.append(_gap_request({"flows": a["post"]["flows"], "actions": a["post"]["actions"]},
                                  {"flows": b["pre"]["flows"], "actions": b["pre"]["actions"]},
                                  cleanup_ok=a.get("step") != b.get("step")))
    return items


# ============================================================================= model (replay)

class _Num:
    def __init__(self, first):
        self.m = {}
        for x in first:
            self.get(x)

    def get(self, x):
        if x is None:
            return None
        if x not in self.m:
            self.m[x] = len(self.m)
        return self.m[x]


def _encode_state(pre):
    fu = _Num([f["uid"] for f in pre["flows"]])
    au = _Num([a["uid"] for a in pre["actions"]])
    fid, sc = _Num([]), _Num([])
    flows = []
    for f in pre["flows"]:
        flows.append({"uid": fu.get(f["uid"]), "fid": fid.get(f["fid"]), "parent": fu.get(f["parent"]), "children": [fu.get(c) for c in f["children"]],
                      "status": f["status"], "activated": max(0, f["activated"]), "nis": f["nis"], "actions": [au.get(a) for a in f["actions"]],
                      "scopes": [[sc.get(n), [fu.get(x) for x in fl], [au.get(x) for x in al]] for n, fl, al in f["scopes"]],
                      "heads": f["heads"], "main": f["main"]})
    actions = [{"uid": au.get(a["uid"]), "status": a["status"], "count": a["count"]} for a in pre["actions"]]
    return {"flows": flows, "actions": actions, "nq": pre["nq"], "nout": pre["nout"]}, fu, au, fid, sc


def _model_req(rec):
    st, fu, au, fid, sc = _encode_state(rec["pre"])
    # theorem abortTopV_fuel_sufficient: 2 * #instances + 1 suffices for the repaired recursion on EVERY hierarchy;
    # for the as-is recursion (answer "asis") any fuel above the depth suffices on acyclic hierarchies (abort_fuel_sufficient)
    fuel = 2 * len(st["flows"]) + 3
    op = rec["op"]
    if op in ("abort", "finish"):
        return {"m": "C06." + op, "st": st, "uid": fu.get(rec["uid"]), "d": rec["d"], "fuel": fuel}
    if op == "endscope":
        return {"m": "C06.endscope", "st": st, "uid": fu.get(rec["uid"]), "name": sc.get(rec["name"]), "fuel": fuel}
    if op == "label":
        return {"m": "C06.label", "st": st, "uid": fu.get(rec["uid"])}
    if op == "update":
        e = rec["ev"]
        a = au.get(e["auid"]) if e["auid"] is not None else 10 ** 6
        return dict({"m": "C06.update", "st": st, "auid": a}, **{k: e[k] for k in ("isAction", "started", "updated", "finished", "start", "stop")})
    if op == "startflow":
        i = rec["info"]
        if i["pm"] is None or (i["known"] and i["source"] is None):
            return None
        src = fu.get(i["source"]) if i["source"] is not None else 10 ** 6
        return {"m": "C06.startflow", "st": st, "fid": fid.get(i["fid"]), "known": i["known"], "act": i["act"], "hasInst": i["hasInst"],
                "source": src, "pm": [fu.get(u) for u in i["pm"]]}
    raise ValueError(op)


def model_requests(case, obs):
    reqs = []
    for rec in obs.get("records", []):
        r = _model_req(rec)
        if r is not None:
            reqs.append(r)
    for e in obs.get("ends", []):
        reqs.append({"m": "C06.enddecision", "status": e["status"], "activated": max(0, e["activated"])})
    for req, _want, _prob in _gap_items(obs):
        if req is not None:
            reqs.append(req)
    return reqs


_ACT_MSG = ("real state violates the proved bound activation_count_is_live_activators_partial: the activation counter of a "
            "reference instance exceeds the number of child-list entries held by live flows")

_EXC = {"KeyError": "KeyError", "ValueError": "ValueError", "ColangRuntimeError": "ColangRuntimeError", "RecursionError": "fuel"}


def _cmp_asis(rec, m):
    """the as-is recursion (the one the unconditional-on-acyclicity theorems of Theorems/C06.lean speak about) and the
    repaired recursion (visited set) give the same answer whenever the as-is one terminates"""
    a = m.get("asis")
    if a is None or (a.get("res") == "err" and a.get("kind") == "fuel"):
        return None
    if _has_child_cycle(rec["pre"]["flows"]):
        return None  # inside a cycle of child flows the two recursions legitimately differ (re-entered instances)
    b = {k: v for k, v in m.items() if k != "asis"}
    if a != b:
        return f"{rec['op']} uid={rec.get('uid')}: as-is and repaired recursion models differ although the as-is one terminates: {str(a)[:150]} / {str(b)[:150]}"
    return None


def _cmp_record(rec, m):
    if rec["op"] in ("abort", "finish", "endscope"):
        d = _cmp_asis(rec, m)
        if d:
            return d
    st, fu, au, fid, sc = _encode_state(rec["pre"])
    if rec["op"] == "startflow" and m.get("act_pre") is False:
        return _ACT_MSG + f" (state before the StartFlow of {rec['info']['fid']} is processed)"
    if rec["op"] == "startflow" and late_starts({"records": [rec]}):
        g = m.get("start")
        return None if g is None or g.get("r") != "ignored" else f"startflow {rec['info']['fid']}: implementation started/re-activated a flow for an ended sender, model {g}"
    if rec["exc"]:
        if m.get("res") == "err" and m.get("kind") == _EXC.get(rec["exc"]):
            return None
        return f"{rec['op']}: implementation raised {rec['exc']}, model answered {str(m)[:120]}"
    if m.get("res") != "ok":
        return f"{rec['op']}: model answered {m}, implementation finished normally"
    post = rec["post"]
    inv_f = {v: k for k, v in fu.m.items()}
    # flows
    want = []
    for f in post["flows"]:
        want.append({"uid": fu.get(f["uid"]), "fid": fid.get(f["fid"]), "parent": fu.get(f["parent"]), "children": [fu.get(c) for c in f["children"]],
                     "status": f["status"], "activated": f["activated"], "nis": f["nis"], "actions": [au.get(a) for a in f["actions"]],
                     "scopes": [[sc.get(n), [fu.get(x) for x in fl], [au.get(x) for x in al]] for n, fl, al in f["scopes"]],
                     "heads": f["heads"], "main": f["main"]})
    if want != m["flows"]:
        for w, g in zip(want, m["flows"]):
            if w != g:
                d = {k: (w[k], g.get(k)) for k in w if w[k] != g.get(k)}
                return f"{rec['op']} uid={rec.get('uid')}: flow {inv_f.get(w['uid'])} differs (impl, model): {d}"
        return f"{rec['op']}: flow tables differ in length: impl {len(want)} model {len(m['flows'])}"
    wa = [{"uid": au.get(a["uid"]), "status": a["status"], "count": a["count"]} for a in post["actions"]]
    ga = m["actions"]
    if wa != ga:
        return f"{rec['op']} uid={rec.get('uid')}: action tables differ: impl {wa} model {ga}"
    # queue
    args_of = {f["uid"]: f["args"] for f in rec["pre"]["flows"]}
    wq = []
    for e in post["queue"]:
        if e["k"] in ("FlowFailed", "FlowFinished", "FlowStarted"):
            wq.append({"k": e["k"], "uid": fu.get(e["uid"])})
        elif e["k"] == "StartFlow":
            wq.append({"k": "StartFlow", "fid": fid.get(e["fid"]), "source": fu.get(e["source"]), "activated": e["activated"], "rest": e["rest"]})
        else:
            wq.append(e)
    gq = []
    for e in m["queue"]:
        if e["k"] == "StartFlow":
            gq.append({"k": "StartFlow", "fid": e["fid"], "source": e["source"], "activated": e["activated"], "rest": args_of.get(inv_f.get(e["inst"]))})
        else:
            gq.append(e)
    if wq != gq:
        return f"{rec['op']} uid={rec.get('uid')}: internal queue differs: impl {wq} model {gq}"
    wo = []
    names = {a["uid"]: a["name"] for a in rec["pre"]["actions"]}
    for e in post["out"]:
        if e["k"] in ("Stop", "Start"):
            if e["type"] != e["k"] + names.get(e["action"], "?"):
                return f"{rec['op']}: outgoing event {e['type']} does not carry the name of action {e['action']}"
            wo.append({"k": e["k"], "action": au.get(e["action"])})
        else:
            wo.append(e)
    if wo != m["out"]:
        return f"{rec['op']} uid={rec.get('uid')}: outgoing events differ: impl {wo} model {m['out']}"
    if rec["op"] == "startflow":
        r, g = rec["res"], m.get("start", {})
        w = {"r": r["r"]}
        if r["r"] == "create":
            w["source"] = fu.get(r["source"])

        if r["r"] == "reused":
            w["inst"] = fu.get(r["inst"])
        if w != g:
            return f"startflow {rec['info']['fid']}: implementation {w}, model {g}"
    return None


def compare(case, obs, mouts):
    i = 0
    for rec in obs.get("records", []):
        if _model_req(rec) is None:
            continue
        m = mouts[i]
        i += 1
        d = _cmp_record(rec, m)
        if d:
            return d
    for e in obs.get("ends", []):
        m = mouts[i]
        i += 1
        if m["act"] != e["act"]:
            return f"end of flow (status {e['status']}, activated {e['activated']}): implementation did '{e['act']}', model says '{m['act']}'"
        if e["act"] != "abort" and m["status"] != e["status_after"] and e["act"] == "park":
            return f"end of flow: status after decision impl {e['status_after']} model {m['status']}"
        if e["act"] == "park" and not e["head_inactive"]:
            return "end of flow: parked instance's head is not INACTIVE"
        if e["started_pushed"] is not None and e["act"] != "abort" and bool(e["started_pushed"]) != m["started_event"]:
            return f"end of flow: FlowStarted pushed impl {e['started_pushed']} model {m['started_event']}"
    for req, want, prob in _gap_items(obs):
        if prob:
            return "trace is not a path of the operation-sequence semantics: " + prob
        if req is None:
            continue
        m = mouts[i]
        i += 1
        if m.get("res") != "ok":
            return f"operation replay failed: {m}"
        # theorem activation_count_is_live_activators_partial: hypothesis (every operation admissible) and conclusion
        # (`actCountB`: counter of a reference instance <= child-list entries held by live instances) on the real trace
        if m.get("adm") is False:
            return f"trace leaves the admissible operations of activation_count_is_live_activators_partial: ops {req['ops']}"
        if m.get("act_pre") is False or m.get("act_post") is False:
            return _ACT_MSG
        got_a = sorted(m["actions"], key=lambda x: x["uid"])
        if m["flows"] != want[0] or got_a != want[1]:
            for w, g in zip(want[0], m["flows"]):
                if w != g:
                    d = {k: (w[k], g.get(k)) for k in w if w[k] != g.get(k)}
                    return f"trace is not a path of the operation-sequence semantics: after ops {req['ops']} flow {w['uid']} differs (impl, model): {d}"
            return f"trace is not a path of the operation-sequence semantics: ops {req['ops']}: impl actions {want[1]} model {got_a} (flows {len(want[0])}/{len(m['flows'])})"
    return None


# ============================================================================= oracle (property statement)

_ANY = object()
_LISTENING = ("WAITING", "STARTING", "STARTED")
_RUNNING = ("STARTING", "STARTED")
_DONE = ("FINISHED", "STOPPED")


def _walk(stmts):
    for st in stmts:
        yield st
        if st[0] == "when":
            for _t, body in st[1]:
                yield from _walk(body)
            if st[2] is not None:
                yield from _walk(st[2])


def _prog_info(case):
    """kinds of the flows and the set of flows that are explicitly stopped/finished/deactivated or restart early."""
    if "prog" in case:
        kinds = dict(case["prog"]["kinds"])
        targeted, early = set(), set()
        for nm, body in case["prog"]["flows"].items():
            for st in _walk(body):
                if st[0] in ("stopflow", "finishflow", "deactivate"):
                    targeted.add(st[1])
                if st[0] == "restart_label":
                    early.add(nm)
        return kinds, targeted, early
    return dict(case.get("kinds", {})), set(case.get("targeted", [])), set(case.get("early", []))


def oracle(case, obs):
    if "skip" in obs:
        return None
    if "init_exc" in obs:
        return "exception outside run_to_completion: " + obs["init_exc"]
    kinds, targeted, early = _prog_info(case)
    params = set(case.get("prog", case).get("params", []))
    starts, stops = {}, {}
    finished_rx = set()
    # instances that were observed STARTED at any observation point (step ends and recorded calls)
    started_seen = set()
    for r in obs.get("records", []):
        for snap_ in (r.get("pre"), r.get("post")):
            if snap_:
                started_seen.update(f["uid"] for f in snap_["flows"] if f["status"] == "STARTED")
    for step in obs["steps"]:
        started_seen.update(f["uid"] for f in step.get("flows", []) if f["status"] == "STARTED")
    # O5: a shared action outlives every sharer but the last: no Stop is generated by the end of one instance while
    # another listening instance still holds the action.  Only claimed for actions that never were registered in a
    # `when` / group scope (a scope end releases an action without removing it from `action_uids`) and outside cycles
    # of child flows (an instance inside a cycle can be ended twice: finding activation-cycle-recursion).
    if not any(s_.get("runaway") for s_ in obs["steps"]):
        scoped = set()
        cyc = False
        for r in obs.get("records", []):
            for snap_ in (r.get("pre"), r.get("post")):
                if snap_:
                    for f in snap_["flows"]:
                        for _n, _fl, al in f["scopes"]:
                            scoped.update(al)
                    cyc = cyc or _has_child_cycle(snap_["flows"])
        if not cyc:
            for r in obs.get("records", []):
                if r["op"] in ("abort", "finish") and r.get("post"):
                    for e in r["post"]["out"]:
                        if e["k"] == "Stop" and e["action"] not in scoped:
                            for f in r["post"]["flows"]:
                                if f["uid"] != r["uid"] and f["status"] in _LISTENING and e["action"] in f["actions"]:
                                    return (f"the end of instance {r['uid']} sent {e['type']} for action {e['action']} although the still-running "
                                            f"instance {f['uid']} shares it")
    for si, step in enumerate(obs["steps"]):
        if step.get("skipped"):
            continue
        if step.get("runaway"):
            return None  # non-termination is C10's subject; nothing can be said about lifetimes
        if "exc" in step:
            return f"step {si}: run_to_completion raised {step['exc']}: the event was not fully processed"
        inn = step["in"]
        if inn.get("act") == "Finished":
            finished_rx.add(inn["uid"])
        for e in step["out"]:
            t, a = e["type"] or "", e["action_uid"]
            if a is None:
                continue
            if t.startswith("Start"):
                starts[a] = starts.get(a, 0) + 1
            elif t.startswith("Stop"):
                if not starts.get(a):
                    return f"step {si}: {t} sent for action {a} that was never started"
                if stops.get(a):
                    return f"step {si}: second {t} sent for action {a}"
                if a in finished_rx:
                    return f"step {si}: {t} sent for action {a} after its Finished event was received"
                stops[a] = 1
        flows = {f["uid"]: f for f in step["flows"]}
        listening = [f for f in step["flows"] if f["status"] in _LISTENING]

        def activators(fid, arg=_ANY):
            return [q for q in step["flows"] if q["status"] in _RUNNING and q["fid"] != fid
                    and any(c in flows and flows[c]["fid"] == fid and (arg is _ANY or flows[c].get("arg") == arg) for c in q["children"])]

        # O2: when an instance has finished/failed, everything it started (transitively) has stopped
        for c in listening:
            chain, cur, seen = [c], c, set()
            while cur["parent"] is not None and cur["parent"] in flows and cur["parent"] not in seen:
                seen.add(cur["parent"])
                cur = flows[cur["parent"]]
                # the main flow never becomes FINISHED: when it ends it is reset to WAITING (restarted)
                if cur["status"] in _DONE or (cur["fid"] == "main" and cur["status"] == "WAITING"):
                    excused = any(kinds.get(x["fid"]) == "act" and activators(x["fid"]) for x in chain)
                    if not excused:
                        return (f"step {si}: instance {c['uid']} ({c['status']}) is still running although its ancestor {cur['uid']} "
                                f"is {cur['status']} and no running flow keeps it activated")
                    break
                chain.append(cur)
        # O3: unfinished actions of ended instances that nobody running shares got exactly one Stop
        held = {}
        for q in listening:
            for a in q["actions"]:
                held.setdefault(a, []).append(q["uid"])
        for p in step["flows"]:
            if p["status"] in _DONE or (p["fid"] == "main" and p["status"] == "WAITING"):
                for a in p["actions"]:
                    if starts.get(a) and a not in finished_rx and a not in held and not stops.get(a):
                        return f"step {si}: action {a} started by {p['uid']} ({p['status']}) is unfinished, not shared with a running flow, and got no Stop"
        # O4: activated flows
        keys = []
        for fid, k in kinds.items():
            if k != "act" or fid in targeted:
                continue
            if fid in params:
                # a flow with a parameter has one reference instance per value that was ever passed
                vals = {a.get("arg") for a in obs.get("activations", []) if a["fid"] == fid} | {f.get("arg") for f in step["flows"] if f["fid"] == fid}
                keys += [(fid, v) for v in sorted(vals, key=str)]
            else:
                keys.append((fid, _ANY))
        for fid, arg in keys:
            label = fid if arg is _ANY else f'{fid} "{arg}"'
            inst = [f for f in listening if f["fid"] == fid and (arg is _ANY or f.get("arg") == arg)]
            acts = activators(fid, arg)
            if acts and not inst:
                # an instance that FAILS before it was ever started is deliberately not restarted (it would loop forever)
                allinst = [f for f in step["flows"] if f["fid"] == fid and (arg is _ANY or f.get("arg") == arg)]
                if allinst and allinst[-1]["status"] == "STOPPED" and allinst[-1]["uid"] not in started_seen:
                    continue
                return f"step {si}: activated flow {label} has a running activator ({acts[0]['uid']}) but no running instance"
            if not acts and inst:
                return f"step {si}: activated flow {label} is still running ({inst[0]['uid']}) although no running flow activates it"
            if len(inst) > 1 and fid not in early:
                return f"step {si}: activated flow {label} has {len(inst)} running instances (restarted more than once): " + ", ".join(x["uid"] for x in inst)
            # O6: the same clause with the activators taken from the HISTORY of executed `activate` statements (who executed
            # `activate fid`, and is that instance still running) instead of from the interpreter's own book-keeping
            # (`child_flow_uids` / `activated`): an activated flow runs only while a flow that activated it is alive
            if "activations" in obs:
                alive = sorted({a["src"] for a in obs["activations"] if a["fid"] == fid and a["step"] <= si
                                and (arg is _ANY or a.get("arg") == arg) and flows.get(a["src"], {}).get("status") in _RUNNING})
                if inst and not alive:
                    return (f"step {si}: activated flow {label} is still running ({inst[0]['uid']}) although every flow that executed "
                            f"`activate {label}` has ended")
                if alive and not inst:
                    allinst = [f for f in step["flows"] if f["fid"] == fid and (arg is _ANY or f.get("arg") == arg)]
                    if not (allinst and allinst[-1]["status"] == "STOPPED" and allinst[-1]["uid"] not in started_seen):
                        return f"step {si}: {alive[0]} executed `activate {label}` and is still running but {label} has no running instance"
    return None


def late_starts(obs):
    """instances created by a StartFlow event that was processed after its sender had finished/failed
    (and that is not the restart of an activated flow): region of the open finding `start-after-parent-ended`"""
    late = set()
    for r in obs.get("records", []):
        if r["op"] == "startflow" and r.get("res") and r["res"]["r"] in ("create", "reused"):
            i = r["info"]
            src = [f for f in r["pre"]["flows"] if f["uid"] == i["source"]]
            if not src:
                continue
            restart = src[0]["fid"] == i["fid"] and i["act"]
            if (src[0]["status"] in _DONE and not restart) or (restart and src[0]["activated"] == 0):
                late.add(r["res"].get("new_uid") if r["res"]["r"] == "create" else r["res"].get("inst"))
    return late


def bad_cowins(obs):
    """Region of the open finding `cowin-after-abort-in-conflict`: action uids that took part in a step of the unpatched
    `_resolve_action_conflicts` which the repaired behaviour (and the model) excludes —
    (1) a head adopts (co-wins onto) an action that is no longer STARTING: the winner's flow was aborted by a losing
        flow earlier in the same loop and its action was stopped again;
    (2) the adopting head belongs to a flow that is no longer listening (aborted earlier in the same loop);
    (3) a `Start…` event is emitted for an action that no listening flow holds (a head of a flow that was aborted while
        an earlier loop group was resolved wins its group)."""
    bad = set()
    recs = obs.get("records", [])
    for i in range(len(recs) - 1):
        a, b = recs[i], recs[i + 1]
        if a.get("post") is None or a.get("exc") or b.get("seq") != a.get("seq", -1) + 1:
            continue
        pf = {f["uid"]: f for f in a["post"]["flows"]}
        pa = {x["uid"]: x for x in a["post"]["actions"]}
        na = {x["uid"] for x in b["pre"]["actions"]}
        for f in b["pre"]["flows"]:
            old = pf.get(f["uid"])
            if not old:
                continue
            for o, n in zip(old["actions"], f["actions"]):
                if o != n and o not in na and n in pa:
                    if pa[n]["status"] != "STARTING" or old["status"] not in _LISTENING:
                        bad.add(n)
    for r in recs:
        if r["op"] == "update" and r["ev"]["start"] and not r["ev"]["started"] and r["ev"]["auid"] is not None:
            au = r["ev"]["auid"]
            if any(x["uid"] == au for x in r["pre"]["actions"]) and \
                    not any(au in f["actions"] and f["status"] in _LISTENING for f in r["pre"]["flows"]):
                bad.add(au)
    return bad


def _has_child_cycle(flows):
    ch = {f["uid"]: [c for c in f["children"]] for f in flows}
    state = {}

    def dfs(u):
        state[u] = 1
        for c in ch.get(u, []):
            if c in ch:
                if state.get(c) == 1 or (state.get(c) is None and dfs(c)):
                    return True
        state[u] = 2
        return False

    return any(state.get(u) is None and dfs(u) for u in ch)


def signature(case, obs, msg):
    if not msg:
        return None
    cyc = any(_has_child_cycle(s.get("flows", [])) for s in obs.get("steps", [])) or \
        any(r.get("pre") and _has_child_cycle(r["pre"]["flows"]) for r in obs.get("records", []))
    if ("RecursionError" in msg or "ValueError" in msg) and cyc:
        return "activation-cycle-recursion"
    # the model is of the REPAIRED recursion (visited set): on the unpatched tree an instance inside a cycle of child
    # flows is re-entered (ended twice) even when no exception escapes
    if cyc and msg.split(" ")[0].rstrip(":") in ("abort", "finish", "endscope") and \
            any(r["op"] in ("abort", "finish", "endscope") and r.get("pre") and _has_child_cycle(r["pre"]["flows"]) for r in obs.get("records", [])):
        return "activation-cycle-recursion"
    bad = bad_cowins(obs)
    if bad:
        if msg.startswith("trace is not a path of the operation-sequence semantics") and "coWin" in msg:
            return "cowin-after-abort-in-conflict"
        if ("second Stop" in msg or "got no Stop" in msg or "shares it" in msg) and any(a in msg for a in bad):
            return "cowin-after-abort-in-conflict"
    late = late_starts(obs)
    if not late:
        return None
    if msg.startswith("startflow") and "ended sender" in msg:
        return "start-after-parent-ended"
    # an orphan (or a still-running activated flow) is attributed to the finding when it, or one of its ancestors,
    # was created by such a late StartFlow
    if "is still running" in msg or "has a running activator" in msg or "running instances" in msg or "got no Stop" in msg or "still running (" in msg:
        parents = {}
        for s in obs.get("steps", []):
            for f in s.get("flows", []):
                parents[f["uid"]] = f["parent"]
        for uid in list(parents):
            if uid in msg:
                cur, seen = uid, set()
                while cur is not None and cur not in seen:
                    if cur in late:
                        return "start-after-parent-ended"
                    seen.add(cur)
                    cur = parents.get(cur)
        # descendants of a late instance may also hold the flow/action named in the message
        for uid in late:
            stack, seen = [uid], set()
            while stack:
                x = stack.pop()
                if x in seen:
                    continue
                seen.add(x)
                if x in msg:
                    return "start-after-parent-ended"
                stack.extend(c for c, p in parents.items() if p == x)
    return None


def nontrivial(case, obs):
    for r in obs.get("records", []):
        if r["op"] in ("abort", "finish") and not r["exc"]:
            f = [x for x in r["pre"]["flows"] if x["uid"] == r["uid"]]
            if f and (f[0]["children"] or f[0]["actions"]):
                return True
    return False


def tags(case, obs):
    t = []
    if "skip" in obs:
        return ["skip:" + obs["skip"].split(":")[1]]
    for r in obs.get("records", []):
        t.append("op:" + r["op"] + (":" + r["exc"] if r["exc"] else ""))
        if r["op"] in ("abort", "finish") and r["post"]:
            if any(e["k"] == "StartFlow" for e in r["post"]["queue"]):
                t.append("restart-pushed")
            n = sum(1 for e in r["post"]["out"] if e["k"] == "Stop")
            if n:
                t.append("stops-in-call:" + str(min(n, 3)))
            if r["d"]:
                t.append("deactivate-call")
    for e in obs.get("ends", []):
        t.append("end:" + e["act"])
    for s in obs.get("steps", []):
        if "exc" in s:
            t.append("step-exc:" + s["exc"].split(":")[0])
        if s.get("runaway"):
            t.append("runaway")
    if bad_cowins(obs):
        t.append("cowin-after-abort")
    if case.get("prog", {}).get("cluster"):
        t.append("conflict-cluster")
    if any("auto" in h for h in case.get("hist", [])):
        t.append("schedule-directed")
    if any("tick" in h for h in case.get("hist", [])):
        t.append("clock-tick")
    if case.get("prog", {}).get("race"):
        t.append("race:" + case["prog"]["race"]["form"])
    if case.get("prog", {}).get("params"):
        t.append("flow-parameter")
    if any(r["op"] == "startflow" and r.get("res") and r["res"]["r"] == "ignored" and r["info"]["known"] for r in obs.get("records", [])):
        t.append("startflow-of-ended-sender-dropped")
    t = sorted(set(t)) + ["flows:" + str(len(case.get("prog", {}).get("flows", {})))]
    shared = any(a["count"] >= 2 for s in obs.get("steps", []) for a in s.get("actions", []))
    if shared:
        t.append("shared-action")
    return t


def shrink(case):
    if "prog" not in case:
        return
    h = case["hist"]
    for i in range(len(h)):
        yield dict(case, hist=h[:i] + h[i + 1:])
    flows = case["prog"]["flows"]
    for nm, body in flows.items():
        for i in range(len(body)):
            if body[i][0] == "start_as":
                continue   # its reference is matched later (`match $k.Finished()`): removing it alone changes the failure
            if len(body) > 1:
                nb = body[:i] + body[i + 1:]
                yield dict(case, prog=dict(case["prog"], flows=dict(flows, **{nm: nb})))
