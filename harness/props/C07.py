"""C07 — and/or groups behave like the boolean formula they spell.

Case kinds
  norm    : `normalize_element_groups` on a group built by the repo's parser from generated source text
            (`match (E0() and (E1() or E2())) or E3()`), or built directly from real `Spec` objects / group dicts
            (also singleton and empty groups, which the grammar cannot spell but the function accepts).
  expand  : `expand_elements` on `match <group>`: the fork/merge/wait element list (names canonicalised by first
            appearance) against the Lean mirror `GroupExpand.expandMatch`, and read back by the verified
            `GroupExpand.readBack` to the clauses of `normalize`.
  e2e     : one program (`match` / `await` / `when` on a group, then `send Hit()`), many event sequences through the
            real interpreter (`run_to_completion`), per event: how many `Hit` events came out.

Model: Lean `Dnf.normalize` (exact, ordered comparison) and `Dnf.markers` (abstract head protocol).
Oracle (independent of the Lean model): evaluate the formula on the set of received events — `Hit` exactly once,
at the first satisfying prefix; for `norm`: result is an or of ands of Specs and has the same truth table.
"""
import contextlib
import copy
import io
import itertools
import re
import json
import logging

from ..translate import c07 as tr
from ..translate import c07ctx as cx
from ..translate import corevm as cvt

PROPERTY = "C07"
THEOREM_MODULE = "NemoVerif.Theorems.C07"
RULE = ("formula: random n-ary and/or tree (norm: <=12 leaves, depth<=5, <=6 distinct atoms; e2e: <=8 leaves, depth<=4, <=5 distinct "
        "events/flows) rendered to Colang source and parsed by the repo's parser (or built from Spec objects for norm); "
        "e2e sequences over the atoms' events plus one irrelevant event, length<=6: permutations, random with repeats, "
        "prefix-of-satisfying; thorough additionally enumerates ALL and/or trees with <=3 leaves over <=3 atoms x ALL "
        "sequences of length<=4 over atoms+irrelevant (match), and all arrival orders (up to 720) of the atoms+irrelevant for 96 sampled formulas, all trees <=2 leaves x all sequences <=4 with failure events (awaitf/whenf), all trees <=3 leaves x all sequences <=3 (await/when). "
        "expand: also whole `when` statements (1-3 cases, optional else, events and flows mixed); e2e ops with failing flows (awaitf/whenf/whenfe) compare marker, failure path and "
        "running child flows after every event with the flow-level machine; ctx: group statements in context (templates loop / loop2 / seq2 / whenbody / nestwhen / subgroup, every third "
        "round with failing flows and else branches), sequences <=9 with several rounds of all atoms; thorough: every tree <=2 leaves re-entered in a loop x all sequences <=5 (match/await/when), "
        "trees with 3 leaves x all sequences <=4 (match). "
        "non-trivial = formula mixes and/or or has >=3 leaves, and (e2e) some sequence completes the group after its first event, (ctx) some sequence produces >=2 markers; "
        "distinct = distinct case JSON.")
TRUSTED_BASE = [
    "correspondence harness harness/props/C07.py + Lean driver Drive/C07.lean (JSON codecs; names canonicalised by first appearance)",
    "the repo's Colang 2.x parser (used to build the group dicts from source text; the intended formula is compared with the parsed one)",
    "abstraction step: Dnf.markers models the fork/merge/wait head protocol as 'one head per atom per and-clause'; GroupVM refines it (proved); that the real "
    "interpreter behaves like GroupVM is proved for phase 1 over the interpreter model CoreVM (clause segments) and otherwise checked by execution (heads of the real flow = GroupVM = CoreVM "
    "after every event) and structurally (readBack of the real element lists)",
    "GroupFlow (await/when over flows: child instances, Finished/Failed, failure path, clean-up) abstracts StartFlow/FlowFinished/FlowFailed/scopes; checked by execution after every event",
    "harness/translate/c07ctx.py: the sequencing of group statements in context (shared by oracle and model comparison; the first-satisfaction function differs)",
]
ASSUMPTIONS = [
    "atoms are parameterless events `E<i>()` / flows `f<i>` (flow f<i> = `match E<i>()`), distinct index = distinct event; argument matching is C04",
    "after the group the program parks on `match Never()` so that the restarting main flow cannot produce a second marker",
    "modelled by hand: normalize_element_groups, flatten_or_group, the group branches of _expand_match_element / _expand_await_element, _expand_when_stmt_element",
    "sub-flows f<i> finish on E<i> and (failing ops) fail on F<i>; all running instances of one flow react to the same event",
]
EXHAUSTIVE = {"quick": False, "thorough": True}

IRR = 9  # index of the irrelevant event "X"
FAIL = 100  # event FAIL+i makes flow f<i> fail (ops awaitf / whenf only)
# when2: the top-level `or` of the formula is spelled as two cases `when g1 / send Hit()` `or when g2 / send Hit2()`
OPS = ["match", "await", "when", "whenmix", "awaitf", "whenf", "when2", "whenfe"]
# ops whose atoms are all flows and whose statement is one group: compared with the flow-level machine `GroupFlow` (T3)
COREVM_SEQS = 6  # sequences per match case that are also run through CoreVM
FAIL_OPS = ("awaitf", "whenf", "whenfe")
FLOW_OPS = ("await", "when", "awaitf", "whenf", "whenfe")


def translate():
    return tr.run()


# ----------------------------------------------------------------------------- formulas

def atoms_of(g, out=None):
    out = [] if out is None else out
    if "a" in g:
        out.append(g["a"])
    else:
        for c in g.get("and", g.get("or")):
            atoms_of(c, out)
    return out


def depth_of(g):
    if "a" in g:
        return 0
    cs = g.get("and", g.get("or"))
    return 1 + max([depth_of(c) for c in cs], default=0)


def ops_of(g, out=None):
    out = set() if out is None else out
    if "a" not in g:
        out.add("and" if "and" in g else "or")
        for c in g.get("and", g.get("or")):
            ops_of(c, out)
    return out


def ev(g, s):
    """the boolean formula the group spells, on the set `s` of received atoms"""
    if "a" in g:
        return g["a"] in s
    if "and" in g:
        return all(ev(c, s) for c in g["and"])
    return any(ev(c, s) for c in g["or"])


def g_formula(rng, n_atoms, leaves, depth, op=None, min_children=2):
    """random n-ary tree with exactly `leaves` leaves (when min_children>=2)"""
    if leaves <= 1 or depth <= 0:
        return {"a": rng.randrange(n_atoms)}
    op = op or rng.choice(["and", "or"])
    k = rng.randint(min(2, leaves), min(4, leaves))
    # split `leaves` into k positive parts
    cuts = sorted(rng.sample(range(1, leaves), k - 1)) if leaves > 1 else []
    parts = [b - a for a, b in zip([0] + cuts, cuts + [leaves])]
    kids = []
    for p in parts:
        if p == 1:
            kids.append({"a": rng.randrange(n_atoms)})
        else:
            nxt = rng.choice(["and", "or"]) if rng.random() < 0.25 else ("or" if op == "and" else "and")
            kids.append(g_formula(rng, n_atoms, p, depth - 1, nxt))
    return {op: kids}


def g_formula_loose(rng, n_atoms, depth):
    """trees with singleton / empty groups (only reachable by building the dicts directly)"""
    if depth <= 0 or rng.random() < 0.3:
        return {"a": rng.randrange(n_atoms)}
    k = rng.choice([0, 1, 1, 2, 2, 3])
    return {rng.choice(["and", "or"]): [g_formula_loose(rng, n_atoms, depth - 1) for _ in range(k)]}


def all_trees(leaves, n_atoms):
    """all n-ary and/or trees with exactly `leaves` leaves (children>=2), leaves labelled 0..n_atoms-1"""
    def shapes(n):
        if n == 1:
            yield None
            return
        for k in range(2, n + 1):
            for parts in compositions(n, k):
                for kids in itertools.product(*[list(shapes(p)) for p in parts]):
                    for op in ("and", "or"):
                        yield (op, kids)

    def compositions(n, k):
        if k == 1:
            yield (n,)
            return
        for first in range(1, n - k + 2):
            for rest in compositions(n - first, k - 1):
                yield (first,) + rest

    def label(shape, labels):
        if shape is None:
            return {"a": next(labels)}
        op, kids = shape
        return {op: [label(k, labels) for k in kids]}

    for shape in shapes(leaves):
        for labs in itertools.product(range(n_atoms), repeat=leaves):
            yield label(shape, iter(labs))


def atom_src(i, kind):
    return f"E{i}()" if kind == "ev" else f"f{i}"


def render(g, kinds, minimal=False, top=True, parent=None):
    if "a" in g:
        return atom_src(g["a"], kinds[g["a"]])
    op = "and" if "and" in g else "or"
    s = f" {op} ".join(render(c, kinds, minimal, False, op) for c in g[op])
    if top or (minimal and op == "and" and parent == "or"):
        return s
    return "(" + s + ")"


def renderable(g, top=True):
    if "a" in g:
        return True
    cs = g.get("and", g.get("or"))
    return len(cs) >= 2 and all(renderable(c, False) for c in cs)


def kinds_for(op, rng=None, g=None):
    if op == "match":
        return ["ev"] * 10
    if op in ("await", "when", "awaitf", "whenf", "when2", "whenfe"):
        return ["flow"] * 10
    ks = [rng.choice(["ev", "flow"]) for _ in range(10)]
    return ks


def program(op, g, kinds, minimal=False):
    if op in ("awaitf", "whenf", "whenfe"):
        # sub-flows that finish on E<i> and fail on F<i>
        subs = "".join(f"flow f{i}\n  when E{i}()\n    return\n  or when F{i}()\n    abort\n\n" for i in sorted(set(atoms_of(g))))
    else:
        subs = "".join(f"flow f{i}\n  match E{i}()\n\n" for i in sorted(set(atoms_of(g))) if kinds[i] == "flow")
    grp = render(g, kinds, minimal)
    if op == "match":
        body = f"  match {grp}\n  send Hit()\n"
    elif op in ("await", "awaitf"):
        body = f"  await {grp}\n  send Hit()\n"
    elif op == "whenfe":
        body = f"  when {grp}\n    send Hit()\n  else\n    send Hit2()\n"
    elif op == "when2":
        g1, g2 = g["or"]
        body = f"  when {render(g1, kinds, minimal)}\n    send Hit()\n  or when {render(g2, kinds, minimal)}\n    send Hit2()\n"
    else:
        body = f"  when {grp}\n    send Hit()\n"
    return subs + "flow main\n" + body + "  match Never()\n"


# ----------------------------------------------------------------------------- sequences

def g_seqs(rng, g, n, maxlen=6, fails=False):
    al = sorted(set(atoms_of(g)))
    full = al + [IRR] + ([FAIL + a for a in al] if fails else [])
    seqs = []
    for _ in range(n):
        r = rng.random()
        if r < 0.3:
            p = full[:]
            rng.shuffle(p)
            seqs.append(p[:maxlen])
        elif r < 0.75:
            seqs.append([rng.choice(full) for _ in range(rng.randint(1, maxlen))])
        else:
            # a satisfying order interleaved with repeats of what was already seen
            p = al[:]
            rng.shuffle(p)
            s = []
            for a in p:
                if s and rng.random() < 0.35:
                    s.append(rng.choice(s + [IRR]))
                if fails and rng.random() < 0.2:
                    s.append(FAIL + rng.choice(al))
                s.append(a)
            seqs.append(s[:maxlen])
    out, seen = [], set()
    for s in seqs:
        if tuple(s) not in seen:
            seen.add(tuple(s))
            out.append(s)
    return out


def all_seqs(alphabet, maxlen):
    for n in range(1, maxlen + 1):
        for s in itertools.product(alphabet, repeat=n):
            yield list(s)


# ----------------------------------------------------------------------------- cases

def gen_cases(rng, tier):
    quick = tier == "quick"
    n_norm, n_normd, n_expand, n_e2e, n_seq = (3500, 1500, 1200, 320, 14) if quick else (100000, 50000, 25000, 3000, 30)
    cases = []
    for _ in range(n_norm):
        g = g_formula(rng, rng.randint(1, 6), rng.randint(1, 12), rng.randint(1, 5))
        cases.append({"kind": "norm", "via": "text", "g": g, "op": rng.choice(["match", "await"]), "minimal": rng.random() < 0.3})
    for _ in range(n_normd):
        g = g_formula_loose(rng, rng.randint(1, 6), rng.randint(0, 4)) if rng.random() < 0.6 else g_formula(rng, rng.randint(1, 6), rng.randint(1, 12), rng.randint(1, 5))
        cases.append({"kind": "norm", "via": "dict", "g": g})
    for _ in range(n_expand):
        g = g_formula(rng, rng.randint(1, 6), rng.randint(1, 10), rng.randint(1, 4))
        cases.append({"kind": "expand", "g": g, "stmt": "await"} if _ % 3 == 2 else {"kind": "expand", "g": g})
    for _ in range(n_expand // 3):
        n_atoms = rng.randint(1, 5)
        cs = [g_formula(rng, n_atoms, rng.randint(1, 6), rng.randint(0, 3)) for _ in range(rng.choice([1, 1, 2, 2, 3]))]
        kinds = [rng.choice(["ev", "flow", "flow"]) for _ in range(5)]
        cases.append({"kind": "expand", "stmt": "when", "cases": cs, "g": {"or": cs}, "kinds": kinds, "else": rng.random() < 0.4})
    for i in range(n_e2e):
        op = OPS[i % len(OPS)]
        n_atoms = rng.randint(1, 5)
        g = g_formula(rng, n_atoms, rng.randint(2, 8), rng.randint(1, 4))
        if op == "when2":
            g = {"or": [g_formula(rng, n_atoms, rng.randint(1, 4), rng.randint(0, 3)), g_formula(rng, n_atoms, rng.randint(1, 4), rng.randint(0, 3))]}
        kinds = kinds_for(op, rng, g)
        cases.append({"kind": "e2e", "op": op, "g": g, "kinds": kinds[:5], "minimal": rng.random() < 0.3, "seqs": g_seqs(rng, g, n_seq, fails=op in FAIL_OPS)})
    if not quick:
        # exhaustive small scope: all trees with <= 3 leaves over <= 3 atoms x all sequences of length <= 4
        for leaves in (2, 3):
            for g in all_trees(leaves, min(leaves, 3)):
                al = sorted(set(atoms_of(g))) + [IRR]
                cases.append({"kind": "e2e", "op": "match", "g": g, "kinds": ["ev"] * 5, "minimal": False, "seqs": list(all_seqs(al, 4))})
        # all arrival orders of the full alphabet for sampled formulas, all four statement kinds
        for i in range(96):
            op = OPS[i % len(OPS)]
            g = g_formula(rng, 5, rng.randint(4, 8), rng.randint(2, 4))
            if op == "when2":
                g = {"or": [g_formula(rng, 5, rng.randint(2, 4), 2), g_formula(rng, 5, rng.randint(2, 4), 2)]}
            al = sorted(set(atoms_of(g))) + [IRR]
            cases.append({"kind": "e2e", "op": op, "g": g, "kinds": kinds_for(op, rng, g)[:5], "minimal": False, "seqs": [list(p) for p in itertools.permutations(al)]})
        # failing sub-flows: all trees with <= 2 leaves, all sequences of length <= 4 over finish/fail events + irrelevant
        for op in FAIL_OPS:
            for g in all_trees(2, 2):
                al = sorted(set(atoms_of(g)))
                cases.append({"kind": "e2e", "op": op, "g": g, "kinds": ["flow"] * 5, "minimal": False, "seqs": list(all_seqs(al + [FAIL + a for a in al] + [IRR], 4))})
        # all trees with <= 3 leaves for await / when (flows), all sequences of length <= 3
        for op in ("await", "when"):
            for leaves in (2, 3):
                for g in all_trees(leaves, min(leaves, 3)):
                    al = sorted(set(atoms_of(g))) + [IRR]
                    cases.append({"kind": "e2e", "op": op, "g": g, "kinds": ["flow"] * 5, "minimal": False, "seqs": list(all_seqs(al, 3))})
    # group statements in context: re-entered in loops, in sequence, nested in `when` bodies, behind a sub-flow
    n_ctx, n_cseq = (150, 10) if quick else (1200, 20)
    for i in range(n_ctx):
        n_atoms = rng.randint(2, 4)
        gf = lambda mx: g_formula(rng, n_atoms, rng.randint(1, mx), rng.randint(1, 3))  # noqa: E731
        tmpl = cx.TEMPLATES[i % len(cx.TEMPLATES)]
        fail = tmpl != "subgroup" and (i // len(cx.TEMPLATES)) % 3 == 2  # every third round: flows that can fail, else branches
        tmpl, prog, subs = cx.gen_prog(rng, gf, tmpl, fail)
        cases.append(ctx_case(tmpl, prog, subs, cx.gen_seqs(rng, prog, subs, n_cseq, fail=fail), fail))
    if not quick:
        # every tree with <= 2 leaves re-entered in a loop, all sequences of length <= 5 (match / await / when)
        for kind in ("match", "await", "when"):
            for g in list(all_trees(1, 1)) + list(all_trees(2, 2)):
                al = sorted(set(atoms_of(g))) + [IRR]
                body = [{"grp": "when", "cases": [{"g": g, "body": [{"send": "Hit"}]}], "kinds": "fffff"}] if kind == "when" else \
                    [{"grp": kind, "cases": [{"g": g, "body": []}]}, {"send": "Hit"}]
                cases.append(ctx_case("loop", [{"loop": body}], {}, list(cx.all_seqs(al, 5))))
        for g in all_trees(3, 3):
            al = sorted(set(atoms_of(g))) + [IRR]
            cases.append(ctx_case("loop", [{"loop": [{"grp": "match", "cases": [{"g": g, "body": []}]}, {"send": "Hit"}]}], {}, list(cx.all_seqs(al, 4))))
    # spread the expensive end-to-end cases evenly over the list (balanced work for the worker pool)
    heavy = [c for c in cases if c["kind"] in ("e2e", "ctx")]
    light = [c for c in cases if c["kind"] not in ("e2e", "ctx")]
    if heavy:
        step = max(1, len(light) // len(heavy))
        out = []
        for i, h in enumerate(heavy):
            out.extend(light[i * step:(i + 1) * step])
            out.append(h)
        out.extend(light[len(heavy) * step:])
        cases = out
    return cases


def ctx_case(tmpl, prog, subs, seqs, fail=False):
    gs = cx.groups_of(prog)
    return {"kind": "ctx", "tmpl": tmpl, "prog": prog, "subs": subs, "fail": fail, "g": cx.subst(gs[0][1], subs), "seqs": seqs}


def escalate(rng, focus, tier):
    cases = list(gen_cases(rng, "quick"))
    if focus is not None and focus.get("kind") == "e2e":
        g = focus["g"]
        al = sorted(set(atoms_of(g))) + [IRR]
        for op in [o for o in OPS if o != "when2"]:
            cases.append(dict(focus, op=op, kinds=kinds_for(op, rng, g)[:5], seqs=list(all_seqs(al, 4))[:3000]))
    return cases


# ----------------------------------------------------------------------------- implementation

_M = {}
_CH = {"log": [], "rng": None}
STATUS_CODE = {"ACTIVE": 0, "MERGING": 1, "INACTIVE": 2}


def worker_init():
    logging.disable(logging.CRITICAL)
    from nemoguardrails.colang import parse_colang_file
    from nemoguardrails.colang.v2_x.lang import colang_ast, expansion
    from nemoguardrails.colang.v2_x.runtime import statemachine as sm
    from nemoguardrails.colang.v2_x.runtime.flows import InternalEvent, State
    from nemoguardrails.colang.v2_x.runtime.runtime import create_flow_configs_from_flow_list

    import random as _random
    import types as _types

    def _choice(seq):
        idx = _CH["rng"].randrange(len(seq))
        _CH["log"].append(idx)
        return seq[idx]

    # tie-breaks of the interpreter (`random.choice` in MergeHeads / action conflicts) are drawn from a per-sequence
    # seeded generator and recorded, so that the head-level model can be given the same outcomes
    sm.random = _types.SimpleNamespace(choice=_choice)
    _CH["rng"] = _random.Random(0)
    _M.update(parse=parse_colang_file, ast=colang_ast, ex=expansion, sm=sm, InternalEvent=InternalEvent, State=State, cfgs=create_flow_configs_from_flow_list)


def _quiet():
    return contextlib.redirect_stdout(io.StringIO())


class _Stuck(Exception):
    pass


@contextlib.contextmanager
def _time_limit(seconds):
    """a changed interpreter may never come to rest (e.g. a loop whose group completes without any event): turn that into an observation.
    The limit is on the CPU time of this process (a busy machine that starves the process must not produce an observation);
    a wall-clock limit of 30 x seconds is the backstop for an interpreter that blocks without computing."""
    import signal

    def _h(signum, frame):
        raise _Stuck(f"run_to_completion did not return within {seconds} s of CPU time")

    def _hw(signum, frame):
        raise _Stuck(f"run_to_completion did not return within {30 * seconds} s")

    try:
        old = signal.signal(signal.SIGVTALRM, _h)
        oldw = signal.signal(signal.SIGALRM, _hw)
    except ValueError:  # not in the main thread: no guard
        yield
        return
    signal.setitimer(signal.ITIMER_VIRTUAL, seconds)
    signal.setitimer(signal.ITIMER_REAL, 30 * seconds)
    try:
        yield
    finally:
        signal.setitimer(signal.ITIMER_VIRTUAL, 0)
        signal.setitimer(signal.ITIMER_REAL, 0)
        signal.signal(signal.SIGVTALRM, old)
        signal.signal(signal.SIGALRM, oldw)


def spec_to_json(x):
    """real group (Spec | group dict) -> formula JSON; anything unexpected is kept visible"""
    A = _M["ast"]
    if isinstance(x, A.Spec):
        n = x.name or ""
        if len(n) >= 2 and n[0] in "Ef" and n[1:].isdigit() and not x.arguments and x.members is None:
            return {"a": int(n[1:])}
        return {"?": f"spec:{n}"}
    if isinstance(x, dict) and x.get("_type") in ("spec_and", "spec_or") and isinstance(x.get("elements"), list):
        return {"and" if x["_type"] == "spec_and" else "or": [spec_to_json(e) for e in x["elements"]]}
    return {"?": type(x).__name__}


def json_to_spec(g, kind="ev"):
    A = _M["ast"]
    if "a" in g:
        return A.Spec(name=("E" if kind == "ev" else "f") + str(g["a"]), spec_type=A.SpecType.EVENT if kind == "ev" else A.SpecType.FLOW, arguments={})
    op = "and" if "and" in g else "or"
    return {"_type": "spec_" + op, "elements": [json_to_spec(c, kind) for c in g[op]]}


def parse_group(op, g, kinds, minimal):
    """source text -> (flows, the group object the parser built for the statement)"""
    src = program(op, g, kinds, minimal)
    with _quiet():
        r = _M["parse"](filename="", content=src, include_source_mapping=False, version="2.x")
    main = [f for f in r["flows"] if f.name == "main"][0]
    A = _M["ast"]
    grp = None
    for el in main.elements:
        if isinstance(el, A.SpecOp) and el.op == ("await" if op.startswith("await") else op) and not (isinstance(el.spec, A.Spec) and el.spec.name == "StartFlow"):
            grp = el.spec
            break
        if isinstance(el, A.When):
            grp = el.when_specs[0] if op != "when2" else {"_type": "spec_or", "elements": list(el.when_specs)}
            break
    return src, r["flows"], grp


def _member_name(m):
    return m.get("name") if isinstance(m, dict) else getattr(m, "name", None)


def _start_args(sp):
    """(flow index, instance uid variable) of the StartFlow / FlowStarted spec that `start f<i>` expands to"""
    a = sp.arguments or {}
    if set(a) != {"flow_id", "flow_instance_uid"}:
        return None
    m1 = re.fullmatch(r"'f(\d+)'", str(a["flow_id"]))
    m2 = re.fullmatch(r"'\{\$(_instance_uid_\w+)\}'", str(a["flow_instance_uid"]))
    return (int(m1.group(1)), m2.group(1)) if m1 and m2 else None


def prims_to_json(elements):
    """expanded element list -> canonical primitive list (uuid-bearing names renamed by first appearance)"""
    A = _M["ast"]
    names = {}

    def nm(s):
        if s is None:
            return None
        if s not in names:
            names[s] = len(names)
        return names[s]

    out = []
    for e in elements:
        t = type(e).__name__
        if isinstance(e, A.SpecOp):
            sp = e.spec
            j = spec_to_json(sp)
            started = _start_args(sp) if isinstance(sp, A.Spec) else None
            mk = re.fullmatch(r"M(\d+|E)", sp.name or "") if isinstance(sp, A.Spec) else None
            if e.op == "match" and "a" in j:
                out.append(["match", j["a"]])
            elif e.op == "send" and mk and not sp.arguments and sp.members is None and sp.ref is None:
                out.append(["send", 99 if mk.group(1) == "E" else int(mk.group(1))])
            elif e.op == "send" and started and sp.name == "StartFlow" and sp.ref is None:
                out.append(["sendStart", started[0], nm(started[1])])
            elif e.op == "match" and started and sp.name == "FlowStarted" and e.info.get("internal") is True and isinstance(sp.ref, dict):
                out.append(["matchStarted", started[0], nm(started[1]), nm(sp.ref["elements"][0]["elements"][0])])
            elif (e.op == "match" and isinstance(sp, A.Spec) and sp.spec_type == A.SpecType.REFERENCE and sp.var_name and not sp.arguments
                  and sp.ref is None and e.return_var_name is None and isinstance(sp.members, list) and len(sp.members) == 1
                  and _member_name(sp.members[0]) == "Finished"):
                out.append(["matchFin", nm(sp.var_name)])
            else:
                out.append(["other", f"{e.op}:{json.dumps(j)[:40]}"])
        elif t == "Assignment":
            m1 = re.fullmatch(r"'\(f(\d+)\)\{uid\(\)\}'", e.expression or "")
            m2 = re.fullmatch(r"\$(_flow_event_ref_\w+)\.flow", e.expression or "")
            if m1 and e.key.startswith("_instance_uid_"):
                out.append(["assignUid", nm(e.key), int(m1.group(1))])
            elif m2 and e.key.startswith("_ref_"):
                out.append(["assignRef", nm(e.key), nm(m2.group(1))])
            else:
                out.append(["other", "assign"])
        elif t in ("BeginScope", "EndScope"):
            out.append(["beginScope" if t == "BeginScope" else "endScope", nm(e.name)])
        elif t == "Goto":
            out.append(["goto", nm(e.label)] if e.expression == "True" else ["other", "goto-if"])
        elif t == "ForkHead":
            out.append(["fork", nm(e.fork_uid), [nm(l) for l in e.labels]])
        elif t == "Label":
            out.append(["label", nm(e.name)])
        elif t == "MergeHeads":
            out.append(["merge", nm(e.fork_uid)])
        elif t == "WaitForHeads":
            out.append(["wait", e.number])
        elif t == "CatchPatternFailure":
            out.append(["catch", nm(e.label)])
        elif t == "Abort":
            out.append(["abort"])
        else:
            out.append(["other", t])
    return out


def canon_prims(prims):
    """rename fork uids / label names of an encoded primitive list by first appearance (same order as prims_to_json)"""
    names = {}

    def nm(x):
        if x is None:
            return None
        if x not in names:
            names[x] = len(names)
        return names[x]

    out = []
    for p in prims:
        t = p[0]
        if t in ("label", "goto", "merge", "catch"):
            out.append([t, nm(p[1])])
        elif t == "fork":
            u = nm(p[1])
            out.append([t, u, [nm(l) for l in p[2]]])
        elif t in ("matchFin", "beginScope", "endScope"):
            out.append([t, nm(p[1])])
        elif t == "assignUid":
            out.append([t, nm(p[1]), p[2]])
        elif t == "sendStart":
            out.append([t, p[1], nm(p[2])])
        elif t == "matchStarted":
            v = nm(p[2])
            out.append([t, p[1], v, nm(p[3])])
        elif t == "assignRef":
            r = nm(p[1])
            out.append([t, r, nm(p[2])])
        else:
            out.append(list(p))
    return out


def run_impl(case):
    kind = case["kind"]
    if kind == "norm":
        return run_norm(case)
    if kind == "expand":
        return run_expand(case)
    if kind == "e2e":
        return run_e2e(case)
    if kind == "ctx":
        return run_ctx(case)
    raise ValueError(kind)


def run_norm(case):
    g = case["g"]
    obs = {}
    try:
        if case["via"] == "text" and renderable(g):
            _, _, grp = parse_group(case["op"], g, kinds_for(case["op"]), case.get("minimal", False))
        else:
            grp = json_to_spec(g)
        obs["g_seen"] = spec_to_json(grp)
    except Exception as e:  # noqa
        obs["build_exc"] = f"{type(e).__name__}: {e}"[:200]
        return obs
    try:
        before = json.dumps(obs["g_seen"])
        res = _M["ex"].normalize_element_groups(grp)
        obs["norm"] = spec_to_json(res)
        obs["arg_mutated"] = json.dumps(spec_to_json(grp)) != before
    except Exception as e:  # noqa
        obs["exc"] = f"{type(e).__name__}: {e}"[:200]
    return obs


def run_expand(case):
    g = case["g"]
    A = _M["ast"]
    obs = {}
    if case.get("stmt") == "when":
        return run_expand_when(case)
    try:
        stmt = case.get("stmt", "match")
        kind = "ev" if stmt == "match" else "flow"
        grp = json_to_spec(g, kind) if not renderable(g) else parse_group(stmt, g, kinds_for(stmt), False)[2]
        obs["g_seen"] = spec_to_json(grp)
        els = _M["ex"].expand_elements([A.SpecOp(op=stmt, spec=grp)], {})
        obs["prims"] = prims_to_json(els)
    except Exception as e:  # noqa
        obs["exc"] = f"{type(e).__name__}: {e}"[:200]
    return obs


def when_program(cases, kinds, has_else):
    """`when g_0 / send M0() or when g_1 / send M1() … [else / send ME()]` over events E<i> and flows f<i>"""
    atoms = sorted({a for g in cases for a in atoms_of(g)})
    subs = "".join(f"flow f{i}\n  match E{i}()\n\n" for i in atoms if kinds[i] == "flow")
    body = ""
    for i, g in enumerate(cases):
        body += f"  {'when' if i == 0 else 'or when'} {render(g, kinds)}\n    send M{i}()\n"
    if has_else:
        body += "  else\n    send ME()\n"
    return subs + "flow main\n" + body + "  match Never()\n"


def run_expand_when(case):
    """the whole `when` statement (several cases, optional else) through the parser and ALL passes of expand_elements"""
    A = _M["ast"]
    obs = {}
    try:
        kinds = case["kinds"] + ["ev"] * 10
        src = when_program(case["cases"], kinds, case.get("else", False))
        obs["src"] = src
        with _quiet():
            r = _M["parse"](filename="", content=src, include_source_mapping=False, version="2.x")
        main = [f for f in r["flows"] if f.name == "main"][0]
        wh = [el for el in main.elements if isinstance(el, A.When)][0]
        obs["gs_seen"] = [spec_to_json(x) for x in wh.when_specs]
        obs["g_seen"] = {"or": obs["gs_seen"]}
        els = _M["ex"].expand_elements([wh], _M["cfgs"](r["flows"]))
        obs["prims"] = prims_to_json(els)
    except Exception as e:  # noqa
        obs["exc"] = f"{type(e).__name__}: {e}"[:200]
    return obs


def run_e2e(case):
    sm = _M["sm"]
    obs = {}
    try:
        src, flows, grp = parse_group(case["op"], case["g"], case["kinds"] + ["ev"] * 10, case.get("minimal", False))
        obs["src"] = src
        obs["g_seen"] = spec_to_json(grp)
        with _quiet(), _time_limit(20):
            st = _M["State"](flow_states=[], flow_configs=_M["cfgs"](flows))
            sm.initialize_state(st)
            sm.run_to_completion(st, _M["InternalEvent"](name="StartFlow", arguments={"flow_id": "main"}))
        obs["start_out"] = sorted({e.get("type") for e in st.outgoing_events})
        obs["main_after_start"] = _main_status(st)
        obs["heads_init"] = _heads(st)
        obs["kids_init"] = _kids(st)
        if case["op"] == "match":
            # the expanded program as data for the whole-interpreter model CoreVM (import-only, Models/CoreVM)
            try:
                obs["prog"] = cvt.program_to_json(st)
            except Exception as e:  # noqa
                obs["prog_exc"] = f"{type(e).__name__}: {e}"[:200]
    except Exception as e:  # noqa
        obs["build_exc"] = f"{type(e).__name__}: {e}"[:300]
        return obs
    runs = []
    for seq in case["seqs"]:
        s = copy.deepcopy(st)
        hits, extra, exc, which, heads, fails, kids, mains, nch = [], set(), None, [], [], [], [], [], []
        import random as _random

        _CH["rng"] = _random.Random(json.dumps([case["g"], seq]))
        _CH["log"] = []
        try:
            with _quiet(), _time_limit(20):
                for a in seq:
                    sm.run_to_completion(s, {"type": ev_name(a)})
                    got = [e.get("type") for e in s.outgoing_events if e.get("type") in ("Hit", "Hit2")]
                    if case["op"] == "whenfe":
                        hits.append(got.count("Hit"))
                        fails.append(got.count("Hit2"))
                        which.extend(x for x in got if x == "Hit")
                    else:
                        hits.append(len(got))
                        which.extend(got)
                    if case["op"] in FLOW_OPS:
                        kids.append(_kids(s))
                        mains.append(_main_status(s))
                    extra.update(e.get("type") for e in s.outgoing_events if e.get("type") not in ("Hit", "Hit2"))
                    if case["op"] == "match":
                        heads.append(_heads(s))
                        nch.append(len(_CH["log"]))
        except Exception as e:  # noqa
            exc = f"{type(e).__name__}: {e}"[:200]
        runs.append({"hits": hits, "which": which, "extra": sorted(extra), "exc": exc, "main": _main_status(s), "heads": heads, "choices": list(_CH["log"]),
                     "fails": fails, "kids": kids, "mains": mains, "nch": nch})
    obs["runs"] = runs
    return obs


def run_ctx(case):
    """a program with group statements in context (loops, sequences, nested when bodies, sub-flows): per event the markers"""
    sm = _M["sm"]
    obs = {}
    try:
        src = cx.program(case["prog"], case["subs"], case.get("fail", False))
        obs["src"] = src
        with _quiet(), _time_limit(20):
            r = _M["parse"](filename="", content=src, include_source_mapping=False, version="2.x")
            st = _M["State"](flow_states=[], flow_configs=_M["cfgs"](r["flows"]))
            sm.initialize_state(st)
            sm.run_to_completion(st, _M["InternalEvent"](name="StartFlow", arguments={"flow_id": "main"}))
        obs["start_out"] = sorted({e.get("type") for e in st.outgoing_events if str(e.get("type")).startswith("Hit")})
        obs["main_after_start"] = _main_status(st)
    except Exception as e:  # noqa
        obs["build_exc"] = f"{type(e).__name__}: {e}"[:300]
        return obs
    runs = []
    import random as _random
    for seq in case["seqs"]:
        s = copy.deepcopy(st)
        marks, exc = [], None
        _CH["rng"] = _random.Random(json.dumps([case["g"], seq]))
        _CH["log"] = []
        try:
            with _quiet(), _time_limit(20):
                for a in seq:
                    sm.run_to_completion(s, {"type": ev_name(a)})
                    marks.append([e.get("type") for e in s.outgoing_events if str(e.get("type")).startswith("Hit")])
        except Exception as e:  # noqa
            exc = f"{type(e).__name__}: {e}"[:200]
        runs.append({"marks": marks, "exc": exc, "main": _main_status(s), "n_flow_states": len(s.flow_states)})
    obs["runs"] = runs
    return obs


def _heads(st):
    """all heads of the main flow: [position relative to the first element of the group statement, status code]"""
    try:
        fs = st.flow_id_states["main"][-1]
        return sorted([h.position - 1, STATUS_CODE.get(h.status.name, 9)] for h in fs.heads.values())
    except Exception as e:  # noqa
        return [["?", type(e).__name__]]


def _kids(st):
    """atoms of the child-flow instances f<i> that are still running"""
    try:
        return sorted(int(fs.flow_id[1:]) for fs in st.flow_states.values()
                      if re.fullmatch(r"f\d+", fs.flow_id) and fs.status.name in ("WAITING", "STARTING", "STARTED"))
    except Exception as e:  # noqa
        return ["?", type(e).__name__]


def failure_events(case, run):
    """per event: was the failure path of the statement taken while processing it? (else branch / main flow aborted)"""
    if case["op"] == "whenfe":
        return list(run["fails"])
    out, prev = [], "STARTED"
    for m in run["mains"]:
        out.append(1 if (m != "STARTED" and prev == "STARTED") else 0)
        prev = m
    return out


def ev_name(a):
    return "X" if a == IRR else (f"F{a - FAIL}" if a >= FAIL else f"E{a}")


def _main_status(st):
    try:
        return [fs.status.name for fs in st.flow_id_states.get("main", [])][-1]
    except Exception:  # noqa
        return "?"


# ----------------------------------------------------------------------------- model

def _has_unknown(j):
    return "?" in json.dumps(j)


def model_requests(case, obs):
    kind = case["kind"]
    if kind == "ctx":
        # one activation of each (substituted) group formula on every suffix of every sequence
        reqs = []
        for kind_, g in ctx_formulas(case):
            sufs = [cx.view(kind_, seq)[i:] for seq in case["seqs"] for i in range(len(seq))]
            reqs.append({"m": "C07.flow", "g": g, "seqs": sufs} if case.get("fail") else {"m": "C07.markers", "g": g, "seqs": sufs})
        return reqs
    if "g_seen" not in obs or _has_unknown(obs["g_seen"]):
        return []
    if kind == "norm":
        return [{"m": "C07.normalize", "g": obs["g_seen"]}]
    if kind == "expand" and case.get("stmt") == "when":
        kinds = case["kinds"] + ["ev"] * 10
        atoms = sorted({a for g in obs["gs_seen"] for a in atoms_of(g)})
        return [{"m": "C07.expandWhen", "cases": [{"g": g, "body": [["send", i]]} for i, g in enumerate(obs["gs_seen"])],
                 "else": [["send", 99]] if case.get("else") else None, "flows": [a for a in atoms if kinds[a] == "flow"],
                 "prims": obs.get("prims", [])}]
    if kind == "expand":
        return [{"m": "C07.expandAwait" if case.get("stmt") == "await" else "C07.expand", "g": obs["g_seen"], "prims": obs.get("prims", [])}]
    reqs = [{"m": "C07.markers", "g": obs["g_seen"], "seqs": [finish_view(s) for s in case["seqs"]]}]
    if case["op"] == "match" and "runs" in obs:
        # head-level machine with the tie-breaks the interpreter drew
        reqs.append({"m": "C07.vm", "g": obs["g_seen"], "seqs": case["seqs"], "choices": [r["choices"] for r in obs["runs"]]})
    if case["op"] == "match" and "runs" in obs and "prog" in obs:
        # CoreVM (the whole-interpreter model) on the same expanded program, same events, same tie-breaks: GroupVM ⇔ CoreVM by execution
        for seq, r in list(zip(case["seqs"], obs["runs"]))[:COREVM_SEQS]:
            evs = [{"ev": {"kind": "internal", "name": "StartFlow", "args": [["flow_id", {"s": "main"}]]}, "choices": []}]
            prev = 0
            for a, n in zip(seq, r["nch"]):
                evs.append({"ev": {"kind": "plain", "name": ev_name(a), "args": []}, "choices": r["choices"][prev:n]})
                prev = n
            reqs.append({"m": "CoreVMJson.run", "prog": obs["prog"], "events": evs, "fuel": 400})
    if case["op"] in FLOW_OPS and "runs" in obs:
        # flow-level machine (child flows, Finished / Failed, failure path, clean-up of the losers)
        reqs.append({"m": "C07.flow", "g": obs["g_seen"], "seqs": case["seqs"]})
    return reqs


def ctx_formulas(case):
    """the distinct (statement view, substituted formula) pairs of the program; view = "match" (events) or "flow" """
    out = []
    for k, g in cx.groups_of(case["prog"]):
        x = ("match" if k == "match" else "flow", cx.subst(g, case["subs"]))
        if x not in out:
            out.append(x)
    return out


def ctx_check(case, obs, first_sat, who):
    if "build_exc" in obs:
        return "program with the group statements did not build/start: " + obs["build_exc"]
    if obs.get("start_out"):
        return f"markers {obs['start_out']} emitted before any event was received"
    for seq, run in zip(case["seqs"], obs["runs"]):
        if run["exc"]:
            return f"sequence {seq}: run_to_completion raised {run['exc']}"
        got = (tuple(tuple(x) for x in run["marks"]), run["main"] != "STARTED")
        poss = cx.traces(case["prog"], case["subs"], seq, first_sat)
        if got not in poss:
            exp = sorted(poss)[0]
            k = next((i for i, (a, b) in enumerate(zip(got[0], exp[0])) if a != b), None)
            return (f"{case['tmpl']} program: sequence {seq}: markers per event {[list(x) for x in got[0]]}, main flow {run['main']}, but {who} "
                    f"{[list(x) for x in exp[0]]}{', main flow aborted by a failing group' if exp[1] else ''}"
                    f"{' (or ' + str(len(poss) - 1) + ' other tie outcomes)' if len(poss) > 1 else ''}; first difference at index {k} "
                    f"(every group statement completes at the first prefix, since IT became active, that satisfies its formula)")
    return None


def finish_view(seq):
    """the sequence as the formula over Finished events sees it: a failure event, and a finish event of a flow that
    has failed before, are irrelevant (that flow will never finish)"""
    out, dead, fin = [], set(), set()
    for a in seq:
        if a >= FAIL:
            if a - FAIL not in fin:
                dead.add(a - FAIL)
            out.append(IRR)
        elif a in dead:
            out.append(IRR)
        else:
            if a != IRR:
                fin.add(a)
            out.append(a)
    return out


def compare(case, obs, mouts):
    m = mouts[0]
    kind = case["kind"]
    if kind == "ctx":
        table = {}
        sufs = [(tuple(seq), i) for seq in case["seqs"] for i in range(len(seq))]
        for (kind_, g), mo in zip(ctx_formulas(case), mouts):
            if case.get("fail"):
                for (sq, i), tr_ in zip(sufs, mo["runs"]):
                    os_ = [st_["o"] for st_ in tr_]
                    table[(kind_, json.dumps(g), sq, i)] = ((i + os_.index(1)) if 1 in os_ else None, (i + os_.index(2)) if 2 in os_ else None)
            else:
                for (sq, i), mk in zip(sufs, mo["markers"]):
                    table[(kind_, json.dumps(g), sq, i)] = ((i + mk.index(True)) if True in mk else None, None)

        def outcome_model(kind_, g, seq, i):
            return table.get(("match" if kind_ == "match" else "flow", json.dumps(g), tuple(seq), i), (None, None))

        return ctx_check(case, obs, outcome_model, "the model (Dnf.markers / GroupFlow.outs per activation) gives")
    if kind == "norm":
        if "exc" in obs:
            return f"normalize_element_groups raised {obs['exc']}, model returned {json.dumps(m['norm'])[:120]}"
        if obs["norm"] != m["norm"]:
            return f"normalize_element_groups -> {json.dumps(obs['norm'])[:200]} but model -> {json.dumps(m['norm'])[:200]}"
        return None
    if kind == "expand":
        if "exc" in obs:
            return f"expand_elements raised {obs['exc']}"
        mp = canon_prims(m["prims"])
        if obs["prims"] != mp:
            i = next((i for i, (a, b) in enumerate(zip(obs["prims"], mp)) if a != b), min(len(obs["prims"]), len(mp)))
            return f"expanded element list differs from the model at index {i}: impl {obs['prims'][i:i + 3]} model {mp[i:i + 3]}"
        if m["readback"] != m["dnf"]:
            return f"readBack of the real element list = {m['readback']} but normalize gives {m['dnf']}"
        if case.get("stmt") == "when":
            return None  # (labels of a when statement are duplicated by construction: the code emits case / else groups repeatedly)
        if not m["distinct"]:
            return "label names of the real element list are not distinct"
        return None
    if "build_exc" in obs:
        return "program did not build: " + obs["build_exc"]
    for seq, run, mk in zip(case["seqs"], obs["runs"], m["markers"]):
        exp = [1 if b else 0 for b in mk]
        if run["exc"] or run["hits"] != exp:
            return f"sequence {seq}: implementation hits {run['hits']} exc={run['exc']}, model markers {exp}"
        if not case["op"].endswith("f") and run["main"] != "STARTED":
            # model: after completion no head of the group is left, before completion the heads just wait
            return f"sequence {seq}: main flow ended in status {run['main']} (model: it keeps waiting on `match Never()`)"
    if case["op"] in FLOW_OPS and len(mouts) > 1:
        fl = mouts[-1]
        if sorted(fl["init"]) != obs.get("kids_init"):
            return f"child flows running after the statement was reached: implementation {obs.get('kids_init')}, flow-level model {sorted(fl['init'])}"
        for seq, run, tr in zip(case["seqs"], obs["runs"], fl["runs"]):
            fe = failure_events(case, run)
            for k, step in enumerate(tr):
                if (1 if step["o"] == 1 else 0) != run["hits"][k] or (1 if step["o"] == 2 else 0) != fe[k]:
                    return (f"sequence {seq} event {k}: flow-level model says {['nothing', 'marker', 'failure path'][step['o']]}, implementation "
                            f"hits {run['hits']} failure path {fe} (main {run['mains']})")
                if sorted(step["ch"]) != run["kids"][k]:
                    return f"sequence {seq} event {k}: running child flows implementation {run['kids'][k]}, flow-level model {sorted(step['ch'])}"
        return None
    if len(mouts) > 1:
        v = mouts[1]
        if not v["nonempty"]:
            return None
        if sorted(v["init"]) != obs.get("heads_init"):
            return f"heads after the group statement was reached: implementation {obs.get('heads_init')}, head-level model {sorted(v['init'])}"
        for seq, run, tr in zip(case["seqs"], obs["runs"], v["runs"]):
            for k, (step, hreal) in enumerate(zip(tr, run["heads"])):
                if (1 if step["m"] else 0) != run["hits"][k]:
                    return f"sequence {seq} event {k}: head-level model marker {step['m']}, implementation hits {run['hits']} (tie-breaks {run['choices']})"
                if sorted(step["heads"]) != hreal:
                    return f"sequence {seq} event {k}: heads (position, status) implementation {hreal}, head-level model {sorted(step['heads'])} (tie-breaks {run['choices']})"
        # GroupVM against CoreVM
        for seq, run, tr, cvm in zip(case["seqs"], obs["runs"], v["runs"], mouts[2:]):
            msg = corevm_vs_groupvm(seq, run, tr, cvm, v["init"])
            if msg:
                return msg
    return None


def corevm_heads(d):
    """heads of the main flow in a CoreVM digest as [position - 1, status code], sorted"""
    code = {"active": 0, "merging": 1, "inactive": 2}
    for i in d.get("insts", []):
        if i[1] == "main":
            return sorted([h[0] - 1, code.get(h[1], 9)] for h in i[5])
    return None


def corevm_vs_groupvm(seq, run, tr, cvm, init):
    """per event: CoreVM's main-flow heads and marker = GroupVM's (a digest with res != ok: CoreVM could not follow, not compared)"""
    if not isinstance(cvm, list) or not cvm or any(d.get("res") != "ok" for d in cvm):
        return None
    if len(cvm) != len(seq) + 1:
        return f"sequence {seq}: CoreVM processed {len(cvm) - 1} of {len(seq)} events"
    if corevm_heads(cvm[0]) != sorted(init):
        return f"heads after the group statement was reached: CoreVM {corevm_heads(cvm[0])}, head-level model {sorted(init)}"
    for k, (step, d) in enumerate(zip(tr, cvm[1:])):
        hit = sum(1 for o in d.get("out", []) if o[0] == "Hit")
        if hit != (1 if step["m"] else 0):
            return f"sequence {seq} event {k}: CoreVM emits {hit} markers, head-level model {step['m']} (tie-breaks {run['choices']})"
        if corevm_heads(d) != sorted(step["heads"]):
            return f"sequence {seq} event {k}: heads (position, status) CoreVM {corevm_heads(d)}, head-level model {sorted(step['heads'])} (tie-breaks {run['choices']})"
        if d.get("choices_left", 0) != 0:
            return f"sequence {seq} event {k}: CoreVM left {d.get('choices_left')} recorded tie-breaks unused"
    return None


# ----------------------------------------------------------------------------- oracle (formula, written from the statement)

def expected_hits(g, seq):
    """formula over the set of received events (match) / of flows that have Finished (await, when)"""
    out, s, done, failed = [], set(), False, set()
    for a in seq:
        if a >= FAIL:
            if a - FAIL not in s:
                failed.add(a - FAIL)  # the flow fails before finishing: it will never finish
        elif a not in failed:
            s.add(a)
        if not done and ev(g, s):
            out.append(1)
            done = True
        else:
            out.append(0)
    return out


def _clauses_of_norm(n):
    """None unless n is an `or` of `and`s of atoms"""
    if not (isinstance(n, dict) and "or" in n):
        return None
    cl = []
    for c in n["or"]:
        if not (isinstance(c, dict) and "and" in c and all("a" in x for x in c["and"])):
            return None
        cl.append([x["a"] for x in c["and"]])
    return cl


def oracle(case, obs):
    kind = case["kind"]
    g = case["g"]
    if kind == "ctx":
        return ctx_check(case, obs, cx.outcome_py, "the formula says")
    if kind == "expand" and case.get("stmt") == "when":
        if "exc" in obs:
            return None  # reported by the correspondence
        if obs.get("gs_seen") != case["cases"]:
            return f"the parser built {json.dumps(obs.get('gs_seen'))[:160]} for when cases spelled {json.dumps(case['cases'])[:160]}"
        return None
    if kind in ("norm", "expand"):
        if "build_exc" in obs:
            return "could not build the group: " + obs["build_exc"]
        if (kind == "expand" or case["via"] == "text") and renderable(g) and obs.get("g_seen") != g:
            return f"the parser built {json.dumps(obs.get('g_seen'))[:160]} for a group spelled {json.dumps(g)[:160]}"
        if kind == "expand":
            return None  # structure only: carried by the correspondence (mirror + readBack)
        if "exc" in obs:
            return "normalize_element_groups raised " + obs["exc"]
        cl = _clauses_of_norm(obs["norm"])
        if cl is None:
            return f"result is not an or-group of and-groups of specs: {json.dumps(obs['norm'])[:200]}"
        al = sorted(set(atoms_of(g)))
        for bits in itertools.product([False, True], repeat=len(al)):
            s = {a for a, b in zip(al, bits) if b}
            if any(all(a in s for a in c) for c in cl) != ev(g, s):
                return f"normalised group differs from the formula on the event set {sorted(s)}: clauses {cl}"
        if obs.get("arg_mutated"):
            return "normalize_element_groups changed its argument"
        return None
    # e2e
    if "build_exc" in obs:
        return "program with the group statement did not build/start: " + obs["build_exc"]
    if renderable(g) and obs.get("g_seen") != g:
        return f"the parser built {json.dumps(obs.get('g_seen'))[:160]} for a group spelled {json.dumps(g)[:160]}"
    for seq, run in zip(case["seqs"], obs["runs"]):
        exp = expected_hits(g, seq)
        if run["exc"]:
            return f"sequence {seq}: run_to_completion raised {run['exc']}"
        if run["hits"] != exp:
            got = run["hits"]
            k = next(i for i, (a, b) in enumerate(zip(got, exp)) if a != b)
            what = "before the formula is satisfied" if got[k] > exp[k] and 1 not in exp[:k + 1] else ("again after completion" if got[k] > exp[k] else "not at the first satisfying prefix")
            return f"{case['op']} group {render(g, case['kinds'] + ['ev'] * 10)}: sequence {seq}: marker {what} (hits {got}, formula says {exp}, main flow {run['main']})"
        if case["op"] in FAIL_OPS:
            fe = failure_events(case, run)
            fin, dead = set(), set()
            for k, a in enumerate(seq):
                if a >= FAIL:
                    if a - FAIL not in fin:
                        dead.add(a - FAIL)
                elif a not in dead:
                    fin.add(a)
                if fe[k] and (1 in exp[:k + 1] or ev(g, set(atoms_of(g)) - dead)):
                    return (f"{case['op']} group {render(g, case['kinds'] + ['ev'] * 10)}: sequence {seq}: the failure path was taken at index {k} although the "
                            f"group {'had completed' if 1 in exp[:k + 1] else 'can still be satisfied (failed flows ' + str(sorted(dead)) + ')'}")
        if 1 in exp:
            k = exp.index(1)
            if case["op"] == "when2":
                own = g["or"][0] if run.get("which") == ["Hit"] else g["or"][1]
                if expected_hits(own, seq[:k + 1])[-1:] != [1] and 1 not in expected_hits(own, seq[:k + 1]):
                    return f"when2 {render(g, case['kinds'] + ['ev'] * 10)}: sequence {seq}: case {run.get('which')} fired at index {k} but its own group is not satisfied"
            elif run.get("which", ["Hit"]) != ["Hit"]:
                return f"sequence {seq}: unexpected marker {run.get('which')}"
    return None


def occurrence_clauses(g):
    """DNF over leaf occurrences (ids in DFS order): which source occurrences end up in which clauses"""
    counter = itertools.count()

    def go(x):
        if "a" in x:
            return [[(next(counter), x["a"])]]
        if "or" in x:
            return [c for k in x["or"] for c in go(k)]
        res = [[]]
        for k in x["and"]:
            d = go(k)
            res = [r + c for r in res for c in d]
        return res

    return go(g)


def signature(case, obs, msg):
    if case["kind"] == "e2e" and case["op"] in ("when", "whenmix", "whenf", "when2"):
        kinds = case["kinds"] + ["ev"] * 10
        cl = occurrence_clauses(case["g"])
        count = {}
        for c in cl:
            for occ, a in c:
                if kinds[a] == "flow":
                    count[occ] = count.get(occ, 0) + 1
        if any(v >= 2 for v in count.values()):
            return "when-group-flow-spec-shared-by-clauses"
    return None


def nontrivial(case, obs):
    g = case["g"]
    rich = len(ops_of(g)) == 2 or len(atoms_of(g)) >= 3
    if case["kind"] == "ctx":
        # some sequence re-enters a group statement / reaches a second stage
        return any(sum(len(x) for x in r["marks"]) >= 2 for r in obs.get("runs", []))
    if case["kind"] != "e2e":
        return rich
    return rich and any(1 in expected_hits(g, s)[1:] for s in case["seqs"])


def tags(case, obs):
    g = case["g"]
    t = ["kind:" + case["kind"], f"leaves:{min(len(atoms_of(g)), 12)}", f"depth:{depth_of(g)}", "ops:" + "+".join(sorted(ops_of(g)))]
    if case["kind"] == "norm":
        t.append("via:" + case["via"])
        cl = _clauses_of_norm(obs.get("norm")) if "norm" in obs else None
        if cl is not None:
            t.append(f"clauses:{min(len(cl), 16)}")
    if case["kind"] == "expand":
        t.append("stmt:" + case.get("stmt", "match"))
    if case["kind"] == "expand" and "prims" in obs:
        t.append(f"prims:{len(obs['prims']) // 10 * 10}+")
    if case["kind"] == "ctx":
        t.append("tmpl:" + case["tmpl"] + ("+fail" if case.get("fail") else ""))
        t.extend(sorted({"ctx-stmt:" + k for k, _ in cx.groups_of(case["prog"])}))
        if "runs" in obs:
            t.append(f"max-markers:{min(4, max([sum(len(x) for x in r['marks']) for r in obs['runs']] + [0]))}")
            t.extend("main:" + m for m in sorted({r["main"] for r in obs["runs"]}))
    if case["kind"] == "e2e":
        t.append("op:" + case["op"])
        t.append(f"seqs:{len(case['seqs'])}")
        if "prog" in obs:
            t.append("corevm-prog")
        if "runs" in obs:
            n_hit = sum(1 for r in obs["runs"] if 1 in r["hits"])
            t.append("some-complete" if n_hit else "none-complete")
            if any(r["extra"] for r in obs["runs"]):
                t.append("extra-events")
            if any(len(set(s)) < len(s) for s in case["seqs"]):
                t.append("has-repeats")
            if any(IRR in s for s in case["seqs"]):
                t.append("has-irrelevant")
            if any(a >= FAIL for s in case["seqs"] for a in s):
                t.append("has-failing-flow")
            t.extend("main:" + m for m in sorted({r["main"] for r in obs["runs"]}))
    for k in ("build_exc", "exc"):
        if k in obs:
            t.append(k)
    return t


def _sub_formulas(g):
    if "a" in g:
        return
    op = "and" if "and" in g else "or"
    kids = g[op]
    for k in kids:
        yield k
    if len(kids) > 2:
        for i in range(len(kids)):
            yield {op: kids[:i] + kids[i + 1:]}
    for i, k in enumerate(kids):
        for s in _sub_formulas(k):
            yield {op: kids[:i] + [s] + kids[i + 1:]}


def shrink(case):
    if case["kind"] == "ctx":
        n = len(case["seqs"])
        if n > 1:
            for s in case["seqs"]:
                yield dict(case, seqs=[s])
            return
        s = case["seqs"][0]
        for i in range(len(s)):
            if len(s) > 1:
                yield dict(case, seqs=[s[:i] + s[i + 1:]])
        return
    if case.get("stmt") == "when":
        cs = case["cases"]
        for i in range(len(cs)):
            if len(cs) > 1:
                rest = cs[:i] + cs[i + 1:]
                yield dict(case, cases=rest, g={"or": rest})
            for sub in _sub_formulas(cs[i]):
                new = cs[:i] + [sub] + cs[i + 1:]
                yield dict(case, cases=new, g={"or": new})
        if case.get("else"):
            yield dict(case, **{"else": False})
        return
    if case["kind"] == "e2e":
        n = len(case["seqs"])
        if n > 8:
            yield dict(case, seqs=case["seqs"][:n // 2])
            yield dict(case, seqs=case["seqs"][n // 2:])
            return
        if n > 1:
            for s in case["seqs"]:
                yield dict(case, seqs=[s])
            return
        s = case["seqs"][0]
        for i in range(len(s)):
            if len(s) > 1:
                yield dict(case, seqs=[s[:i] + s[i + 1:]])
    for sub in _sub_formulas(case["g"]):
        yield dict(case, g=sub)
