"""C10 — event processing terminates and a faulty flow fails alone.

Tie:
  * translator `harness/translate/c10.py`: branch structure of `slide` (dispatch classes) checked by AST; every flow the real
    parser+expander produces (all shipped library flows, every generated program) is classified into `SlideGraph.Prog` data;
  * the VERIFIED checker `slideAcyclic` (Lean, theorem `slideAcyclic_sound`) decides the hypothesis "loops contain a waiting
    statement" per flow; its verdict is cross-checked against an independent Python DFS (completeness is not proved);
  * correspondence: every recorded real `slide()` call (start position, catch stack, truth values / exceptions of the
    expressions it evaluated) is replayed on the fuelled Lean `slide` model: same visited positions, same stop reason;
    the candidate scan of the matching phase is replayed on `matchPhaseAsIs` / `matchPhaseRepaired`;
  * the real interpreter runs through `RuntimeV2_x.process_events` (the event-processing API) under a step budget
    (monkeypatched counters on `slide`, head moves and internal events; CPU-time alarm as backstop).
Oracle (from the property statement): nothing escapes `process_events`; the processing stays within the budget B(program);
an injected error produces a `ColangError` event; observer flows (own interaction loops, unrelated to the faulty flow) emit
their marker for EVERY external event, including the one during which the error happens and the next one; every real `slide`
call on an acyclic flow makes at most |elements|+1 iterations (T1 on the implementation);
"fails only that flow": every flow INSTANCE in which a statement raised (slide or matching phase) is STOPPED, has no head left and
its FlowFailed event was processed by the end of the same `process_events` call; "is reported as a ColangError event": per call at
least as many ColangError events are processed as errors were raised.
Histories: the error may appear only in the K-th instance of the activated flow (global instance counter), the walk to the error
may be repeated after it (the same events again), observers may precede the faulty flow and may react through a sub-flow.
"""
import asyncio
import contextlib
import io
import json
import logging
import signal

from ..impl import c10_handlers as hd
from ..impl import c10_round as rm
from ..translate import c10 as tr
from ..translate import c10_classes as trc

PROPERTY = "C10"
THEOREM_MODULE = "NemoVerif.Theorems.C10"
RULE = ("program = faulty flow (3-7 statements from: assignment, action send, match, parametrised match, if/else, while-with-match, "
        "when/or-when, await sub-flow, log) with ONE erroneous statement inserted at EVERY position (kinds: bad expression, unknown "
        "variable, wrong type, invalid regex, bad send argument, bad if condition, and raised-while-matching: comparison type "
        "mismatch / invalid regex / bad expression in match arguments), started as @active (activated), by a raw StartFlow, or by an "
        "activated launcher; plus one @active observer flow per external event name in its own interaction loop; plus activated "
        "flows that finish/fail immediately; plus all shipped library flows (checker only). Further error kinds: division by zero, index "
        "out of range, priority out of range, return/log expression, unknown event of a flow/action reference (AssertionError / "
        "ColangSyntaxError, i.e. not a Colang exception class), errors raised while a pattern-failure handler is installed (when-pattern "
        "with action/flow arguments; match in when/or-when/else), two errors in one candidate scan. Every program also with a longer "
        "history: error only in the K-th (2nd/3rd) instance of the activated flow, the walk to the error repeated after it, observers "
        "ahead of the faulty flow or reacting through a sub-flow; loops with break/continue; start by a complete raw StartFlow. "
        "WAVE 6: statements whose error is raised OUTSIDE every try block of the state machine and leaves run_to_completion (action-event validation "
        "when the outgoing UMIM event is built: wrong-typed / missing / reserved parameters; bad default value expressions of flow parameters / return "
        "members and StartFlow events no instance can be created from; bad expressions in @meta decorator tags, evaluated when the flow finishes), external "
        "events run_to_completion rejects, several events per process_events call (also 9-30 harmless events in front of the rejected one), each with "
        "activated handler flows that answer every `match ColangError()` with a marker event. "
        "non-trivial = the erroneous statement was "
        "reached (an exception was raised inside the interpreter) or the case is an immediate finish/fail of an activated flow.")
TRUSTED_BASE = [
    "translator harness/translate/c10_classes.py (AST of the except branch of process_events, of the ColangError constructors of statemachine.py and of the "
    "class-test guard; the tree's own parser + get_event_from_element for the reference event of `match ColangError()`)",
    "translator harness/translate/c10.py (element classification table; AST check of slide()'s dispatch)",
    "correspondence harness harness/props/C10.py (monkeypatched slide / _flow_head_changed / eval_expression / "
    "_compute_event_matching_score recorders) + Lean driver Drive/C10.lean",
    "T2 is proved on the RoundMachine abstraction; that B bounds the REAL round rests on the per-run replay of recorded rounds (Drive/C10.lean `round`) "
    "and on the translator's RProg (wait kinds, late-death analysis, catchAt) in harness/impl/c10_round.py; a 40*(elements+10) per-call backstop remains",
]
ASSUMPTIONS = [
    "conversion step of process_events (Models/ProcessEvents.lean): escaped_error_is_reported is a theorem about the loop over an ARBITRARY run_to_completion "
    "and an observer machine that applies the class test isinstance(ref_event, type(event)); that the real matcher lets a waiting `match ColangError()` head match "
    "once the class test passes is matching (C04/C09), checked here by the oracle (every converted error makes every total reporting handler react) and by the "
    "driver op C10.convert on the classes observed at run time; the class data (Generated/C10Classes.lean) rests on the translator harness/translate/c10_classes.py",
    "whole-round termination (T2 run_terminates) is a theorem about the token abstraction RoundMachine, not about CoreVM; programs the verified "
    "checker roundRanked rejects are outside the hypothesis (no termination verdict for them)",
    "the ErrContain FRAGMENT does not model the recursive child/action clean-up of _abort_flow/_finish_flow nor forked-head recursion; "
    "both are covered by the CoreVM theorems of phase 4 (frame through _abort_flow / _finish_flow / slide / _advance_head_front, vm_advance_frame), "
    "which rest on CoreVM being the interpreter (C09 translator + correspondence) and are re-checked on the real FlowStates by the run-time frame "
    "comparison around every top-level _advance_head_front call",
    "no-propagation is a THEOREM only for faulty LEAF instances (vm_leaf_error_never_propagates; tag faulty-instance:leaf) — for instances with child "
    "flows or actions only the provenance clause of vm_error_contained is proved; the three raise sites found outside every try block in phase 4 "
    "(head advance, _handle_event_matching, send StartFlow without flow_id) are repaired (fixes/C10-*.diff) and CoreVM mirrors the repaired code: "
    "vm_except_branch covers `head.position += 1`, vm_handle_match_error_contained the per-head work of _handle_event_matching, "
    "startflow_without_flow_id_fails_sender the send; the remaining raise sites outside try blocks (look-ups of vanished instances, list.remove in "
    "_abort_flow, _resolve_action_conflicts evaluating expressions) are covered by the oracle 'nothing escapes / every observer reacts'",
    "the sliding graph over-approximates: dynamic `send $ref.X()` of non-action references is treated as sliding",
    "programs in which an activated flow completes a full pass on internally generated events only (e.g. `await` of a flow that "
    "finishes immediately) are outside the hypothesis 'loops contain a waiting statement' and are not generated",
]

BUDGET_FACTOR = 40  # empirical BACKSTOP per process_events call; the verdict comes from the proved per-round bound B
SLIDE_SAMPLE_CAP = 30
MATCH_SAMPLE_CAP = 12
ROUND_REPLAY_CAP = 10

MATCH_KINDS = ("match-cmp", "match-regex", "match-expr", "match-and-first", "match-and-second", "match-or-first", "match-or-second",
               "match-when-sibling", "match-child", "match-child-await", "match-grandchild", "match-when-else", "match-when-or-else",
               "match-and-both", "match-child-both")
ERR_STMT = {
    "bad-expr": ['$e = "t" + 3'],
    "unknown-var": ["$e = $nope + 1"],
    "wrong-type": ["$e = len(5)"],
    "bad-regex": ['$e = regex("(")'],
    "bad-priority": ['priority "high"'],
    "send-bad-arg": ['send Out(k="t" + 3)'],
    "if-bad-cond": ['if "t" + 3', "  $e = 1"],
    "abort": ["abort"],
    "match-cmp": ["match M(x=less_than(3))"],
    "match-regex": ['match M(x=regex("("))'],
    "match-expr": ['match M(x="t" + 3)'],
    # the raising head has SIBLING heads of the same flow / heads of CHILD flows waiting for the same event (candidates of one scan)
    "match-and-first": ['match M(x=$nope.value) and M(x="str")'],
    "match-and-second": ['match M(x="str") and M(x=$nope.value)'],
    "match-or-first": ["match M(x=less_than(3)) or M()"],
    "match-or-second": ["match M() or M(x=less_than(3)) or M(y=1)"],
    "match-when-sibling": ["when M(x=$nope.value)", "  $e = 1", "or when M()", "  $e = 2"],
    "match-child": ["start helper_m", "match M(x=$nope.value)"],
    "match-child-await": ["start helper_m", "start helper_m2", 'match M(x=regex("("))'],
    "match-grandchild": ["start helper_g", "match M(x=less_than(3))"],
    # further error sources of ordinary statements (value errors of other operators, statements other than assignments)
    "div-zero": ["$e = 1 / 0"],
    "index-range": ["$l = [1, 2]", "$e = $l[5]"],
    "priority-range": ["priority 2.0"],
    "return-bad-expr": ['return "t" + 3'],
    "log-bad-expr": ["log 1 / 0"],
    # errors that are NOT raised as one of the Colang exception classes (AssertionError of FlowState.get_event) / ColangSyntaxError at run time
    "ref-bad-event-match": ["start helper_h as $h", "match $h.Nope()"],
    "ref-bad-event-send": ["start helper_h as $h", "send $h.Nope()"],
    "action-bad-event": ['send UtteranceBotAction(script="a").Nope()'],
    # the error is raised while a pattern-failure handler (catch label) is installed: in the pattern of a `when` (slide phase) ...
    "when-action-bad-arg": ['when UtteranceBotAction(script="t" + 3)', "  $e = 1", "else", "  $e = 2"],
    "when-flow-bad-arg": ['when helper_w(p="t" + 3)', "  $e = 1", "or when NeverW()", "  $e = 2", "else", "  $e = 3"],
    # ... or while matching, with an `else` branch the flow could (wrongly) continue in
    "match-when-else": ["when M(x=$nope.value)", "  $e = 1", "else", "  $e = 2"],
    "match-when-or-else": ["when M(x=less_than(3))", "  $e = 1", "or when NeverD()", "  $e = 2", "else", "  $e = 3"],
    # TWO errors in one candidate scan (two heads of the faulty flow / the faulty flow and a child flow): one report each
    "match-and-both": ["match M(x=$nope.value) and M(x=less_than(3))"],
    "match-child-both": ["start helper_e", "match M(x=$nope.value)"],
    # errors raised OUTSIDE every try block of the pinned tree (open findings error-raised-while-handling-match /
    # error-raised-by-head-advance-outside-try / error-raised-while-processing-internal-event; contained once fixes/C10-handle-match-
    # error-contained.diff, C10-head-advance-inside-try.diff, C10-startflow-requires-flow-id.diff are applied): too many positional
    # parameters in the start of a flow (_start_flow, called from _handle_event_matching); a match statement whose event NAME cannot be
    # computed, directly behind a waiting statement (`head.position += 1` of _advance_head_front fires the head-changed callback before
    # the try block starts; behind a non-waiting statement the same statement is reached inside slide and contained); an internal
    # StartFlow event without flow_id (KeyError in _process_internal_events_without_default_matchers)
    "start-too-many-args": ["await helper_p(1, 2, 3)"],
    "match-bad-action-event": ['match UtteranceBotAction(script="a").Nope()'],
    "send-startflow-no-id": ["send StartFlow()"],
    # wave 6 -- runtime errors of a statement that are raised OUTSIDE every try block of the state machine (found by a static scan of
    # the raise / assert sites reachable from run_to_completion without passing a try, harness/translate/c10_classes.py::escape_sites,
    # + dynamic search): they leave run_to_completion and are converted into a ColangError event by RuntimeV2_x.process_events (the third
    # mechanism of the property's anchors).
    # (a) a wrong-typed / missing / reserved parameter of an action or event is only rejected when the OUTGOING UMIM event is built
    #     (utils.new_event_dict -> ensure_valid_event, called from _resolve_action_conflicts)
    "umim-script-int": ["$n = 3", "start UtteranceBotAction(script=$n)"],
    "umim-await-script-int": ["await UtteranceBotAction(script=3)"],
    "umim-script-missing": ["start UtteranceBotAction()"],
    "umim-when-script-int": ["when UtteranceBotAction(script=3)", "  $e = 1", "else", "  $e = 2"],
    "umim-send-uid-int": ["send Out(uid=3)"],
    "umim-send-created-int": ["send Out(event_created_at=3)"],
    "umim-send-event-type": ['send Out(event_type="x")'],
    "umim-bare-action-no-uid": ['send UtteranceUserActionFinished(final_transcript="hi")'],
    "umim-finished-transcript-int": ['send UtteranceUserActionFinished(final_transcript=3, action_uid="a", is_success=True)'],
    "umim-is-success-str": ['send FooActionFinished(action_uid="a", is_success="yes")'],
    "umim-unsuccess-no-reason": ['send FooActionFinished(action_uid="a", is_success=False)'],
    # (b) a bad default value expression of a flow parameter / return member is evaluated when the StartFlow event is PROCESSED
    #     (create_flow_instance, called from _process_internal_events_without_default_matchers); an internal StartFlow event the flow
    #     instance cannot be created from
    "default-param-bad": ["start helper_d"],
    "default-param-bad-await": ["await helper_d"],
    "default-return-bad": ["start helper_r"],
    "default-param-bad-activate": ["activate helper_d"],
    # (c) a bad expression in the meta tag of a flow decorator is evaluated when the flow FINISHES (_log_action_or_intents, called from
    #     _finish_flow behind the try block of _advance_head_front)
    "meta-intent-bad": ["await helper_i"],
    "meta-action-bad": ["await helper_a"],
}
# the kinds above: the error is raised outside slide / the matching scan (recorded as phase emit / start / finish)
ESCAPE_KINDS = tuple(k for k in ERR_STMT if k.startswith(("umim-", "default-", "meta-")))
ERR_FLOWS = {
    "start-too-many-args": ["flow helper_p $a", "  match NeverHP()", ""],
    "match-child": ["flow helper_m", "  match M()", "  match NeverH()", ""],
    "match-child-await": ["flow helper_m", "  match M()", "  match NeverH()", "", "flow helper_m2", "  match M(x=\"str\")", "  match NeverH()", ""],
    "match-grandchild": ["flow helper_m", "  match M()", "  match NeverH()", "", "flow helper_g", "  start helper_m", "  match M() and M(x=\"str\")", "  match NeverH()", ""],
    "ref-bad-event-match": ["flow helper_h", "  match NeverHH()", ""],
    "ref-bad-event-send": ["flow helper_h", "  match NeverHH()", ""],
    "when-flow-bad-arg": ["flow helper_w $p", "  match NeverHW()", ""],
    "match-child-both": ["flow helper_e", '  match M(x=regex("("))', "  match NeverH()", ""],
    "default-param-bad": ["flow helper_d $p = \"t\" + 3", "  match NeverHD()", ""],
    "default-param-bad-await": ["flow helper_d $p = \"t\" + 3", "  match NeverHD()", ""],
    "default-param-bad-activate": ["flow helper_d $p = \"t\" + 3", "  match NeverHD()", ""],
    "default-return-bad": ["flow helper_r -> $r = \"t\" + 3", "  match NeverHD()", ""],
    "startflow-context-params": ["flow helper_p $a", "  match NeverHP()", ""],
    "meta-intent-bad": ['@meta(user_intent="said {$nope.a}")', "flow helper_i", "  $x = 1", ""],
    "meta-action-bad": ['@meta(bot_action="did {1/0}")', "flow helper_a", "  $x = 1", ""],
}
M_EVENT = {"type": "M", "x": "str"}


# ----------------------------------------------------------------------------- translator (static tie, every run)

def translate():
    """slide()'s dispatch shape + the two sites of the conversion step of process_events as data (Generated/C10Classes.lean)"""
    info = dict(tr.check_slide_shape())
    info.update(trc.run())
    return info


# ----------------------------------------------------------------------------- generator

def stmt_pool(rng, i):
    """-> (lines, events needed to pass the statement, waits?)"""
    k = rng.choice(["assign", "assign", "send", "match", "match", "matchx", "ifelse", "while", "when", "await", "log", "action", "whilebreak", "whilecontinue"])
    if k == "assign":
        return [f"$v{i} = {i} + 1"], [], False, k
    if k == "send":
        return [f"send Out{i}(k={i})"], [], False, k
    if k == "match":
        return [f"match A{i}()"], [{"type": f"A{i}"}], True, k
    if k == "matchx":
        return [f"match B{i}(x=1)"], [{"type": f"B{i}", "x": 1}], True, k
    if k == "ifelse":
        return [f"if $v{i} == 1", f"  $w{i} = 1", "else", f"  $w{i} = 2"], [], False, k
    if k == "while":
        return [f"$i{i} = 0", f"while $i{i} < 2", f"  match W{i}()", f"  $i{i} = $i{i} + 1"], [{"type": f"W{i}"}, {"type": f"W{i}"}], True, k
    if k == "whilebreak":
        return [f"$i{i} = 0", "while True", f"  match W{i}()", f"  $i{i} = $i{i} + 1", f"  if $i{i} >= 2", "    break"], [{"type": f"W{i}"}, {"type": f"W{i}"}], True, k
    if k == "whilecontinue":
        return [f"$i{i} = 0", f"while $i{i} < 2", f"  match W{i}()", f"  $i{i} = $i{i} + 1", f"  if $i{i} < 9", "    continue", f"  $u{i} = 1"], \
            [{"type": f"W{i}"}, {"type": f"W{i}"}], True, k
    if k == "when":
        return [f"when C{i}()", f"  $w{i} = 1", f"or when D{i}()", f"  $w{i} = 2"], [{"type": f"C{i}"}], True, k
    if k == "await":
        return [f"await sub{i}"], [{"type": f"S{i}"}], True, k
    if k == "log":
        return [f'log "step {i}"'], [], False, k
    return [f'start UtteranceBotAction(script="hi {i}")'], [], False, k


def observer_flows(names, style):
    """one observer per external event name, each in its own interaction loop. style "direct": `match X` / `send SeenX`;
    style "sub": the observer reacts through a sub-flow (its reaction needs internal events of the same processing round)"""
    src = []
    for n, name in enumerate(names):
        if style == "sub":
            src += ["@active", f'@loop("obs{n}")', f"flow obs_{name}", f"  match {name}()", f"  await react_{n}", "",
                    f"flow react_{n}", f"  send Seen{name}()", ""]
        else:
            src += ["@active", f'@loop("obs{n}")', f"flow obs_{name}", f"  match {name}()", f"  send Seen{name}()", ""]
    return src


def build_program(stmts, inject_at, kind, mode, nested, opts=None):
    """Colang source + event script for one case.

    opts (all optional; the defaults give the plain program):
      at_instance K >= 2   the erroneous statement is guarded by a global instance counter: the first K-1 instances of the (activated)
                           flow run to their end and restart, the error appears in the K-th instance (and in every later one)
      relap True           after the error (and `Next`) the script walks to the erroneous statement a second time ("later events" that
                           are the SAME events again; an activated flow that failed after its first wait has been restarted and fails again)
      obs_first True       the observer flows are defined (and activated) BEFORE the faulty flow
      obs_style "sub"      observers react through a sub-flow
    """
    opts = opts or {}
    at_instance = opts.get("at_instance", 1) if mode in ("active", "launcher") else 1
    if not any(w for (_l, _e, w, _k) in stmts):
        at_instance = 1  # a flow without any waiting statement never completes a pass (immediate-finish guard): no later instance
    body, events, waits_before = [], [], 0
    subs = []
    if at_instance > 1:
        body += ["global $cnt", "if $cnt == None", "  $cnt = 0", "$cnt = $cnt + 1"]
    for idx, (lines, evs, waits, sk) in enumerate(stmts):
        if idx == inject_at:
            break
        body += lines
        events += evs
        waits_before += 1 if waits else 0
        if sk == "await":
            subs.append(lines[0].split()[1])
    err_lines = list(ERR_STMT[kind])
    if nested == "if":
        err_lines = ["if True"] + ["  " + l for l in err_lines]
    elif nested == "while":
        err_lines = ["$n = 0", "while $n < 1"] + ["  " + l for l in err_lines] + ["  $n = $n + 1"]
    if at_instance > 1:
        err_lines = [f"if $cnt >= {at_instance}"] + ["  " + l for l in err_lines]
    body += err_lines
    for idx, (lines, evs, waits, sk) in enumerate(stmts):
        if idx >= inject_at:
            body += lines
            if sk == "await":
                subs.append(lines[0].split()[1])
    full_lap = [e for (_l, evs, _w, _k) in stmts for e in evs]
    walk = [dict(e) for e in events] + ([dict(M_EVENT)] if kind in MATCH_KINDS else [])
    script = [{"type": "Boot"}]
    for _ in range(at_instance - 1):
        script += [dict(e) for e in full_lap]
    script += walk
    script.append({"type": "Next"})
    if opts.get("relap"):
        script += [dict(e) for e in walk] + [{"type": "Next"}]
    names = []
    for e in script:
        if e["type"] not in names:
            names.append(e["type"])
    obs_src = observer_flows(names, opts.get("obs_style", "direct"))
    if mode == "launcher":
        # "fails ONLY that flow": the launcher merely activated the faulty flow (it does not await it); it must still react afterwards
        script.append({"type": "PingL"})
    src = []
    if opts.get("obs_first"):
        src += obs_src
    if mode == "active":
        src.append("@active")
    src.append("flow faulty")
    src += ["  " + l for l in body]
    src.append("")
    for s in subs:
        src += [f"flow {s}", f"  match S{s[3:]}()", ""]
    src += ERR_FLOWS.get(kind, [])
    if not opts.get("obs_first"):
        src += obs_src
    if mode == "launcher":
        src += ["@active", "flow launcher", "  activate faulty", "  match PingL()", "  send SeenPingL()", ""]
    src.append("flow main")
    if mode == "raw":
        src.append('  send StartFlow(flow_id="faulty")')  # incomplete internal event: the faulty flow is never started
    elif mode == "raw-uid":
        src.append('  send StartFlow(flow_id="faulty", flow_instance_uid="faulty_instance_1")')  # started, not activated, nobody awaits it
    src.append("  match Never()")
    meta = {"mode": mode, "kind": kind, "phase": "match" if kind in MATCH_KINDS else "slide", "waits_before": waits_before,
            "inject_at": inject_at, "nested": nested, "expect_error": True}
    if at_instance > 1:
        meta["at_instance"] = at_instance
    for k in ("relap", "obs_first", "obs_style"):
        if opts.get(k):
            meta[k] = opts[k]
    return {"kind": "prog", "src": "\n".join(src) + "\n", "events": script, "meta": meta}


def random_opts(rng, mode):
    """a non-default combination of the history / observer options of `build_program`"""
    while True:
        o = {}
        if mode in ("active", "launcher") and rng.random() < 0.5:
            o["at_instance"] = rng.choice([2, 2, 3])
        if rng.random() < 0.5:
            o["relap"] = True
        if rng.random() < 0.4:
            o["obs_first"] = True
        if rng.random() < 0.4:
            o["obs_style"] = "sub"
        if o:
            return o


QUICK_BODIES = [
    (["$x = 1"], "assign-only"),
    (['log "hi"'], "log-only"),
    (["pass"], "pass"),
    (["$x = 1", "if $x == 1", "  $y = 2"], "if-only"),
    (["send Out(k=1)"], "send-only"),
    (["$x = 1", "start_new_flow_instance:", "match Q()"], "early-restart-label"),
    (['start UtteranceBotAction(script="q")', "$x = 2"], "action-only"),
    (["$i = 0", "while $i < 3", "  $i = $i + 1"], "bounded-while-no-wait"),
]


def quick_case(body, name, extra_peer):
    src = ["@active", "flow quick"] + ["  " + l for l in body] + [""]
    if extra_peer:
        src += ["@active", "flow quick2", "  $z = 1", ""]
    script = [{"type": "Boot"}, {"type": "Q"}, {"type": "Next"}]
    for n, e in enumerate(script):
        src += ["@active", f'@loop("obs{n}")', f"flow obs_{e['type']}", f"  match {e['type']}()", f"  send Seen{e['type']}()", ""]
    src += ["flow main", "  match Never()"]
    meta = {"mode": "active", "kind": "none", "phase": "none", "waits_before": 0, "inject_at": -1, "nested": None, "expect_error": False, "quick": name}
    return {"kind": "prog", "src": "\n".join(src) + "\n", "events": script, "meta": meta}


CASCADES = [
    (["await kid"], ['$e = "t" + 3'], "await-child-raises"),
    (["await kid"], ["abort"], "await-child-aborts"),
    (["start kid", "match Q()"], ["abort"], "start-child-aborts"),
    (["$x = 1", "start kid", "match Q()"], ["$y = 1", '$e = $nope + 1'], "start-child-raises-late"),
    (["start kid and kid2", "match Q()"], ["abort"], "start-group-child-aborts"),
]


def cascade_case(body, kid, name, extra_peer):
    """an activated flow that fails before it is started BECAUSE a flow it starts fails (pattern failure of the FlowStarted match)"""
    src = ["@active", "flow casc"] + ["  " + l for l in body] + ["", "flow kid"] + ["  " + l for l in kid] + ["", "flow kid2", "  match Q2()", ""]
    if extra_peer:
        src += ["@active", "flow peer", "  match Q()", "  $z = 1", ""]
    script = [{"type": "Boot"}, {"type": "Q"}, {"type": "Next"}]
    for n, e in enumerate(script):
        src += ["@active", f'@loop("obs{n}")', f"flow obs_{e['type']}", f"  match {e['type']}()", f"  send Seen{e['type']}()", ""]
    src += ["flow main", "  match Never()"]
    meta = {"mode": "active", "kind": "none", "phase": "none", "waits_before": 0, "inject_at": -1, "nested": None, "expect_error": False,
            "quick": "cascade:" + name, "cascade": name}
    return {"kind": "prog", "src": "\n".join(src) + "\n", "events": script, "meta": meta}



# ----------------------------------------------------------------------------- phase 5: flows that REACT to ColangError, hostile error texts

HANDLER_SETS = [
    ["warning of colang errors"],
    ["warning of colang errors"],
    ["warning of colang errors", "notification of colang errors"],
    ["notification of colang errors"],
    ["h_esc_dq"], ["h_esc_sq"], ["h_esc_braces"], ["h_plain"], ["h_type_only"], ["h_twice"],
    ["h_raw_dq"], ["h_raw_sq"],
    ["warning of colang errors", "h_esc_dq", "h_plain"],
    ["h_esc_sq", "h_twice"],
]


def with_handlers(case, names):
    """an ordinary generated program plus activated flows that react to ColangError (shipped helpers cut out of $VERIF_REPO's core.co)"""
    c = json.loads(json.dumps(case))
    c["src"] = "\n".join(hd.handler_src(tr.REPO, names)) + "\n" + c["src"]
    c["meta"]["handlers"] = list(names)
    return c


def hostile_case(rng, names, kind, relap, nul=False):
    """faulty flow whose failing statement has string operands made of quoting characters (they end up in the error text), or
    interpolates a hostile text carried by the external event; plus the handler flows `names`"""
    lines, needs_t, matching = hd.hostile_stmt(rng, kind)
    body = ["match Go() as $g"] + (["$t = $g.text"] if needs_t else []) + (["$v = 1"] if rng.random() < 0.3 else []) + lines + ["$after = 1"]
    texts = [hd.hostile_text(rng, nul=nul and needs_t) for _ in range(2)]
    lap = [{"type": "Go", "text": texts[0]}] + ([dict(M_EVENT)] if matching else []) + [{"type": "Next"}]
    script = [{"type": "Boot"}] + lap
    if relap:
        script += [{"type": "Go", "text": texts[1]}] + ([dict(M_EVENT)] if matching else []) + [{"type": "Next"}]
    names_ev = []
    for e in script:
        if e["type"] not in names_ev:
            names_ev.append(e["type"])
    src = hd.handler_src(tr.REPO, names) + ["@active", "flow faulty"] + ["  " + l for l in body] + [""]
    src += observer_flows(names_ev, rng.choice(["direct", "direct", "sub"]))
    src += ["flow main", "  match Never()"]
    meta = {"mode": "active", "kind": "hostile-" + kind, "phase": "match" if matching else "slide", "waits_before": 1, "inject_at": 1, "nested": None,
            "expect_error": True, "handlers": list(names), "hostile": True}
    if relap:
        meta["relap"] = True
    if nul and needs_t:
        meta["nul"] = True
    return {"kind": "prog", "src": "\n".join(src) + "\n", "events": script, "meta": meta}


INSTANT_BODIES = [
    (["match Go()", "while True", '  await UtteranceBotAction(script="tick")'], "while-await-action"),
    (["match Go()", "$n = 0", "while $n < 1000", '  await UtteranceBotAction(script="tick {$n}")', "  $n = $n + 1"], "counted-await-action"),
    (['await UtteranceBotAction(script="tock")'], "activated-restart-on-action"),
    (["match Go()", "while True", '  await UtteranceBotAction(script="tick")', '  $e = "t" + 3'], "loop-fails-after-first-action"),
    # process_events feeds every OUTGOING event back in as an input event (next batch): a flow that waits for the event it sends itself
    (["match Go()", "send Ping()", "while True", "  match Ping()", "  send Ping()"], "echo-own-outgoing-event"),
    (["match Ping()", "send Ping()"], "activated-echo"),
]


def instant_case(body, name, max_events):
    """a loop whose waiting statement is served by the event-processing API itself: `instant_actions` finishes every started bot action
    right away and feeds the ...ActionFinished event back in. One process_events call processes at most runtime.max_events events
    (anchor `runtime.max_events`): the bound on the number of processing rounds per call"""
    src = ["@active", "flow ticker"] + ["  " + l for l in body] + [""]
    script = [{"type": "Boot"}, {"type": "Go"}] + ([{"type": "Ping"}] if name == "activated-echo" else []) + [{"type": "Next"}]
    src += observer_flows([e["type"] for e in script], "direct")
    src += ["flow main", "  match Never()"]
    meta = {"mode": "active", "kind": "none", "phase": "none", "waits_before": 0, "inject_at": -1, "nested": None, "expect_error": False,
            "quick": "instant:" + name, "instant": ["UtteranceBotAction"], "max_events": max_events}
    return {"kind": "prog", "src": "\n".join(src) + "\n", "events": script, "meta": meta}


# ----------------------------------------------------------------------------- wave 6: errors that ESCAPE run_to_completion (converted by process_events)

# external events run_to_completion cannot process (it raises before any flow is looked at: nothing is pending, nothing can be lost):
# the conversion step of process_events is exercised whatever the state machine catches itself
BAD_INPUTS = [
    {"type": "StartFlow"},                      # KeyError 'flow_id'
    {"type": "StartFlow", "flow_id": "faulty"},  # KeyError 'source_flow_instance_uid'
    {"type": "ContextUpdate", "data": 3},       # TypeError: 'int' object is not iterable
]
BAD_INPUT_TYPES = ("StartFlow", "ContextUpdate")
REPORTING_HANDLERS = ("h_esc_dq", "h_esc_sq", "h_plain", "h_type_only", "h_twice")
ESCAPE_HANDLER_SETS = [["h_type_only"], ["h_plain"], ["h_esc_dq"], ["warning of colang errors", "h_esc_dq", "h_plain"], ["h_esc_sq", "h_twice"], [],
                       ["warning of colang errors", "notification of colang errors"]]
# statements of a flow that are legal and make run_to_completion raise in a LATER processing round of the same call
LATE_ESCAPES = {"send-contextupdate-bad": ["send ContextUpdate(data=3)"],
                # (only in this family: the sending flow must still be alive when the event is processed, otherwise the start is skipped)
                "startflow-context-params": ['send StartFlow(flow_id="helper_p", flow_instance_uid="u1", context=1)']}


def escape_case(rng, kind, names, first, relap, bad_input, batch=False, pad=0):
    """faulty flow whose erroneous statement raises outside every try block of the state machine (ESCAPE_KINDS / LATE_ESCAPES), or
    a well-behaved flow next to an external event that run_to_completion rejects (kind None); handler flows `names` observe
    ColangError; the observers of the external events have an action pending in the very round in which the error is raised"""
    lines = list(ERR_STMT[kind]) if kind in ERR_STMT else list(LATE_ESCAPES.get(kind, ["$ok = 1"]))
    body = (lines + ["match Go()"]) if first else (["match Go()"] + lines)
    body += ["$after = 1", "send After()"]
    lap = [{"type": "Go"}, {"type": "Next"}]
    script = [{"type": "Boot"}]
    if bad_input is not None and rng.random() < 0.5:
        script.append(dict(bad_input))
    script += [dict(e) for e in lap]
    if bad_input is not None:
        script.append(dict(bad_input))
        script.append({"type": "Next"})
    if relap:
        script += [dict(e) for e in lap]
    ev_names = []
    for e in script:
        if e["type"] not in ev_names and e["type"] not in BAD_INPUT_TYPES:
            ev_names.append(e["type"])
    if batch:
        # several events handed to ONE process_events call ("later events" of the same call): every Next joins the event in front of it
        merged = []
        for e in script:
            if e["type"] == "Next" and merged and merged[-1] is not script[0]:
                merged[-1] = (merged[-1] if isinstance(merged[-1], list) else [merged[-1]]) + [e]
            else:
                merged.append(e)
        script = merged
    if pad:
        # a LONG call: `pad` harmless events in front of the event that makes run_to_completion raise, all handed to one process_events
        # call (the events counter of the call is well above zero when the conversion happens)
        for k, x in enumerate(script):
            if k > 0:
                script[k] = [{"type": "Pad"} for _ in range(pad)] + (x if isinstance(x, list) else [x])
        if "Pad" not in ev_names:
            ev_names.append("Pad")
    src = hd.handler_src(tr.REPO, names) + ["@active", "flow faulty"] + ["  " + l for l in body] + [""]
    src += ERR_FLOWS.get(kind, [])
    src += observer_flows(ev_names, rng.choice(["direct", "direct", "sub"]))
    src += ["flow main", "  match Never()"]
    meta = {"mode": "active", "kind": kind or "none", "phase": "escape", "waits_before": 0 if first else 1, "inject_at": 0 if first else 1, "nested": None,
            "expect_error": kind is not None, "escape": True}
    if kind is None:
        meta["quick"] = "bad-input"
    if names:
        meta["handlers"] = list(names)
    if relap:
        meta["relap"] = True
    if bad_input is not None:
        meta["bad_inputs"] = sorted({e["type"] for x in script for e in (x if isinstance(x, list) else [x]) if e["type"] in BAD_INPUT_TYPES})
    if batch or pad:
        meta["batch"] = True
    if pad:
        meta["pad"] = pad
    return {"kind": "prog", "src": "\n".join(src) + "\n", "events": script, "meta": meta}


def gen_escape_cases(rng, tier):
    out = []
    kinds = list(ESCAPE_KINDS) + list(LATE_ESCAPES)
    reps = 1 if tier == "quick" else 8
    n = len(ESCAPE_HANDLER_SETS)
    for r in range(reps):
        for i, kind in enumerate(kinds):
            # every kind with a reporting handler set, with another set / none, as the first statement of the activated flow
            out.append(escape_case(rng, kind, ESCAPE_HANDLER_SETS[(i + r) % 5], first=False, relap=rng.random() < 0.5, bad_input=None))
            out.append(escape_case(rng, kind, ESCAPE_HANDLER_SETS[(i + r + 3) % n], first=(i + r) % 3 == 0, relap=rng.random() < 0.3,
                                   bad_input=rng.choice(BAD_INPUTS) if rng.random() < 0.3 else None, batch=(i + r) % 2 == 0))
        for j, bi in enumerate(BAD_INPUTS):
            for k in range(2):
                out.append(escape_case(rng, None, ESCAPE_HANDLER_SETS[(j + 2 * k + r) % n], first=False, relap=bool(k), bad_input=bi))
            out.append(escape_case(rng, None, ESCAPE_HANDLER_SETS[(j + r) % 5], first=False, relap=True, bad_input=bi, batch=True))
            out.append(escape_case(rng, None, ESCAPE_HANDLER_SETS[(j + r + 1) % 5], first=False, relap=False, bad_input=bi, pad=rng.choice([9, 14, 30])))
        for kind in rng.sample(kinds, 4):
            out.append(escape_case(rng, kind, ESCAPE_HANDLER_SETS[rng.randrange(5)], first=False, relap=False, bad_input=None, pad=rng.choice([9, 14, 30])))
    return out


def gen_handler_cases(rng, tier, base_cases):
    out = []
    n_sets = len(HANDLER_SETS)
    # every handler set x every kind of hostile statement (quick: 2 texts each, thorough: 12)
    reps = 2 if tier == "quick" else 12
    for r in range(reps):
        for i, names in enumerate(HANDLER_SETS):
            for j, kind in enumerate(dict.fromkeys(hd.STMT_KINDS)):
                if tier == "quick" and (i + j + r) % 2:
                    continue
                out.append(hostile_case(rng, names, kind, relap=rng.random() < 0.4))
    # NUL in an event-carried text (region of the open finding error-report-loop:unencodable-error-text)
    for r in range(2 if tier == "quick" else 10):
        out.append(hostile_case(rng, rng.choice(HANDLER_SETS[:3]), rng.choice(["event-text", "event-text-sq", "event-text-only"]), relap=False, nul=True))
    # the ordinary error-injection programs (all error kinds, positions, start modes, histories) with handler flows activated
    progs = [c for c in base_cases if c["kind"] == "prog" and c["meta"].get("expect_error")]
    rng.shuffle(progs)
    for k, c in enumerate(progs[: (120 if tier == "quick" else 1500)]):
        out.append(with_handlers(c, HANDLER_SETS[k % n_sets]))
    return out


def gen_cases(rng, tier):
    n_prog = 40 if tier == "quick" else 420
    cases = [{"kind": "lib"}]
    for body, name in QUICK_BODIES:
        cases.append(quick_case(body, name, False))
        cases.append(quick_case(body, name, True))
    for body, kid, name in CASCADES:
        cases.append(cascade_case(body, kid, name, False))
        cases.append(cascade_case(body, kid, name, True))
    kinds = list(ERR_STMT)
    for p in range(n_prog):
        n = rng.randrange(3, 8)
        stmts = [stmt_pool(rng, i) for i in range(n)]
        mode = rng.choice(["active", "active", "raw-uid", "launcher"])
        if mode == "raw-uid" and rng.random() < 0.2:
            mode = "raw"
        if mode == "launcher" and not stmts[0][2]:
            stmts[0] = ([f"match A0()"], [{"type": "A0"}], True, "match")
        # every position; the kinds rotate so that every (position, kind) pair is hit across programs (thorough: all kinds per position)
        for pos in range(n + 1):
            # (thorough: 35 full sweeps of all 33 kinds at every position -- as many (position, kind) pairs as the 70 sweeps of 20 kinds before)
            # (wave 6: 54 kinds; a full sweep at every 18th program keeps the number of (position, kind) pairs of the 36-kind sweeps at every 12th)
            ks = kinds if tier == "thorough" and p % 18 == 0 else [kinds[(p + pos) % len(kinds)], rng.choice(kinds)]
            for kind in dict.fromkeys(ks):
                if mode == "launcher" and pos == 0:
                    continue  # the launcher itself would fail while starting (it is related to the faulty flow)
                nested = rng.choice([None, None, None, "if", "while"]) if kind not in MATCH_KINDS else rng.choice([None, None, "if"])
                cases.append(build_program(stmts, pos, kind, mode, nested))
        # the same program with a longer history / other observers: error only in the K-th instance of the activated flow, the walk to
        # the error repeated after it, observers ahead of the faulty flow / reacting through a sub-flow (every position, rotating kinds)
        for pos in range(n + 1):
            for kind in dict.fromkeys([kinds[(p * 7 + pos * 3 + 1) % len(kinds)]] + ([rng.choice(kinds)] if tier == "quick" or p % 2 == 0 else [])):
                opts = random_opts(rng, mode)
                if mode == "launcher" and pos == 0 and opts.get("at_instance", 1) == 1:
                    continue
                nested = None if opts.get("at_instance") else rng.choice([None, None, "if"])
                cases.append(build_program(stmts, pos, kind, mode, nested, opts))
    cases += gen_handler_cases(rng, tier, cases)
    cases += gen_escape_cases(rng, tier)
    for body, name in INSTANT_BODIES:
        for me in ([12, 40] if tier == "quick" else [12, 20, 40, 120]):
            cases.append(instant_case(body, name, me))
    return cases


def escalate(rng, case, tier):
    """focused search after a broken obligation / correspondence: three more quick-size generations (about 1 200 cases)"""
    out = []
    for _ in range(3):
        out += [c for c in gen_cases(rng, "quick") if c["kind"] == "prog"]
    return out


# ----------------------------------------------------------------------------- implementation adapter

class Budget(BaseException):
    pass


class _R:
    rt = None
    sm = None
    rtm = None
    orig = {}
    cur = None
    st = None
    round = None
    round_ctx = None
    frame = None
    ref_class = None
    resolve_heads = None  # heads handed to the _resolve_action_conflicts call that is running (None outside)
    emit_flow = None      # flow whose action event is being evaluated / built inside that call
    state = None


def worker_init():
    logging.disable(logging.CRITICAL)
    import warnings
    warnings.filterwarnings("ignore", category=SyntaxWarning)  # `\{` written by escape() is an "invalid escape sequence" for ast.parse
    from nemoguardrails import RailsConfig
    from nemoguardrails.colang.v2_x.runtime import runtime as rtm
    from nemoguardrails.colang.v2_x.runtime import statemachine as sm

    with contextlib.redirect_stdout(io.StringIO()):
        cfg = RailsConfig.from_content(colang_content="flow main\n  match Never()\n", yaml_content="colang_version: 2.x\nmodels: []\n")
        _R.rt = rtm.RuntimeV2_x(cfg)
    _R.sm, _R.rtm = sm, rtm
    _R.orig = {
        "slide": sm.slide,
        "head_changed": sm._flow_head_changed,
        "eval": sm.eval_expression,
        "pie": sm._process_internal_events_without_default_matchers,
        "score": sm._compute_event_matching_score,
        "cands": sm._get_all_head_candidates,
        "rtc": rtm.run_to_completion,
        "push": sm._push_internal_event,
        "push_left": sm._push_left_internal_event,
        "abort": sm._abort_flow,
        "finish": sm._finish_flow,
        "start_flow": sm._start_flow,
        "create_ref": sm._create_event_reference,
        "resolve": sm._resolve_action_conflicts,
        "geve": sm.get_event_from_element,
        "cue": sm.create_umim_event,
        "cfi": sm.create_flow_instance,
        "logai": sm._log_action_or_intents,
    }
    rm.init()
    try:
        _R.ref_class = trc.match_ref_class()  # class of the reference event of `match ColangError()` in the tree under test
    except Exception:  # noqa
        _R.ref_class = None
    install()
    # run-time tie of the CoreVM frame theorem vm_advance_frame: wraps the CURRENT statemachine._advance_head_front (nothing else here patches it)
    from ..translate.c10_frame import FrameRecorder
    _R.frame = FrameRecorder().install(sm)


def install():
    sm, rtm, O = _R.sm, _R.rtm, _R.orig

    def slide_w(state, flow_state, flow_config, head):
        st = _R.st
        if st is None:
            return O["slide"](state, flow_state, flow_config, head)
        st["slides"] += 1
        if st["slides"] > st["budget"]:
            raise Budget("slide calls")
        labels = flow_config.element_labels
        rec = {"flow": flow_config.id, "pos": head.position, "cstack": [labels.get(l, -1) for l in head.catch_pattern_failure_label],
               "hstatus": head.status.name, "moves": [], "evals": [[]], "exc": None, "n": len(flow_config.elements)}
        prev = _R.cur
        _R.cur = (head.uid, rec)
        rnd = _R.round
        if rnd is not None:
            rnd.slide_begin(flow_state, head)
        nh = []
        try:
            nh = O["slide"](state, flow_state, flow_config, head)
            return nh
        except Exception as e:  # noqa
            rec["exc"] = type(e).__name__
            st["errs"].append([flow_state.uid, flow_config.id, "slide", type(e).__name__])
            try:  # hypothesis `Leafish1` of the Lean theorem vm_leaf_error_never_propagates, evaluated on the real FlowState at the raise
                par = state.flow_states.get(flow_state.parent_uid) if flow_state.parent_uid is not None else None
                leaf = (not flow_state.child_flow_uids and not flow_state.action_uids
                        and (flow_state.parent_uid is None or (par is not None and (flow_state.activated != 0 or flow_state.uid in par.child_flow_uids)))
                        and not any(fs.context is flow_state.context for u, fs in state.flow_states.items() if u != flow_state.uid))
                st["leaf"].append(bool(leaf))
            except Exception:  # noqa
                pass
            raise
        finally:
            if rnd is not None and _R.round is rnd:
                rnd.slide_end(flow_state, head, nh)
            _R.cur = prev
            rec["final"] = head.position
            rec["fstatus"] = head.status.name
            rec["fl_status"] = flow_state.status.name
            it = len(rec["moves"]) + 1
            st["max_iter_ratio"] = max(st["max_iter_ratio"], it / (rec["n"] + 1))
            if it > rec["n"] + 1:
                st["over_bound"].append([rec["flow"], it, rec["n"]])
            if len(st["samples"]) < SLIDE_SAMPLE_CAP:
                st["samples"].append(rec)

    def head_changed_w(state, flow_state, head):
        st = _R.st
        if st is not None:
            st["moves"] += 1
            if st["moves"] > st["budget"] * 8:
                raise Budget("head moves")
            if _R.cur is not None and _R.cur[0] == head.uid:
                rec = _R.cur[1]
                last = rec["moves"][-1] if rec["moves"] else rec["pos"]
                if head.position != last:
                    rec["moves"].append(head.position)
                    rec["evals"].append([])
        if _R.round is not None:
            _R.round.moved(head)
        try:
            return O["head_changed"](state, flow_state, head)
        except Exception as e:  # noqa  -- the event name of the match statement the head arrived at could not be computed
            if _R.cur is None and st is not None:
                # raised by a position change OUTSIDE slide (head.position += 1 of _advance_head_front): the error of this instance
                st["errs"].append([flow_state.uid, flow_state.flow_id, "advance", type(e).__name__])
            if _R.round is not None:
                _R.round.err_head = head.uid
            raise

    def eval_w(expr, context):
        try:
            r = O["eval"](expr, context)
        except Exception:  # noqa
            if _R.cur is not None:
                _R.cur[1]["evals"][-1].append("err")
            raise
        if _R.cur is not None:
            try:
                _R.cur[1]["evals"][-1].append("tt" if r else "ff")
            except Exception:  # noqa
                _R.cur[1]["evals"][-1].append("ff")
        return r

    def pie_w(state, event):
        st = _R.st
        if st is not None:
            st["ievents"] += 1
            if st["ievents"] > st["budget"]:
                raise Budget("internal events")
            if event.name == "ColangError":
                st["colang_errors"] += 1
                t = event.arguments.get("error")
                if isinstance(t, str) and len(st["err_texts"]) < 6:
                    st["err_texts"].append(t)
                rc = _R.round_ctx
                if rc is not None and rc.get("phased") and _R.round is not None:
                    # PHASED round (programs with flows that react to ColangError): the pop of a ColangError closes the current phase
                    # and opens the next one from a snapshot of the state (heads parked on `match ColangError` may be woken once)
                    st["phases"] += 1
                    if st["phases"] > st["phase_limit"]:
                        raise Budget(f"error-report phases: {st['phases']} ColangError events popped in one round > 2 + B = {st['phase_limit']}")
                    if rc.get("handlers_total"):
                        # bound of the error-report loop (theorem report_loop_terminates): handlers that cannot raise handle every reported
                        # error exactly once and report none — the ColangError events of a round are those of the OTHER flows' errors
                        others = sum(1 for e in st["errs"] if e[1] not in rc["handlers"])
                        if st["phases"] > others + 1:
                            raise Budget(f"error-report loop: {st['phases']} ColangError events popped in one round, but flows other than the "
                                         f"ColangError handlers raised only {others} error(s) (every reported error is handled once)")
                    _close_round(st, _R.round)
                    rnd = rm.Round(rc["P"], rc["idx"], rc["pot"], sm, state, event, queued=list(state.internal_events))
                    if rnd.bound is not None:
                        rnd.limit, rnd.exc = min(rnd.bound, 200000), Budget
                    _R.round = rnd
            elif event.name == "FlowFailed":
                st["failed_uids"].append(event.arguments.get("source_flow_instance_uid"))
                st["failed_flows"].append(str(event.arguments.get("flow_id")))
        rnd = _R.round
        if st is not None:
            st["in_pie"] = True
        try:
            if rnd is None:
                return O["pie"](state, event)
            rnd.pop_begin(state, event)
            r = O["pie"](state, event)
            rnd.pop_end(state)
            return r
        finally:
            if st is not None:
                st["in_pie"] = False

    def push_w(state, event):
        if _R.round is not None:
            _R.round.push(event)
        return O["push"](state, event)

    def push_left_w(state, event):
        if _R.round is not None:
            _R.round.push(event)
        return O["push_left"](state, event)

    def abort_w(state, flow_state, matching_scores, deactivate_flow=False):
        rnd = _R.round
        if rnd is None:
            return O["abort"](state, flow_state, matching_scores, deactivate_flow)
        rnd.end_begin(flow_state)
        try:
            return O["abort"](state, flow_state, matching_scores, deactivate_flow)
        finally:
            if _R.round is rnd:
                rnd.end_end(flow_state)

    def finish_w(state, flow_state, matching_scores, deactivate_flow=False):
        rnd = _R.round
        if rnd is None:
            return O["finish"](state, flow_state, matching_scores, deactivate_flow)
        rnd.end_begin(flow_state)
        try:
            return O["finish"](state, flow_state, matching_scores, deactivate_flow)
        finally:
            if _R.round is rnd:
                rnd.end_end(flow_state)

    def cands_w(state, event):
        r = O["cands"](state, event)
        st = _R.st
        if st is not None:
            ms = []
            for fuid, huid in r:
                try:
                    el = sm.get_element_from_head(state, state.flow_states[fuid].heads[huid])
                    if el is not None and sm.is_match_op_element(el):
                        ms.append([fuid, huid])
                except Exception:  # noqa
                    pass
            hs = {}
            for fuid, _h in ms:
                if fuid not in hs:
                    hs[fuid] = list(state.flow_states[fuid].heads.keys())
            st["scan"] = {"event": event.name, "cands": ms, "scores": [], "heads": [[f, u] for f, u in hs.items()]}
            if ms and len(st["scans"]) < MATCH_SAMPLE_CAP * 4:
                st["scans"].append(st["scan"])
        return r

    def score_w(state, flow_state, head, event):
        st = _R.st
        try:
            s = O["score"](state, flow_state, head, event)
        except Exception as e:  # noqa
            if st is not None:
                st["errs"].append([flow_state.uid, flow_state.flow_id, "match", type(e).__name__])
            if st is not None and st.get("scan") is not None:
                st["scan"]["scores"].append([flow_state.uid, head.uid, "err"])
            if _R.round is not None:
                _R.round.last_err_head = head.uid
            raise
        if st is not None and st.get("scan") is not None:
            st["scan"]["scores"].append([flow_state.uid, head.uid, "pos" if s > 0.0 else ("neg" if s < 0.0 else "zero")])
        return s

    def handling_w(name):
        # _start_flow / _create_event_reference (called from _handle_event_matching): a raise here is an error of the matched head's flow
        def w(state, flow_state, *a, **kw):
            try:
                return O[name](state, flow_state, *a, **kw)
            except Exception as e:  # noqa
                st = _R.st
                if st is not None:
                    st["errs"].append([flow_state.uid, flow_state.flow_id, "handle", type(e).__name__])
                if _R.round is not None and flow_state.heads:
                    _R.round.err_head = next(iter(flow_state.heads.values())).uid
                raise
        return w

    # -- errors of a statement raised OUTSIDE slide / the matching scan (wave 6) ---------------------------------------------------------
    def _emit_err(flow_state, e):
        st = _R.st
        if st is not None and flow_state is not None:
            st["errs"].append([flow_state.uid, flow_state.flow_id, "emit", type(e).__name__])
        if _R.round is not None and flow_state is not None:
            for h in _R.resolve_heads or []:
                if h.flow_state_uid == flow_state.uid:
                    _R.round.err_head = h.uid
                    break

    def resolve_w(state, actionable_heads):
        prev = _R.resolve_heads
        _R.resolve_heads, _R.emit_flow = list(actionable_heads), None
        try:
            return O["resolve"](state, actionable_heads)
        finally:
            _R.resolve_heads = prev

    def geve_w(state, flow_state, element):
        if _R.resolve_heads is None:
            return O["geve"](state, flow_state, element)
        _R.emit_flow = flow_state
        try:
            return O["geve"](state, flow_state, element)
        except Exception as e:  # noqa -- the arguments of the action statement are evaluated a second time when the action event is created
            _emit_err(flow_state, e)
            raise

    def cue_w(event, event_args):
        if _R.resolve_heads is None:
            return O["cue"](event, event_args)
        try:
            return O["cue"](event, event_args)
        except Exception as e:  # noqa -- the outgoing UMIM event is rejected by utils.new_event_dict (wrong-typed / reserved parameter)
            _emit_err(_R.emit_flow, e)
            raise

    def cfi_w(flow_config, flow_instance_uid, flow_hierarchy_position, event_arguments):
        try:
            return O["cfi"](flow_config, flow_instance_uid, flow_hierarchy_position, event_arguments)
        except Exception as e:  # noqa -- the instance cannot be created (bad default value expression, context shared with a parametrised flow)
            st = _R.st
            if st is not None and st.get("in_pie"):  # (the matcher also builds temporary instances for `match flow().Finished()`: inside try blocks)
                st["errs"].append([str(event_arguments.get("source_flow_instance_uid")), flow_config.id, "start", type(e).__name__])
                if _R.round is not None:
                    _R.round.start_failed(flow_config.id)
            raise

    def logai_w(state, flow_state, matching_scores):
        try:
            return O["logai"](state, flow_state, matching_scores)
        except Exception as e:  # noqa -- bad expression in the meta tag of the flow decorator, evaluated when the flow finishes
            st = _R.st
            if st is not None:
                st["errs"].append([flow_state.uid, flow_state.flow_id, "finish", type(e).__name__])
            raise

    def rtc_w(state, ev):
        st = _R.st
        rc = _R.round_ctx
        rnd = None
        if st is not None and not isinstance(ev, dict) and getattr(ev, "name", None) == "ColangError":
            st["conv_classes"].append(type(ev).__name__)  # the event process_events created for an exception that left run_to_completion
        if st is not None:
            st["rtc_calls"] += 1
            if st["rtc_calls"] > st["rtc_limit"]:
                raise Budget(f"processing rounds: {st['rtc_calls']} run_to_completion calls in one process_events call > runtime.max_events + 2 = {st['rtc_limit']}")
        if st is not None and rc is not None:
            rnd = rm.Round(rc["P"], rc["idx"], rc["pot"], sm, state, ev)
            if rnd.bound is not None:
                rnd.limit, rnd.exc = min(rnd.bound, 200000), Budget
            _R.round = rnd
            st["phases"] = 0
            st["phase_limit"] = 2 + (rnd.bound if rnd.bound is not None else 200)
        try:
            return O["rtc"](state, ev)
        except Exception as e:  # noqa
            if st is not None:
                st["rtc_exc"].append(type(e).__name__)
                try:  # where it was raised: the statemachine functions on the stack, outermost first (structural signature of findings)
                    import traceback as _tb
                    st["rtc_site"].append([f.name for f in _tb.extract_tb(e.__traceback__) if f.filename.endswith("statemachine.py")][:6])
                except Exception:  # noqa
                    pass
            raise
        finally:
            cur, _R.round = _R.round, None
            if rnd is not None and cur is not None:
                _close_round(st, cur)

    sm.slide = slide_w
    sm._flow_head_changed = head_changed_w
    sm.eval_expression = eval_w
    sm._process_internal_events_without_default_matchers = pie_w
    sm._get_all_head_candidates = cands_w
    sm._compute_event_matching_score = score_w
    rtm.run_to_completion = rtc_w
    sm._push_internal_event = push_w
    sm._push_left_internal_event = push_left_w
    sm._abort_flow = abort_w
    sm._start_flow = handling_w("start_flow")
    sm._create_event_reference = handling_w("create_ref")
    sm._finish_flow = finish_w
    sm._resolve_action_conflicts = resolve_w
    sm.get_event_from_element = geve_w
    sm.create_umim_event = cue_w
    sm.create_flow_instance = cfi_w
    sm._log_action_or_intents = logai_w


def _close_round(st, rnd):
    try:
        res = rnd.finish()
    except Exception as e:  # noqa
        res = {"tokens": [], "steps": [], "orphans": [f"recorder: {type(e).__name__}: {e}"], "bound": None, "n": 0}
    if len(st["rounds"]) >= 3 * ROUND_REPLAY_CAP:
        res = {"tokens": [], "steps": [], "orphans": res["orphans"], "bound": res["bound"], "n": res["n"], "dropped": True}
    st["rounds"].append(res)


def _vt_alarm(signum, frame):
    raise Budget("cpu-time backstop")


def run_impl(case):
    if case["kind"] == "lib":
        res, skipped = tr.library_flows()
        lib_round = "n/a"
        try:
            rm.init()
            flows, seen = [], set()
            for f in tr.library_files():
                try:
                    fl = tr.parse_source(open(f, encoding="utf-8").read(), f)
                except Exception:  # noqa
                    continue
                for x in fl:
                    if x.name not in seen:
                        seen.add(x.name)
                        flows.append(x)
            flows += tr.parse_source("flow main\n  match NeverEvent()\n")
            st0 = tr.compile_flows(flows)
            P, _idx, uns = rm.round_prog(st0.flow_configs, lambda fc: res[fc.id]["prog"])
            lib_round = "unsupported-dynamic-start" if uns else ("ranked" if rm.Potential(P).ok else "outside-hypothesis")
        except Exception as e:  # noqa
            lib_round = "error:" + type(e).__name__
        return {"lib_round": lib_round, "flows": {k: v["prog"] for k, v in res.items()}, "files": {k: v["file"] for k, v in res.items()}, "skipped": skipped,
                "py_acyclic": {k: py_acyclic(v["prog"]) for k, v in res.items()},
                "py_ranked": {k: py_ranked(v["prog"])[0] for k, v in res.items()}, "dynamic_send": sum(v["dynamic_send"] for v in res.values())}
    from nemoguardrails.colang.v2_x.runtime.flows import InternalEvents
    from nemoguardrails.colang.v2_x.runtime.runtime import create_flow_configs_from_flow_list

    obs = {"calls": [], "samples": [], "scans": [], "over_bound": [], "texts": []}
    try:
        flows = tr.parse_source(case["src"])
        with contextlib.redirect_stdout(io.StringIO()):
            _R.rt.flow_configs = create_flow_configs_from_flow_list(flows)
    except Exception as e:  # noqa -- generator produced something the parser rejects: machinery problem, surfaced by the oracle
        obs["parse_error"] = f"{type(e).__name__}: {str(e)[:200]}"
        return obs
    state = None
    progs = None
    try:
        st0 = tr.compile_flows(tr.parse_source(case["src"]))  # a second, private copy: expansion mutates the configs in place
        progs = {fid: tr.classify_flow(fc, InternalEvents.ALL)[0] for fid, fc in st0.flow_configs.items()}
        P, idx, unsupported = rm.round_prog(st0.flow_configs, lambda fc: progs[fc.id])
        pot = rm.Potential(P)
        handlers = {fid: list(hd.handler_total(fc)) for fid, fc in st0.flow_configs.items() if hd.is_handler(fc)}
        phased = False
        if handlers:
            # flows that react to ColangError: the round is read in PHASES (see c10_round.round_prog err_ext); the hypothesis of the
            # error-report loop theorem (`report_loop_terminates`: no handler statement raises, whatever the error text) is decided
            # statically per handler flow (hd.handler_total, Lean twin Tpl.total + handler_literal_valid)
            P, idx, unsupported = rm.round_prog(st0.flow_configs, lambda fc: progs[fc.id], err_ext=True)
            pot = rm.Potential(P)
            phased = True
            obs["handlers"] = handlers
            obs["templates"] = [t for fid, fc in st0.flow_configs.items() if fid in handlers for t in hd.templates(fc)]
        _R.round_ctx = {"P": P, "idx": idx, "pot": pot, "phased": phased, "handlers": set(handlers),
                        "handlers_total": bool(handlers) and all(v[0] for v in handlers.values())}
        obs["rprog"] = [{k: v for k, v in fl.items() if k != "_id"} for fl in P]
        obs["round_ranked"] = pot.ok
        obs["round_unsupported"] = unsupported
    except Exception as e:  # noqa
        obs["classify_error"] = f"{type(e).__name__}: {str(e)[:200]}"
        return obs
    obs["rounds"], obs["rounds_full"], obs["round_orphans"] = [], [], []
    fr = _R.frame
    if fr is not None:
        fr.calls = fr.checked = fr.not_closed = fr.raised = fr.bystanders = 0
        fr.violations = []
    signal.signal(signal.SIGVTALRM, _vt_alarm)
    for ev in case["events"]:
        st = {"slides": 0, "moves": 0, "ievents": 0, "colang_errors": 0, "rtc_exc": [], "samples": [], "scans": [], "scan": None,
              "over_bound": [], "max_iter_ratio": 0.0, "budget": 10 ** 9, "rounds": [], "errs": [], "failed_uids": [], "failed_flows": [], "rtc_site": [], "leaf": [],
              "err_texts": [], "phases": 0, "phase_limit": 10 ** 9, "rtc_calls": 0, "rtc_limit": 10 ** 9, "conv_classes": []}
        st["budget"] = BUDGET_FACTOR * (sum(len(p) for p in progs.values()) + 10)
        _R.st = st
        evs_in = ev if isinstance(ev, list) else [ev]  # a list = several events handed to one process_events call
        call = {"event": "+".join(e["type"] for e in evs_in), "out": [], "pe_exc": None, "budget_hit": None}
        if isinstance(ev, list):
            call["events"] = [e["type"] for e in evs_in]
        signal.setitimer(signal.ITIMER_VIRTUAL, 15.0, 1.0)
        max_events0 = _R.rt.max_events
        if case["meta"].get("max_events"):
            _R.rt.max_events = case["meta"]["max_events"]
        st["rtc_limit"] = _R.rt.max_events + 2  # anchor runtime.max_events: at most that many events (= processing rounds) per call
        try:
            with contextlib.redirect_stdout(io.StringIO()):
                out, state = asyncio.run(_R.rt.process_events([dict(e) for e in evs_in], state, instant_actions=case["meta"].get("instant")))
            call["out"] = [e["type"] for e in out]
        except Budget as b:
            call["budget_hit"] = str(b)
        except Exception as e:  # noqa
            call["pe_exc"] = f"{type(e).__name__}: {str(e)[:120]}"
        finally:
            signal.setitimer(signal.ITIMER_VIRTUAL, 0)
            _R.st = None
            _R.cur = None
            _R.rt.max_events = max_events0
        call["rtc_calls"] = st["rtc_calls"]
        call["reported"] = call["out"].count("Reported")  # marker event of the user-written ColangError handlers (hd.HANDLERS)
        call.update({k: st[k] for k in ("slides", "moves", "ievents", "colang_errors", "rtc_exc", "rtc_site", "max_iter_ratio")})
        # every flow INSTANCE in which a statement raised: what became of it by the end of this call
        call["errs"] = len(st["errs"])
        call["leaf"] = list(st["leaf"])
        call["failed_flows"] = sorted(set(st["failed_flows"]))
        call["err_types"] = sorted({e[3] for e in st["errs"]})
        call["err_phases"] = sorted({e[2] for e in st["errs"]})
        call["conv_classes"] = list(st["conv_classes"])
        call["phases"] = st["phases"]
        call["handler_errs"] = sorted({e[1] for e in st["errs"] if e[1] in obs.get("handlers", {})})
        for t in st["err_texts"]:
            if t not in obs["texts"] and len(obs["texts"]) < 8 and len(t) < 600:
                obs["texts"].append(t)
        call["unfailed"] = []
        if not (call["budget_hit"] or call["pe_exc"] or state is None):
            seen_uid = set()
            for uid, fid, phase, _t in st["errs"]:
                if uid in seen_uid or phase in ("start", "finish"):
                    # start: the instance was never created (the flow that wanted to start it is failed by the FlowFailed report, if it
                    # waits for the start); finish: the flow had finished when its decorator's meta tag was evaluated
                    continue
                seen_uid.add(uid)
                fs = state.flow_states.get(uid)
                status = fs.status.name if fs is not None else "REMOVED"
                nheads = len(fs.heads) if fs is not None else 0
                announced = uid in st["failed_uids"]
                if status not in ("STOPPED", "REMOVED") or nheads or not announced:
                    call["unfailed"].append({"flow": fid, "phase": phase, "status": status, "heads": nheads, "flow_failed_event": announced})
        call["budget"] = BUDGET_FACTOR * (sum(len(p) for p in progs.values()) + 10) if progs else None
        obs["calls"].append(call)
        room = SLIDE_SAMPLE_CAP - len(obs["samples"])
        obs["samples"] += st["samples"][:max(0, room)]
        obs["scans"] += [s for s in st["scans"] if s["scores"]][: max(0, MATCH_SAMPLE_CAP - len(obs["scans"]))]
        obs["over_bound"] += st["over_bound"]
        for r in st["rounds"]:
            obs["rounds"].append([r["n"], r["bound"]])
            obs["round_orphans"] += r["orphans"]
            if len(obs["rounds_full"]) < ROUND_REPLAY_CAP and r["n"] > 0 and not r.get("dropped"):
                obs["rounds_full"].append({"tokens": r["tokens"], "steps": r["steps"], "bound": r["bound"]})
        if call["budget_hit"] or call["pe_exc"] or state is None:
            break
    _R.round_ctx = None
    if obs.get("handlers") or case["meta"].get("hostile"):
        # function-level tie of the Lean string model (Models/ErrReport.lean): what the REAL escape() / escape_special_string_characters() /
        # eval_expression do with the error texts of this run and with the event-carried texts of the script
        from nemoguardrails.colang.v2_x.runtime import eval as ev_mod
        from nemoguardrails.colang.v2_x.runtime import utils as ut_mod
        texts = list(obs["texts"])
        for e in [x for y in case["events"] for x in (y if isinstance(y, list) else [y])]:
            t = e.get("text")
            if isinstance(t, str) and t not in texts and len(texts) < 12:
                texts.append(t)
        obs["pipeline"] = [hd.pipeline(_R.orig["eval"], ev_mod._escape_string, ut_mod.escape_special_string_characters, t) for t in texts]
    del obs["texts"]
    obs["ref_class"] = _R.ref_class
    if fr is not None:
        obs["frame"] = dict(fr.summary(), first=[list(v) for v in fr.violations[:3]])
    obs["round_orphans"] = obs["round_orphans"][:3]
    obs["flows"] = progs or {}
    obs["py_acyclic"] = {k: py_acyclic(v) for k, v in (progs or {}).items()}
    obs["py_ranked"] = {k: py_ranked(v)[0] for k, v in (progs or {}).items()}
    # uids -> small numbers for the matching-phase model
    ids = {}
    for s in obs["scans"]:
        for row in s["cands"] + s["scores"]:
            for j in (0, 1):
                row[j] = ids.setdefault(row[j], len(ids) + 1)
        for row in s.get("heads", []):
            row[0] = ids.setdefault(row[0], len(ids) + 1)
            row[1] = [ids.setdefault(u, len(ids) + 1) for u in row[1]]
    return obs


# ----------------------------------------------------------------------------- independent graph check (Python)

def py_succs(prog, u):
    n = len(prog)
    if u >= n:
        return []
    e = prog[u]
    t = e[0]
    if t == "wait":
        return []
    if t in ("step", "rl", "cpush", "cpop", "merge", "wh"):
        return [u + 1]
    if t == "goto":
        return [u + 1] if e[1] is None else [e[1] + 1, u + 1]
    if t == "jump":
        return [u + 1] if e[1] is None else [e[1] + 1]
    if t == "ret":
        return [n]
    if t == "abort":
        return [n] + [x[1] + 1 for x in prog if x[0] == "cpush"]
    if t == "fork":
        return [x + 1 for x in e[1]]
    raise ValueError(t)


def py_acyclic(prog):
    """iterative three-colour DFS, written from statemachine.slide, independent of the Lean checker"""
    color = {}
    for root in range(len(prog) + 1):
        if root in color:
            continue
        stack = [(root, iter(py_succs(prog, root)))]
        color[root] = 1
        while stack:
            u, it = stack[-1]
            nxt = next(it, None)
            if nxt is None:
                color[u] = 2
                stack.pop()
                continue
            c = color.get(nxt, 0)
            if c == 1:
                return False
            if c == 0:
                color[nxt] = 1
                stack.append((nxt, iter(py_succs(prog, nxt))))
    return True


def py_moves(prog, u, s):
    """(slide moves incl. fork/merge continuation, resume moves) of state (u, s); s is a tuple of label positions"""
    n = len(prog)
    if u >= n:
        return [], []
    e = prog[u]
    t = e[0]
    if t == "wait":
        return [], [(u + 1, s)] + ([(s[-1] + 1, s)] if s else [])
    if t in ("step", "rl", "merge", "wh"):
        return [(u + 1, s)], []
    if t == "cpush":
        return [(u + 1, s + (e[1],))], []
    if t == "cpop":
        return ([(u + 1, s[:-1])] if s else []), []
    if t == "goto":
        return ([(u + 1, s)] if e[1] is None else [(e[1] + 1, s), (u + 1, s)]), []
    if t == "jump":
        return ([(u + 1, s)] if e[1] is None else [(e[1] + 1, s)]), []
    if t == "ret":
        return [(n, s)], []
    if t == "abort":
        return ([(s[-1] + 1, s)] if s else [(n, s)]), []
    if t == "fork":
        return [(x + 1, s) for x in e[1]], []
    raise ValueError(t)


def py_ranked(prog):
    """independent of the Lean checker: reachable (position, catch stack) states from the flow start; the position graph
    restricted to the moves possible from those states must be acyclic"""
    n = len(prog)
    seen = {(0, ())}
    work = [(0, ())]
    edges = {}
    cap = 64 * (n + 2)
    while work:
        u, s = work.pop()
        cont, res = py_moves(prog, u, s)
        for v, s2 in cont:
            edges.setdefault(u, set()).add(v)
        for m in cont + res:
            if m[0] <= n and m not in seen:
                seen.add(m)
                work.append(m)
                if len(seen) > cap:
                    return False, seen
    color = {}
    for root in list(edges):
        if root in color:
            continue
        stack = [(root, iter(edges.get(root, ())))]
        color[root] = 1
        while stack:
            u, it = stack[-1]
            nxt = next(it, None)
            if nxt is None:
                color[u] = 2
                stack.pop()
                continue
            c = color.get(nxt, 0)
            if c == 1:
                return False, seen
            if c == 0:
                color[nxt] = 1
                stack.append((nxt, iter(edges.get(nxt, ()))))
    return True, seen


# ----------------------------------------------------------------------------- model

def _answers(rec, prog):
    pos_seq = [rec["pos"]] + rec["moves"]
    ans = []
    for k, u in enumerate(pos_seq):
        last = k == len(pos_seq) - 1
        e = prog[u] if u < len(prog) else None
        a = "ff"
        if last and rec["exc"]:
            a = "err"
        elif e is not None and e[0] == "goto":
            ev = rec["evals"][k] if k < len(rec["evals"]) else []
            a = ev[-1] if ev else "ff"
        elif e is not None and e[0] == "wh":
            a = "ff" if last else "tt"
        ans.append(a)
    return ans


def model_requests(case, obs):
    if "parse_error" in obs:
        return []
    reqs = []
    flows = obs.get("flows", {})
    for fid in sorted(flows):
        starts = [[r["pos"], r["cstack"]] for r in obs.get("samples", []) if r["flow"] == fid and r["hstatus"] != "MERGING"]
        reqs.append({"m": "C10.acyclic", "prog": flows[fid], "starts": starts})
    if case["kind"] == "lib":
        return reqs
    for rec in obs["samples"]:
        prog = flows.get(rec["flow"])
        if prog is None:
            reqs.append({"m": "C10.acyclic", "prog": []})
            continue
        reqs.append({"m": "C10.slide", "prog": prog, "pos": rec["pos"], "cstack": [c for c in rec["cstack"]], "orc": _answers(rec, prog),
                     "fuel": len(rec["moves"]) + 5})
    for s in obs["scans"]:
        sc = {(f, h): x for f, h, x in s["scores"]}
        cands = []
        for f, h in s["cands"]:
            if (f, h) in sc:
                cands.append([f, h, sc[(f, h)]])
            else:
                break
        # what the model needs: the scores of the candidates in scan order; the ones after a raising candidate are unknown on the
        # pinned tree (never computed), the model's as-is verdict does not depend on them
        full = cands + [[f, h, "zero"] for f, h in s["cands"][len(cands):]]
        reqs.append({"m": "C10.match", "cands": full, "heads": s.get("heads", [])})
    if "rprog" in obs:
        reqs.append({"m": "C10.round", "prog": obs["rprog"], "rounds": [{"tokens": r["tokens"], "steps": r["steps"]} for r in obs["rounds_full"]]})
    if "pipeline" in obs:
        reqs.append({"m": "C10.escape", "texts": [p["text"] for p in obs["pipeline"]], "templates": obs.get("templates", [])})
    c = _conversion_call(case, obs)
    if c is not None:
        reqs.append({"m": "C10.convert", "raised": [1 + (sum(map(ord, x)) % 97) for x in c["rtc_exc"]],
                     "converted_class": trc.CLASS_CODES.get(c["conv_classes"][0], 9), "ref_class": trc.CLASS_CODES.get(obs.get("ref_class"), 9)})
    return reqs


def _reporting(case, obs):
    hs = obs.get("handlers", {})
    rep = [h for h in case.get("meta", {}).get("handlers", []) if h in REPORTING_HANDLERS and h in hs]
    return rep if rep and all(v[0] for v in hs.values()) else []


def _conversion_call(case, obs):
    """the first process_events call of the run in which exceptions left run_to_completion, were converted, and nothing else was reported
    (every ColangError event of the call is a converted one) — in a program with total reporting handlers: the instance of the Lean
    model of the conversion loop (Models/ProcessEvents.lean) this run is compared with"""
    if case["kind"] != "prog" or not _reporting(case, obs):
        return None
    for c in obs.get("calls", []):
        if len(c["rtc_exc"]) == 1 and not (c["budget_hit"] or c["pe_exc"]) and len(c.get("conv_classes", [])) == 1 and c["colang_errors"] == 1:
            return c
    return None


def _real_stop(rec, prog):
    if rec["exc"]:
        return "error"
    u = rec["final"]
    if u >= len(prog):
        return "end"
    e = prog[u]
    if e[0] == "fork":
        return "fork"
    if e[0] == "merge":
        return "merge"
    if e[0] == "wh":
        return "waitHeads"
    return "wait"


def compare(case, obs, mouts):
    if "parse_error" in obs:
        return None
    flows = obs.get("flows", {})
    i = 0
    for fid in sorted(flows):
        m = mouts[i]
        i += 1
        if m.get("acyclic") != obs["py_acyclic"][fid]:
            return f"flow {fid}: Lean checker slideAcyclic={m.get('acyclic')} but independent DFS says acyclic={obs['py_acyclic'][fid]}"
        if m.get("ranked") != obs["py_ranked"][fid]:
            return f"flow {fid}: Lean checker slideRanked={m.get('ranked')} but the independent state-graph search says {obs['py_ranked'][fid]}"
        if m.get("ranked") and not all(m.get("starts_ok", [])):
            return f"flow {fid}: a real slide() call started in a (position, catch stack) state outside the verified invariant"
    if case["kind"] == "lib":
        return None
    for rec in obs["samples"]:
        m = mouts[i]
        i += 1
        prog = flows.get(rec["flow"])
        if prog is None:
            continue
        if rec["hstatus"] == "MERGING":
            continue  # a MERGING head performs the merge itself (stays put, becomes INACTIVE): outside the single-head model
        real_trace = [rec["pos"]] + rec["moves"]
        stop = m["stop"] if isinstance(m["stop"], str) else "fork"
        if m["trace"] != real_trace:
            return f"slide on flow {rec['flow']} from {rec['pos']}: real positions {real_trace}, model {m['trace']} (stop {stop})"
        rs = _real_stop(rec, prog)
        if stop != rs:
            return f"slide on flow {rec['flow']} from {rec['pos']}: real stop {rs} at {rec['final']}, model stop {stop}"
        if m["stopping"] != (rec["fl_status"] == "STOPPING") and not rec["exc"]:
            return f"slide on flow {rec['flow']}: flow STOPPING={rec['fl_status']} model stopping={m['stopping']}"
    for s in obs["scans"]:
        m = mouts[i]
        i += 1
        raised = any(x == "err" for _, _, x in s["scores"])
        complete = len(s["scores"]) == len(s["cands"])
        if not m["lookup_ok"]:
            return f"matching phase of {s['event']}: the model cannot look up a candidate head that the real scan was given"
        if not complete:
            # current tree = abort AFTER the loop (theorem matching_phase_lookup_safe): every candidate is scored
            how = "raised out of the scan" if s["scores"] and s["scores"][-1][2] == "err" else "a later candidate look-up failed"
            alt = "" if m["lookup_ok_abort_in_loop"] else " (this is what the model of aborting INSIDE the loop predicts)"
            return (f"matching phase of {s['event']}: {len(s['cands'])} candidates but only {len(s['scores'])} scored, {how}; "
                    f"the model (raising heads collected, flows aborted after the loop) scores all{alt}")
        exp = [[f, h] for f, h, x in s["scores"] if x == "pos"]
        if m["repaired"]["matching"] != exp:
            return f"matching phase of {s['event']}: model matching heads {m['repaired']['matching']} vs real {exp}"
        exp_err = [[f, h] for f, h, x in s["scores"] if x == "err"]
        if m["repaired"]["erroring"] != exp_err:
            return f"matching phase of {s['event']}: model erroring {m['repaired']['erroring']} vs real {exp_err}"
        if not raised and (m["asis"] is None or m["asis"]["matching"] != exp):
            return f"matching phase of {s['event']}: no candidate raised but the pre-fix model disagrees"
        if raised and m["asis"] is not None:
            return f"matching phase of {s['event']}: a candidate raised but the pre-fix model does not abandon the phase"
    if "rprog" in obs:
        m = mouts[i]
        i += 1
        if m["ranked"] != obs["round_ranked"]:
            return f"round machine: Lean roundRanked={m['ranked']} but the independent potential search says {obs['round_ranked']}"
        if obs["round_ranked"] and not obs["round_unsupported"]:
            if obs["round_orphans"]:
                return "round machine: the recorder could not map the real round onto machine steps: " + obs["round_orphans"][0]
            for r, mr in zip(obs["rounds_full"], m["rounds"]):
                if r["bound"] is not None and int(mr["bound"]) != r["bound"]:
                    return f"round machine: B(program, state) Lean {mr['bound']} vs Python {r['bound']}"
                if isinstance(mr["replay"], str):
                    return "round machine: a recorded real step is not a step of the abstraction: " + mr["replay"][:300]
    cc = _conversion_call(case, obs)
    if cc is not None:
        # (the request is the LAST one: index -1 whatever the optional requests in front of it)
        m = mouts[-1]
        rep = _reporting(case, obs)
        if m["generated_converted"] != trc.CLASS_CODES.get(cc["conv_classes"][0], 9) or m["generated_ref"] != trc.CLASS_CODES.get(obs.get("ref_class"), 9):
            return (f"conversion step: the classes the translator extracted (converted {m['generated_converted']}, reference {m['generated_ref']}) are not the ones "
                    f"observed at run time ({cc['conv_classes'][0]}, {obs.get('ref_class')})")
        if m["reactions"] * len(rep) != cc.get("reported", 0) or m["delivered"] != len(cc["rtc_exc"]):
            return (f"conversion step ({cc['event']}): {len(cc['rtc_exc'])} exception(s) left run_to_completion; the model of the loop (class test "
                    f"{'passes' if m['may_match_observed'] else 'fails'}) predicts {m['reactions']} reaction(s) of each observer of ColangError, the real "
                    f"handlers {rep} reacted {cc.get('reported', 0)} time(s)")
    if "pipeline" in obs:
        m = mouts[i]
        i += 1
        r = compare_escape(obs, m)
        if r:
            return r
    return None


def _txt(cps):
    return repr("".join(chr(c) for c in cps))[:80] if isinstance(cps, list) else str(cps)


def compare_escape(obs, m):
    """the Lean string model (Models/ErrReport.lean) against the real escape() / escape_special_string_characters() / eval_expression on
    the error texts of this run; the static handler analysis against the Lean `Tpl.total`; a handler the analysis calls total must not raise"""
    for p, mt in zip(obs["pipeline"], m["texts"]):
        if p["escape"] != mt["escape"]:
            how = " (the model of the code WITHOUT fixes/C10-escape-unencodable.diff agrees)" if p["escape"] == mt.get("escape_asis") else ""
            return f"escape({_txt(p['text'])}): real {_txt(p['escape'])}, model {_txt(mt['escape'])}{how}"
        if p["special"] != mt["special"]:
            return f"escape_special_string_characters({_txt(p['text'])}): real {_txt(p['special'])}, model {_txt(mt['special'])}"
        for k, what in (("esc_dq", '"P: {escape($e.error)} :Q"'), ("esc_sq", "'P: {escape($e.error)} :Q'"), ("raw_dq", '"P: {$e.error} :Q"'),
                        ("raw_sq", "'P: {$e.error} :Q'")):
            if p[k] != mt[k]:
                if not p[k] and p.get(k + "_len", 0) == 0 and len(p["text"]) > 20000:
                    continue  # simpleeval's MAX_STRING_LENGTH: outside the model (documented hypothesis of the tie)
                if p[k] and not mt[k] and 35 in p["text"]:
                    # the scanner is a SUFFICIENT condition: a literal that ends early may still leave an expression that evaluates when a
                    # `#` follows (the rest of the line is a comment: `"P: ... \'"#b c" + 3 ...` evaluates to the truncated string)
                    continue
                return (f"template {what} with error text {_txt(p['text'])}: real evaluation {'succeeds' if p[k] else 'raises'}, the model says the "
                        f"assembled literal is {'valid' if mt[k] else 'invalid'}")
    for t, mt in zip(obs.get("templates", []), m.get("templates", [])):
        py_total = not any(sg[0] == "raw" for sg in t["segs"])
        if py_total != mt["total"]:
            return f"handler template {t}: static analysis total={py_total}, Lean Tpl.total={mt['total']}"
    hs = obs.get("handlers", {})
    for c in obs.get("calls", []):
        for fid in c.get("handler_errs", []):
            if hs.get(fid, [False])[0]:
                return (f"handler flow '{fid}' raised a runtime error while handling a ColangError during {c['event']} although the error text only "
                        "reaches its templates through escape(): handler_literal_valid says the assembled literal is valid for EVERY text")
    return None


def obs_variant(obs):
    """Which variant of the matching phase the tree under test shows in THIS observation (None if not exercised)."""
    v = None
    for s in obs.get("scans", []):
        if any(x == "err" for _, _, x in s["scores"]):
            if len(s["scores"]) < len(s["cands"]) or s["scores"][-1][2] == "err" and len(s["scores"]) == len(s["cands"]) and len(s["cands"]) == 1:
                v = v or "asis"
            if len(s["scores"]) == len(s["cands"]) and s["scores"][-1][2] != "err":
                v = "repaired"
    for c in obs.get("calls", []):
        if c["rtc_exc"]:
            v = "asis"
    return v


# ----------------------------------------------------------------------------- oracle

def oracle(case, obs):
    if case["kind"] == "lib":
        if not obs["flows"]:
            return "no library flow compiled"
        return None
    if "parse_error" in obs:
        return "generated program rejected by the parser (harness problem): " + obs["parse_error"]
    if "classify_error" in obs:
        return "element classification failed: " + obs["classify_error"]
    meta = case["meta"]
    in_hyp = bool(obs.get("round_ranked")) and not obs.get("round_unsupported")
    # programs with flows that react to ColangError: inside the hypothesis iff no statement of such a flow can raise on ANY error text
    # (otherwise the flow's own failure wakes it again: an error-report loop without a statement that waits for an external event)
    in_hyp = in_hyp and all(v[0] for v in obs.get("handlers", {}).values())
    for c in obs["calls"]:
        if c["budget_hit"]:
            if not in_hyp:
                return None  # the verified checker rejects the program (a loop / start cycle without a wait for an external event): outside the hypothesis
            return f"processing of event {c['event']} did not terminate within the step budget ({c['budget_hit']}: slides={c['slides']} internal events={c['ievents']})"
    if in_hyp:
        for n, b in obs["rounds"]:
            if b is not None and n > b:
                return f"a processing round took {n} steps > proved bound B(program, state) = {b}"
        if c["pe_exc"]:
            return f"exception escaped process_events while processing {c['event']}: {c['pe_exc']}"
    for f, it, n in obs["over_bound"]:
        if obs["py_acyclic"].get(f) or obs["py_ranked"].get(f):
            return f"slide on acyclic flow {f} made {it} iterations > |elements|+1 = {n + 1}"
    if len(obs["calls"]) != len(case["events"]):
        return "event script not completed"
    # "is reported as a ColangError event": a report is an event a flow can MATCH. Programs with an activated, total handler flow that
    # answers every `match ColangError()` with the marker event Reported: (i) every exception that left run_to_completion and was converted
    # by process_events is delivered in a processing round of its own, in which the handler waits -> one reaction per conversion;
    # (ii) a call in which ColangError events were processed shows at least one reaction (two errors of ONE round may find the handler busy)
    hs = obs.get("handlers", {})
    reporting = [h for h in meta.get("handlers", []) if h in REPORTING_HANDLERS and h in hs]
    if reporting and all(v[0] for v in hs.values()):
        for c in obs["calls"]:
            if c["budget_hit"] or c["pe_exc"]:
                continue
            conv = len(c["rtc_exc"])
            if c.get("reported", 0) < conv * len(reporting):
                return (f"{conv} exception(s) {c['rtc_exc']} left run_to_completion while processing {c['event']} and were converted into ColangError "
                        f"events by process_events, but the activated flow(s) {reporting} waiting for `match ColangError()` reacted only "
                        f"{c.get('reported', 0)} time(s): the converted error is not an event a flow can match")
            if c["colang_errors"] > 0 and c.get("reported", 0) < 1:
                return (f"{c['colang_errors']} ColangError event(s) were processed while handling {c['event']} but the activated flow(s) {reporting} "
                        f"waiting for `match ColangError()` did not react: the error report is not an event a flow can match")
    for c in obs["calls"]:
        for name in c.get("events", [c["event"]]):
            if name in meta.get("bad_inputs", []):
                continue  # an external event run_to_completion rejects: nobody can observe it (the clauses on the report and on later events apply)
            if "Seen" + name not in c["out"]:
                why = f" (run_to_completion raised {c['rtc_exc']})" if c["rtc_exc"] else ""
                return f"observer flow did not react to event {name}{why}: outgoing {c['out'][:6]}"
            if c.get("events") and c["out"].count("Seen" + name) < c["events"].count(name):
                # several events of one call: each is processed in a round of its own, the activated observer is waiting again every time
                return (f"observer flow reacted {c['out'].count('Seen' + name)} time(s) to the {c['events'].count(name)} {name} events handed to one "
                        f"process_events call (run_to_completion raised {c['rtc_exc']})")
    if meta.get("expect_error") and meta["kind"] != "abort":
        if sum(c["colang_errors"] for c in obs["calls"]) == 0:
            return f"no ColangError event was produced for the injected {meta['kind']} error"
    if meta.get("relap") and meta.get("expect_error") and meta["kind"] != "abort" and meta["mode"] == "active" and not meta.get("at_instance") \
            and meta["waits_before"] >= 1:
        # the walk to the erroneous statement is repeated (the activated flow was restarted after its failure): the statement is reached a
        # second time and its error must be reported again ("a runtime error ... is reported", every time it happens)
        evs = [c["event"] for c in obs["calls"]]
        if "Next" in evs and any("faulty" in c.get("failed_flows", []) for c in obs["calls"][: evs.index("Next") + 1]):
            # (only if the faulty flow ITSELF failed in the first lap: a flow stuck behind a child that failed to start is not restarted)
            k = evs.index("Next")
            if sum(c["colang_errors"] for c in obs["calls"][k + 1:]) == 0:
                return (f"the erroneous statement ({meta['kind']}) was reached a second time (same walk after the restart of the activated flow) but "
                        "no ColangError event was produced for it")
    for c in obs["calls"]:
        # "fails only that flow": the instance in which the statement raised is failed (stopped, no head left, FlowFailed processed)
        # by the end of the call that processed the event
        for u in c.get("unfailed", []):
            return (f"flow {u['flow']} raised a runtime error ({u['phase']} phase) while processing {c['event']} but was not failed in that call: "
                    f"status {u['status']}, {u['heads']} head(s) left, FlowFailed event processed: {u['flow_failed_event']}")
        # "is reported as a ColangError event": one report per raised error, processed before the call returns
        if c.get("errs", 0) > c["colang_errors"]:
            return (f"{c['errs']} runtime error(s) ({', '.join(c.get('err_types', []))}) were raised while processing {c['event']} but only "
                    f"{c['colang_errors']} ColangError event(s) were processed in that call")
    # "fails only that flow ... unrelated flows": run-time check of the frame theorem vm_advance_frame around every top-level
    # _advance_head_front call (harness/translate/c10_frame.py)
    fr = obs.get("frame") or {}
    if fr.get("violations"):
        first = fr["first"][0]
        return (f"an instance outside the family of the advanced flow(s) {first[0]} changed during _advance_head_front: "
                f"flow {first[1]}: {first[2]}")
    return None


def _unencodable(obs):
    return any(c == 0 or 0xD800 <= c <= 0xDFFF for p in obs.get("pipeline", []) for c in p["text"])


def signature(case, obs, msg):
    if case["kind"] != "prog":
        return None
    meta = case["meta"]
    msg = msg or ""
    if meta.get("handlers") and _unencodable(obs) and ("did not terminate within the step budget" in msg or "escape(" in msg or "template " in msg
                                                       or "handler flow" in msg or "observer flow did not react" in msg):
        # an error text with a character that cannot occur in Python source (NUL, lone surrogate): escape() leaves it alone, the literal of
        # the handler's template does not parse, the handler fails on its own report
        return "error-report-loop:unencodable-error-text"
    if meta["phase"] == "match" and ("observer flow did not react to event M" in msg):
        # the error is raised by _compute_event_matching_score (outside the try/except of _advance_head_front)
        if any(c["event"] == "M" and c["rtc_exc"] for c in obs.get("calls", [])):
            return "error-raised-while-matching"
    if "changed during _advance_head_front" in msg:
        return "frame:bystander-changed"
    if "run_to_completion raised" in msg or "(advance phase)" in msg or "(handle phase)" in msg or "(emit phase)" in msg or \
            ("ColangError event(s) were processed in that call" in msg and any(c.get("rtc_site") for c in obs.get("calls", []))):
        # an exception left run_to_completion (the observer missed the event / the instance that raised was not failed / no ColangError
        # was processed by the state machine): WHERE it was raised (outermost statemachine frames) is the structural signature
        for c in obs.get("calls", []):
            for site in c.get("rtc_site", []):
                # wave 6: raise sites outside every try block that a STATEMENT of a flow reaches (the exception is converted by process_events,
                # but the round is abandoned: the flow is not failed, pending actions of other flows are lost and their heads stay parked)
                if "_resolve_action_conflicts" in site and "create_umim_event" in site:
                    # (only the VALIDATION of the outgoing event: an exception of the second evaluation of the statement's arguments —
                    # get_event_from_element under _resolve_action_conflicts — is not this finding: on the pinned tree slide has evaluated
                    # them before, inside the try block; seed C10-c)
                    return "error-raised-while-creating-action-event"
                if "create_flow_instance" in site or ("_process_internal_events_without_default_matchers" in site and (meta["kind"] in ESCAPE_KINDS or meta["kind"] in LATE_ESCAPES)):
                    return "error-raised-while-creating-flow-instance"
                if "_log_action_or_intents" in site:
                    return "error-raised-while-logging-finished-flow"
                if "_handle_event_matching" in site:
                    return "error-raised-while-handling-match"
                if "_process_internal_events_without_default_matchers" in site:
                    return "error-raised-while-processing-internal-event"
                if "_advance_head_front" in site and "slide" not in site and ("position" in site or "_flow_head_changed" in site):
                    return "error-raised-by-head-advance-outside-try"
    if "did not terminate within the step budget" in msg and meta.get("cascade"):
        return "activated-flow-fails-while-starting-by-pattern-failure"
    if "did not terminate within the step budget" in msg and meta["mode"] in ("active", "launcher") and meta["phase"] == "slide" \
            and meta["waits_before"] == 0 and meta["kind"] != "none":
        return "activated-flow-fails-before-first-wait"
    return None


def nontrivial(case, obs):
    if case["kind"] == "lib":
        return True
    if "calls" not in obs:
        return False
    if case["meta"].get("quick"):
        return True
    if case["meta"]["kind"] == "abort" and any("faulty" in c.get("failed_flows", []) for c in obs["calls"]):
        return True  # the `abort` statement was reached: the faulty flow failed without an exception
    return any(c["colang_errors"] or c["rtc_exc"] or c["budget_hit"] or c.get("errs") for c in obs["calls"]) or any(r["exc"] for r in obs["samples"])


def tags(case, obs):
    if case["kind"] == "lib":
        n = len(obs["flows"])
        cyc = sorted(k for k, v in obs["py_acyclic"].items() if not v)
        unr = sorted(k for k, v in obs["py_ranked"].items() if not v and not obs["py_acyclic"][k])
        return ["kind:lib", f"lib-flows:{n}", f"lib-coarse-cyclic:{len(cyc)}", f"lib-hypothesis-not-established:{len(unr)}"] + \
            [f"lib-unranked-flow:{k}" for k in unr[:8]] + [f"lib-skipped-files:{len(obs['skipped'])}", "lib-as-one-program-round:" + obs.get("lib_round", "n/a")]
    meta = case["meta"]
    t = ["kind:prog", "mode:" + meta["mode"], "err:" + meta["kind"], "phase:" + meta["phase"], "waits-before:" + str(min(meta["waits_before"], 3))]
    if meta.get("nested"):
        t.append("nested:" + meta["nested"])
    if meta.get("at_instance"):
        t.append("error-at-instance:" + str(meta["at_instance"]))
    for k in ("relap", "obs_first", "batch"):
        if meta.get(k):
            t.append("opt:" + k)
    if meta.get("obs_style"):
        t.append("obs-style:" + meta["obs_style"])
    if meta.get("quick"):
        t.append("quick:" + meta["quick"])
    if meta.get("instant") and "calls" in obs:
        t.append("rounds-per-call:" + ("at-cap" if any(c.get("rtc_calls", 0) >= meta["max_events"] for c in obs["calls"]) else "below-cap"))
    if meta.get("handlers"):
        for h in meta["handlers"]:
            t.append("handler:" + h)
        hs = obs.get("handlers", {})
        t.append("handlers:" + ("all-total" if hs and all(v[0] for v in hs.values()) else "some-may-raise" if hs else "none-found"))
        if "calls" in obs:
            mp = max([c.get("phases", 0) for c in obs["calls"]] or [0])
            t.append("error-report-phases:" + (str(mp) if mp < 3 else "3+"))
            if any(c.get("handler_errs") for c in obs["calls"]):
                t.append("handler-raised")
        for p in obs.get("pipeline", []):
            tx = "".join(chr(c) for c in p["text"])
            for name, pat in (("backslash-quote", '\\"'), ("quote", '"'), ("apostrophe", "'"), ("backslash", "\\"), ("brace", "{"), ("dollar", "$"),
                              ("newline", "\n"), ("nul", "\x00")):
                if pat in tx:
                    t.append("error-text-has:" + name)
        t = list(dict.fromkeys(t))
    if "calls" in obs:
        if any(c["budget_hit"] for c in obs["calls"]):
            t.append("budget-hit")
        if any(c["rtc_exc"] for c in obs["calls"]):
            t.append("escaped-run_to_completion")
            for c in obs["calls"]:
                for site in c.get("rtc_site", []):
                    t.append("escape-site:" + (site[-1] if site else "outside-statemachine"))
                for x in c["rtc_exc"]:
                    t.append("converted-error:" + x)
            if any(c["rtc_exc"] and c.get("reported") for c in obs["calls"]):
                t.append("converted-error-observed-by-handler")
        if meta.get("bad_inputs"):
            t.append("bad-input:" + "+".join(meta["bad_inputs"]))
        if meta.get("pad"):
            t.append("events-in-call:" + ("10-19" if meta["pad"] < 18 else "20+"))
        if meta.get("escape"):
            t.append("family:escape")
        for c in obs["calls"]:
            for ph in c.get("err_phases", []):
                t.append("error-phase:" + ph)
        if any(c["colang_errors"] for c in obs["calls"]):
            t.append("colang-error-event")
        for r in obs["samples"]:
            if r["exc"]:
                t.append("slide-exc:" + r["exc"])
                break
        fr = obs.get("frame") or {}
        if fr.get("checked"):
            t.append("frame:checked")
        if fr.get("not_closed"):
            t.append("frame:not-closed")
        if fr.get("violations"):
            t.append("frame:violation")
        lf = [x for c in obs["calls"] for x in c.get("leaf", [])]
        if lf:
            t.append("faulty-instance:leaf" if all(lf) else "faulty-instance:has-children-or-actions")
        ne = sum(c.get("errs", 0) for c in obs["calls"])
        t.append("errors-raised:" + (str(ne) if ne < 3 else "3+"))
        if sum(1 for c in obs["calls"] if c.get("errs", 0)) > 1:
            t.append("errors-in-several-calls")
        if not all(obs["py_acyclic"][k] or obs["py_ranked"][k] for k in obs["py_acyclic"]):
            t.append("has-cyclic-flow")
        mx = max([c["slides"] / c["budget"] for c in obs["calls"] if c["budget"]] or [0])
        t.append("budget-use:<" + ("1%" if mx < 0.01 else "5%" if mx < 0.05 else "25%" if mx < 0.25 else "100%"))
        if "round_ranked" in obs:
            t.append("round:" + ("unsupported" if obs["round_unsupported"] else "ranked" if obs["round_ranked"] else "outside-hypothesis"))
            if obs["round_ranked"] and obs["rounds"]:
                use = max((n / b) for n, b in obs["rounds"] if b)
                t.append("B-use:<" + ("5%" if use < 0.05 else "25%" if use < 0.25 else "50%" if use < 0.5 else "100%" if use <= 1 else "OVER"))
                mb = max(b for n, b in obs["rounds"] if b)
                t.append("B-size:<" + ("1e3" if mb < 1e3 else "1e4" if mb < 1e4 else "1e6" if mb < 1e6 else "huge"))
                t.append("rounds-replayed:" + str(min(len(obs["rounds_full"]), 10)))
    return t


# no `shrink`: a case is one small program plus the event script that walks the faulty flow to the injected statement;
# dropping events would change which statement is reached (and with it what the oracle expects).
