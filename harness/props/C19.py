"""C19 — embedding search returns each query's own embedding under caching and batching.

Tie.  (a) static: the await points of `_batch_get_embeddings`, `_run_batch`, `_get_embeddings` and
`cache_embeddings.wrapper_decorator` are located by AST — the atomic sections of the Lean transition
system were read off exactly these suspension points (asyncio is cooperative); a moved/added/removed
`await` is a broken tie.  (b) dynamic: the real `BasicEmbeddingsIndex` runs with a stub embedding model
on an event loop with virtual time; every atomic section that the real tasks execute is recorded
(instrumented `asyncio.Event`, thin overrides that only log and delegate) together with a digest of the
real shared fields after it; the recorded schedule is replayed in `Embed.step` through the driver: every
observed step must be enabled in the model (trace inclusion), the model's state digest must equal the
observed one after every step, and the final results / store must agree.  (c) function level: sequences of
calls of the real decorated `_get_embeddings` on real stores against `Embed.cachedCalls`.

Oracle (from the property statement, independent of the model): each returned vector equals the stub
model's vector of that text, results are in input order, every request completed.
"""
import ast
import asyncio
import hashlib
import heapq
import itertools
import json
import logging
import os
import shutil
import tempfile

from ..translate import util as tu

PROPERTY = "C19"
CASE_TIMEOUT = 300  # s of wall clock per case in pool workers (runner watchdog): a case that spins forever is a verdict, not exit 2
THEOREM_MODULE = "NemoVerif.Theorems.C19"
RULE = ("fn: 1-4 sequential calls of the decorated _get_embeddings with 0-7 texts from a 14-symbol alphabet (duplicates, '', unicode incl. composed/decomposed pair, case pair, whitespace pair, two pairs of long texts with a common 30/100-char prefix), "
        "cache in {off, in_memory, filesystem(tmp dir), harness-registered shared store} x key generator in {md5, hash, harness-registered hex}, "
        "store pre-populated with a random subset. sched: 1-40 concurrent requests (search() with a stub index) + 0-3 direct _get_embeddings "
        "calls, batch size 1-8, hold in {0.5,1,1.5,2,3,10} ticks (integer holds coincide with integer arrival ticks), arrival ticks clustered/spread, per-call model latency from {no await, 0, 0.3, 0.7, 2.2, 5}, "
        "virtual-time loop; thorough adds ALL non-decreasing arrival vectors over {0..3} of <=4 requests x batch size <=3 x text partitions x 6 (hold, latency) pairs x 2 caches. "
        "multi: 2-3 BasicEmbeddingsIndex objects in ONE process created through the real provider registry (register_embedding_provider/_init_model), models from 4 stub models (2 share dimension 4, others 6 and 3; sometimes the same model twice), "
        "cache per index in {off, in_memory, filesystem(dir k), shared store(slot k)} x key generator, same or different locations, batching on/off, 1-4 phases (sequential or concurrent, arrival offsets) of 1-6 ops "
        "{_get_embeddings(list), search(text), add_items(list), recreate (drop the index object and build a new one from the same or ANOTHER configuration)} over a shared alphabet; a failing multi case is re-run in a fresh process. "
        "non-trivial: fn = cache enabled and a call mixes hits and misses or has duplicates; sched = some batch carried >=2 requests, or a request "
        "had to wait for `submitted`, or two in-flight batches overlapped; multi = a cache is on and the same text went through two different models.")
TRUSTED_BASE = [
    "correspondence harness harness/props/C19.py (event-loop with virtual time, logging asyncio.Event subclass, logging overrides of _run_batch/_get_embeddings/_batch_get_embeddings that delegate to super()) + Lean driver Drive/C19.lean",
    "asyncio semantics: code between two suspension points is atomic; Event.wait() on a set event does not yield; Event.set() makes all waiters runnable (modelled, tied by replaying the recorded schedule)",
    "multi-index cases: probe stores (key recording, sharing probes written after the run), the recording of begin/finish of every decorated _get_embeddings call, re-run of a failing case in a fresh process",
    "the stub embedding model is pointwise and deterministic (md5-derived vector), as the property's premise 'the vector the embedding model gives for that text' requires",
]
ASSUMPTIONS = [
    "the key generator is injective on the texts in use (hypothesis InjOn; hash/MD5 collisions not modelled; kernel-checked counterexample cached_needs_injective_keys)",
    "the embedding model answers every call with one vector per document and does not raise; Redis store not exercised; request cancellation not modelled",
    "max_batch_size >= 1 for the progress theorems (with 0 the first request waits forever on a never-set event)",
    "several indexes: NoForeignShare (two indexes using one store location never produce the same key for texts their models embed differently) is a hypothesis of cached_correct_multi; evaluated on the real store objects / real keys / model vectors of every multi-index case; it fails exactly in the region of the open finding shared-store-different-models (kernel-checked counterexample cached_multi_shared_store_as_is_counterexample)",
]
EXHAUSTIVE = {"quick": False, "thorough": True}

ALPHABET = ["a", "b", "", "c", "hello world", "é∑", "a ", "B", "long " * 6, "long " * 6 + "tail", "Hello World", "e\u0301∑", "x" * 100 + "1", "x" * 100 + "2"]
LAT = [None, 0, 0.3, 0.7, 2.2, 5.0]
HOLD = [0.5, 1.0, 1.5, 2.0, 3.0, 10.0]

_REC = None  # current recorder (None = not recording)
_SETUP = False


# ----------------------------------------------------------------------------- stub model / vectors

def vec(t):
    d = hashlib.md5(("v:" + t).encode("utf-8")).digest()
    return [b / 7.0 for b in d[:3]] + [float(len(t))]


def venc(v):
    return None if v is None else json.dumps(v)


def mvec(model, t):
    """vector of text t under the stub model named `<id>.<dim>` (multi-index cases): different ids give different
    vectors for every text, dims differ between some models"""
    dim = int(model.rsplit(".", 1)[1])
    d = hashlib.md5((model + "|v:" + t).encode("utf-8")).digest()
    return [b / 7.0 for b in d[:dim - 1]] + [float(len(t))]


_MLATS = {}     # model name -> {"lats": [...], "calls": [...]} for the current multi-index case
_MREC = None    # {"n": calls so far, "ev": [...]}: begin/finish records of every decorated _get_embeddings call of a multi-index case
_MSTEPS = None  # [n] event-wait counter while a multi-index case runs (busy-loop guard without the recorder)


# ----------------------------------------------------------------------------- static tie

EXPECTED_AWAITS = {
    ("nemoguardrails/embeddings/basic.py", "BasicEmbeddingsIndex", "_batch_get_embeddings"): ["self._current_batch_submitted.wait()", "self._current_batch_finished_event.wait()"],
    ("nemoguardrails/embeddings/basic.py", "BasicEmbeddingsIndex", "_run_batch"): ["asyncio.wait([asyncio.create_task(asyncio.sleep(self.max_batch_hold)), asyncio.create_task(self._current_batch_full_event.wait())], return_when=asyncio.FIRST_COMPLETED)", "self._get_embeddings(batch)"],
    ("nemoguardrails/embeddings/basic.py", "BasicEmbeddingsIndex", "_get_embeddings"): ["self._model.encode_async(texts)"],
    ("nemoguardrails/embeddings/cache.py", None, "cache_embeddings"): ["func(self, texts)", "func(self, uncached_texts)"],
}


def _awaits(node):
    out = []
    for n in ast.walk(node):
        if isinstance(n, ast.Await):
            out.append((n.lineno, n.col_offset, ast.unparse(n.value)))
    return [s for _, _, s in sorted(out)]


def static_tie():
    problems = []
    for (rel, cls, fn), exp in EXPECTED_AWAITS.items():
        try:
            node = tu.find_def(tu.parse(rel), fn, cls)
        except tu.TieBroken as e:
            problems.append(str(e))
            continue
        got = _awaits(node)
        if got != exp:
            problems.append(f"suspension points of {fn} changed (the atomic sections of Embed.step were read off them): expected {exp}, found {got}")
    return problems


def translate():
    info = {}
    for (rel, cls, fn) in EXPECTED_AWAITS:
        try:
            info[f"fingerprint:{fn}"] = tu.fingerprint(tu.find_def(tu.parse(rel), fn, cls))
        except tu.TieBroken:
            info[f"fingerprint:{fn}"] = None
    return info


# ----------------------------------------------------------------------------- instrumentation

class VLoop(asyncio.SelectorEventLoop):
    """Event loop with virtual time: when nothing is runnable the clock jumps to the next timer."""

    def __init__(self):
        super().__init__()
        self._vt = 0.0

    def time(self):
        return self._vt

    def _run_once(self):
        while self._scheduled and self._scheduled[0]._cancelled:
            h = heapq.heappop(self._scheduled)
            h._scheduled = False
            self._timer_cancelled_count -= 1
        if not self._ready and self._scheduled:
            w = self._scheduled[0]._when
            if w > self._vt:
                self._vt = w
        super()._run_once()


class SpinDetected(BaseException):
    pass


def _setup():
    """Install the logging Event class into basic.py's view of asyncio and register harness stores/key generators."""
    global _SETUP, TIndex, Stub
    if _SETUP:
        return
    import nemoguardrails.embeddings.basic as basic
    from nemoguardrails.embeddings.cache import CacheStore, KeyGenerator
    from nemoguardrails.embeddings.providers.base import EmbeddingModel

    class TEvent(asyncio.Event):
        def __init__(self):
            super().__init__()
            rec = _REC
            self.eid = rec.new_event(self) if rec is not None else None

        async def wait(self):
            rec = _REC
            if rec is not None:
                rec.ev_wait(self)
            elif _MSTEPS is not None:
                _MSTEPS[0] += 1
                if _MSTEPS[0] > 200000:
                    raise SpinDetected("instrumentation step limit: busy loop")
            r = await super().wait()
            if rec is not None:
                rec.ev_woke(self)
            return r

        def set(self):
            if _REC is not None:
                _REC.ev_set(self)
            super().set()

    class Shim:
        Event = TEvent

        def __getattr__(self, k):
            return getattr(asyncio, k)

        @staticmethod
        def wait(*a, **kw):
            if _REC is not None:
                _REC.batch_waits()
            return asyncio.wait(*a, **kw)

        @staticmethod
        def ensure_future(coro, **kw):
            if _REC is not None:
                _REC.spawn()
            return asyncio.ensure_future(coro, **kw)

    basic.asyncio = Shim()

    class _TIndex(basic.BasicEmbeddingsIndex):
        async def _run_batch(self):
            if _REC is not None:
                _REC.bstart()
            return await super()._run_batch()

        async def _get_embeddings(self, texts):
            if _REC is not None:
                _REC.ge_in(texts)
            mrec, cid = _MREC, None
            if mrec is not None:
                # multi-index cases: the wrapper's first atomic section starts right here (no suspension before the cache
                # look-ups) and its second one ends with the return: the order of these records is the order of the sections
                cid = mrec["n"]
                mrec["n"] += 1
                mrec["ev"].append(["begin", cid, getattr(self, "_verif_spec", -1), list(texts)])
            r = await super()._get_embeddings(texts)
            if _REC is not None:
                _REC.ge_out(r)
            if mrec is not None:
                mrec["ev"].append(["finish", cid, [venc(v) for v in r] if isinstance(r, list) else None])
            return r

        async def _batch_get_embeddings(self, text):
            if _REC is not None:
                _REC.req_in()
            r = await super()._batch_get_embeddings(text)
            if _REC is not None:
                _REC.req_out()
            return r

    class _Stub(EmbeddingModel):
        engine_name = "verif_stub"

        def __init__(self, lats):
            self.lats = lats
            self.calls = []

        async def encode_async(self, documents):
            k = len(self.calls)
            self.calls.append(list(documents))
            lat = self.lats[k % len(self.lats)] if self.lats else None
            if lat is not None:
                await asyncio.sleep(lat)
            return [vec(t) for t in documents]

        def encode(self, documents):
            return [vec(t) for t in documents]

    class _Stub2(EmbeddingModel):
        """multi-index cases: created through the REAL path (`register_embedding_provider` -> `_init_model` ->
        `init_embedding_model` and its process-wide instance table); the model name carries identity and dimension"""
        engine_name = "verif_stub2"

        def __init__(self, embedding_model):
            self.name = embedding_model

        async def encode_async(self, documents):
            st = _MLATS.get(self.name)
            lat = None
            if st is not None:
                st["calls"].append(list(documents))
                lat = st["lats"][(len(st["calls"]) - 1) % len(st["lats"])] if st["lats"] else None
            if lat is not None:
                await asyncio.sleep(lat)
            return [mvec(self.name, t) for t in documents]

        def encode(self, documents):
            return [mvec(self.name, t) for t in documents]

    from nemoguardrails.embeddings.providers import register_embedding_provider
    register_embedding_provider(_Stub2, "verif_stub2")

    class HexKeyGenerator(KeyGenerator):
        name = "verif_hex"

        def generate_key(self, text):
            return "k" + text.encode("utf-8").hex()

    class SharedStore(CacheStore):
        name = "verif_shared"
        data = {}
        slots = {}  # multi-index cases: store_config {"slot": k} selects one of several shared stores

        def __init__(self, slot=None):
            self.slot = slot

        def _d(self):
            return SharedStore.data if self.slot is None else SharedStore.slots.setdefault(self.slot, {})

        def get(self, key):
            return self._d().get(key)

        def set(self, key, value):
            self._d()[key] = value

        def clear(self):
            if self.slot is None:
                SharedStore.data = {}
            else:
                SharedStore.slots[self.slot] = {}

    class KeyProbeStore(CacheStore):
        """records the keys the real wrapper derives (multi-index cases: the model's key table is read off the real code
        path `cache_embeddings -> EmbeddingsCache.get -> key generator`, whatever goes into the key)"""
        name = "verif_keyprobe"
        log = []

        def get(self, key):
            KeyProbeStore.log.append(key)
            return None

        def set(self, key, value):
            pass

        def clear(self):
            pass

    globals()["KeyProbeStore"] = KeyProbeStore
    globals()["SharedStore"] = SharedStore
    globals()["_KEEP"] = (HexKeyGenerator, SharedStore, KeyProbeStore, TEvent, Shim)  # __subclasses__() holds weak references only
    TIndex, Stub = _TIndex, _Stub
    logging.getLogger("nemoguardrails.embeddings.cache").setLevel(logging.ERROR)
    logging.getLogger("asyncio").setLevel(logging.CRITICAL)
    _SETUP = True


def worker_init():
    _setup()


class FakeAnnoy:
    """stands in for the Annoy index: records the vector each search() looked up"""

    def __init__(self):
        self.seen = {}

    def get_nns_by_vector(self, v, n, include_distances=False):
        self.seen[asyncio.current_task().get_name()] = v
        return ([], [])


class Recorder:
    """Turns the log of the instrumented run into the sequence of atomic sections + state digests."""

    LIMIT = 20000

    def __init__(self, idx, nreq, ndirect, batched):
        self.idx = idx
        self.events = {}          # id(Event) -> eid
        self.ev_objs = []
        self.nev = 0
        self.trace = []           # labels
        self.digests = []
        self.pcs = ["r"] * nreq
        self.bpcs = []
        self.dpcs = ["r"] * ndirect
        self.btasks = {}          # task object -> batch index (keeps the task alive: ids are never reused)
        self.sec = {}             # task name -> "enter" | "collect"
        self.last_fin = None
        self.last_queue = []
        self.batched = batched
        self.steps = 0
        self.notes = {"waited_submitted": 0, "max_batch": 0, "overlap": 0}

    # -- identities
    def new_event(self, ev):
        if self.idx is None or not hasattr(self.idx, "_current_batch_submitted"):
            return -1  # the `_current_batch_submitted` event made in __init__
        e = self.nev
        self.nev += 1
        self.ev_objs.append(ev)
        return e

    def _task(self):
        return asyncio.current_task()

    def _tick(self):
        self.steps += 1
        if self.steps > self.LIMIT:
            raise SpinDetected("instrumentation step limit: busy loop")

    def _digest(self):
        ix = self.idx
        fin = ix._current_batch_finished_event
        full = ix._current_batch_full_event
        return ("q=" + ",".join(str(k) for k in ix._req_queue) + "|r=" + ",".join(str(k) for k in ix._req_results)
                + "|i=" + str(ix._req_idx)
                + "|f=" + ("-" if fin is None else str(fin.eid))
                + "|F=" + ("-" if full is None else str(full.eid) + ("+" if full.is_set() else ""))
                + "|s=" + ("1" if ix._current_batch_submitted.is_set() else "0")
                + "|p=" + ",".join(self.pcs) + "|b=" + ",".join(self.bpcs) + "|d=" + ",".join(self.dpcs))

    def _emit(self, label):
        ix = self.idx
        self.trace.append(label)
        self.digests.append(self._digest())
        fin = ix._current_batch_finished_event
        self.last_fin = None if fin is None else fin.eid
        self.last_queue = list(ix._req_queue)

    # -- request tasks
    def req_in(self):
        self._tick()
        self.sec[self._task().get_name()] = "enter"

    def req_out(self):
        name = self._task().get_name()
        i = int(name[1:])
        self.pcs[i] = "d"
        self._emit([self.sec.get(name, "enter"), i])

    def ev_wait(self, ev):
        self._tick()
        t = self._task()
        name = t.get_name()
        if not (name.startswith("r") and name[1:].isdigit()):
            return  # the helper task `full_event.wait()` of _run_batch
        i = int(name[1:])
        if ev.eid == -1:
            if ev.is_set():
                self.pcs[i] = "X"
                self._emit(["enter", i])
                raise SpinDetected("wait() on the set `submitted` event inside the while loop: busy loop")
            self.pcs[i] = "s"
            self.notes["waited_submitted"] += 1
            self._emit(["enter", i])
        elif not ev.is_set():
            self.pcs[i] = f"w{ev.eid}.{self.idx._req_idx - 1}"
            self._emit(["enter", i])
        # wait on a set finished event returns at once: the section continues

    def ev_woke(self, ev):
        name = self._task().get_name()
        if name.startswith("r") and name[1:].isdigit():
            self.sec[name] = "enter" if ev.eid == -1 else "collect"

    def ev_set(self, ev):
        if ev.eid == -1:
            self.pcs = ["r" if p == "s" else p for p in self.pcs]
            return
        b = self.btasks.get(self._task())
        if b is not None and self.bpcs[b].startswith("r"):
            # `batch_event.set()` at the end of _run_batch
            self.bpcs[b] = "d"
            self._emit(["finish", b])

    # -- batch tasks
    def spawn(self):
        self.bpcs.append("c")

    def bstart(self):
        self._tick()
        b = len(self.btasks)
        self.btasks[self._task()] = b

    def batch_waits(self):
        b = self.btasks.get(self._task())
        if b is None:
            return
        full = self.idx._current_batch_full_event
        self.bpcs[b] = "C" if full is None else f"w{full.eid}"
        self._emit(["bstart", b])

    # -- _get_embeddings (batch task or direct call)
    def ge_in(self, texts):
        self._tick()
        t = self._task()
        b = self.btasks.get(t)
        if b is not None:
            fe = int(self.bpcs[b][1:]) if self.bpcs[b].startswith("w") else None
            timeout = not (fe is not None and self.ev_objs[fe].is_set())
            self.bpcs[b] = "r" + ("-" if self.last_fin is None else str(self.last_fin)) + ":" + ".".join(str(k) for k in self.last_queue)
            self.notes["max_batch"] = max(self.notes["max_batch"], len(texts))
            if sum(1 for p in self.bpcs if p.startswith("r")) >= 2:
                self.notes["overlap"] += 1
            self._emit(["take", b, timeout])
        else:
            d = self._dindex(t)
            self.dpcs[d] = "p"
            self._emit(["dbegin", d])

    def ge_out(self, res):
        t = self._task()
        if t in self.btasks:
            return
        d = self._dindex(t)
        self.dpcs[d] = "d"
        self._emit(["dend", d])

    def _dindex(self, t):
        name = t.get_name()
        return int(name[1:])  # tasks "d<j>"; un-batched requests "r<i>" are mapped to direct i


def _make_cache_config(case, tmpdir):
    c = case["cache"]
    if c["store"] == "off":
        return {"enabled": False}
    sc = {}
    if c["store"] == "filesystem":
        sc = {"cache_dir": tmpdir}
    return {"enabled": True, "store": c["store"], "key_generator": c["keygen"], "store_config": sc}


def _keygen(name):
    from nemoguardrails.embeddings.cache import KeyGenerator

    return KeyGenerator.from_name(name)()


def _persistent(case):
    return case["cache"]["store"] in ("filesystem", "verif_shared")


def _prepopulate(case, tmpdir, kg):
    """Put correct entries for case['prestore'] texts into the persistent store; returns [[key, vec]] in insertion order."""
    from nemoguardrails.embeddings.cache import FilesystemCacheStore

    pre = []
    if not _persistent(case):
        return pre
    SharedStore.data = {}
    store = FilesystemCacheStore(cache_dir=tmpdir) if case["cache"]["store"] == "filesystem" else SharedStore()
    seen = set()
    for t in case.get("prestore", []):
        k = kg.generate_key(t)
        if k in seen:
            continue
        seen.add(k)
        store.set(k, vec(t))
        pre.append([k, venc(vec(t))])
    return pre


def _read_store(case, tmpdir):
    if case["cache"]["store"] == "filesystem":
        out = []
        for fn in os.listdir(tmpdir):
            with open(os.path.join(tmpdir, fn)) as f:
                out.append([fn, venc(json.load(f))])
        return sorted(out)
    if case["cache"]["store"] == "verif_shared":
        return sorted([k, venc(v)] for k, v in SharedStore.data.items())
    return []


def _all_texts(case):
    ts = []
    if case["kind"] == "fn":
        for c in case["calls"]:
            ts.extend(c)
    else:
        ts.extend(r["text"] for r in case["reqs"])
        for d in case["directs"]:
            ts.extend(d["texts"])
    ts.extend(case.get("prestore", []))
    out = []
    for t in ts:
        if t not in out:
            out.append(t)
    return out


def run_impl(case):
    _setup()
    tmpdir = tempfile.mkdtemp(prefix="c19-", dir="/dev/shm" if os.path.isdir("/dev/shm") else None)
    try:
        if case["kind"] == "fn":
            return _run_fn(case, tmpdir)
        if case["kind"] == "multi":
            obs = _run_multi(case, tmpdir)
            return _verify_fresh(case, obs)
        return _run_sched(case, tmpdir)
    finally:
        shutil.rmtree(tmpdir, ignore_errors=True)


def _tables(case, kg):
    texts = _all_texts(case)
    keys = [[t, kg.generate_key(t)] for t in texts] if kg is not None else [[t, "off:" + t] for t in texts]
    return keys, [[t, venc(vec(t))] for t in texts]


def _run_fn(case, tmpdir):
    kg = _keygen(case["cache"]["keygen"]) if case["cache"]["store"] != "off" else None
    pre = _prepopulate(case, tmpdir, kg) if kg else []
    idx = TIndex(cache_config=_make_cache_config(case, tmpdir))
    idx._model = Stub([None])
    obs = {"results": [], "pre": pre}
    obs["keys"], obs["vecs"] = _tables(case, kg)
    for texts in case["calls"]:
        coro = idx._get_embeddings(list(texts))
        try:
            coro.send(None)
            obs["results"].append({"exc": "suspended"})
            coro.close()
        except StopIteration as e:
            r = e.value
            obs["results"].append([venc(v) for v in r] if isinstance(r, list) else {"exc": "not a list: " + repr(r)[:50]})
        except Exception as e:  # noqa
            obs["results"].append({"exc": type(e).__name__ + ": " + str(e)[:80]})
    obs["model_calls"] = idx._model.calls
    obs["store"] = _read_store(case, tmpdir)
    return obs


def _run_sched(case, tmpdir):
    global _REC
    kg = _keygen(case["cache"]["keygen"]) if case["cache"]["store"] != "off" else None
    pre = _prepopulate(case, tmpdir, kg) if kg else []
    batched = case.get("use_batching", True)
    nreq, ndir = len(case["reqs"]), len(case["directs"])
    obs = {"pre": pre}
    obs["keys"], obs["vecs"] = _tables(case, kg)
    loop = VLoop()
    rec = Recorder(None, nreq if batched else 0, ndir + (0 if batched else nreq), batched)
    _REC = rec
    try:
        idx = TIndex(use_batching=batched, max_batch_size=case["max"], max_batch_hold=case["hold"], cache_config=_make_cache_config(case, tmpdir))
        rec.idx = idx
        idx._model = Stub(case["lats"])
        idx._index = FakeAnnoy()
        results = {}

        async def req(i, r):
            try:
                await idx.search(r["text"])
                results[f"r{i}"] = "ok"
            except SpinDetected as e:
                results[f"r{i}"] = "spin: " + str(e)
            except Exception as e:  # noqa
                results[f"r{i}"] = "exc: " + type(e).__name__ + ": " + str(e)[:80]

        async def direct(j, d):
            try:
                r = await idx._get_embeddings(list(d["texts"]))
                results[f"d{j}"] = [venc(v) for v in r] if isinstance(r, list) else "exc: not a list"
            except Exception as e:  # noqa
                results[f"d{j}"] = "exc: " + type(e).__name__ + ": " + str(e)[:80]

        async def main():
            # arrivals: tasks are created at their (virtual) arrival time; simultaneous arrivals start in list order
            # (requests before direct calls).  Un-batched requests are the direct calls `_get_embeddings([text])`
            # of search(); they are numbered after the directs.
            arrivals = sorted([(r["at"], 0, i) for i, r in enumerate(case["reqs"])] + [(d["at"], 1, j) for j, d in enumerate(case["directs"])])
            tasks = []
            for at, kind, k in arrivals:
                if at > loop.time():
                    await asyncio.sleep(at - loop.time())
                if kind == 0:
                    tasks.append(loop.create_task(req(k, case["reqs"][k]), name=(f"r{k}" if batched else f"d{ndir + k}")))
                else:
                    tasks.append(loop.create_task(direct(k, case["directs"][k]), name=f"d{k}"))
            pending = []
            if tasks:
                done, pending = await asyncio.wait(tasks, timeout=1e6)
            for t in pending:
                t.cancel()
            for _ in range(3):
                await asyncio.sleep(0)
            return len(pending)

        hung = loop.run_until_complete(main())
        obs["hung"] = hung
        seen = idx._index.seen
        rr = []
        for i, r in enumerate(case["reqs"]):
            name = f"r{i}" if batched else f"d{ndir + i}"
            st = results.get(f"r{i}")
            rr.append({"status": st or "hung", "vec": venc(seen.get(name))})
        obs["reqs"] = rr
        obs["directs"] = [results.get(f"d{j}", "hung") for j in range(ndir)]
        obs["trace"] = rec.trace
        obs["digests"] = rec.digests
        obs["model_calls"] = idx._model.calls
        obs["notes"] = rec.notes
        obs["vt"] = loop.time()
        obs["leftover"] = {"queue": len(idx._req_queue), "results": len(idx._req_results)}
        obs["store"] = _read_store(case, tmpdir)
        return obs
    finally:
        _REC = None
        try:
            loop.close()
        except Exception:  # noqa
            pass



# ----------------------------------------------------------------------------- several indexes in one process

def _m_cache_config(spec, tmpdir):
    c = spec["cache"]
    if c["store"] == "off":
        return {"enabled": False}
    sc = {}
    if c["store"] == "filesystem":
        sc = {"cache_dir": os.path.join(tmpdir, "fs%d" % c.get("loc", 0))}
    elif c["store"] == "verif_shared":
        sc = {"slot": c.get("loc", 0)}
    return {"enabled": True, "store": c["store"], "key_generator": c["keygen"], "store_config": sc}


def _m_loc(spec, i):
    """declared identity of the store of index i: indexes with equal identity read and write the same entries.
    `in_memory` is a new empty store object per call (EmbeddingsCache.from_config), i.e. shared with nobody."""
    c = spec["cache"]
    if c["store"] == "filesystem":
        return c.get("loc", 0)
    if c["store"] == "verif_shared":
        return 100 + c.get("loc", 0)
    return 1000 + i


def _m_persistent(spec):
    return spec["cache"]["store"] in ("filesystem", "verif_shared")


def _m_texts(case):
    out = []
    for ph in case["phases"]:
        for op in ph["ops"]:
            for t in (op.get("texts") or ([op["text"]] if "text" in op else [])):
                if t not in out:
                    out.append(t)
    return out


def _m_ops(case):
    """(op number, phase number, phase, op, spec): `ix` of an op is a SLOT; slot i initially holds an index built from
    case["indexes"][i]; `recreate` drops the index object of a slot and puts a new one there, built from the same spec or
    from spec `as` (another model / cache configuration: the second instance at the same place)"""
    k = 0
    slot = list(range(case.get("nslots", len(case["indexes"]))))
    for pi, ph in enumerate(case["phases"]):
        for op in ph["ops"]:
            if op["op"] == "recreate":
                slot[op["ix"]] = op.get("as", slot[op["ix"]])
            yield k, pi, ph, op, slot[op["ix"]]
            k += 1


def _m_real_keys(sp, texts):
    """[[text, key]]: the key under which an index with this model / key generator files `text`, observed on the real
    wrapper (a probe index with the same model and key generator whose store only records the keys it is asked for)"""
    if sp["cache"]["store"] == "off":
        return [[t, "off:" + t] for t in texts]
    kg = _keygen(sp["cache"]["keygen"])
    probe = TIndex(embedding_model=sp["model"], embedding_engine="verif_stub2",
                   cache_config={"enabled": True, "store": "verif_keyprobe", "key_generator": sp["cache"]["keygen"], "store_config": {}})
    out = []
    for t in texts:
        KeyProbeStore.log = []
        coro = probe._get_embeddings([t])
        try:
            coro.send(None)
            coro.close()
        except StopIteration:
            pass
        except Exception:  # noqa
            pass
        out.append([t, KeyProbeStore.log[0] if KeyProbeStore.log else kg.generate_key(t)])
    return out


def _run_multi(case, tmpdir):
    global _MSTEPS, _MREC
    from nemoguardrails.embeddings.cache import EmbeddingsCache
    from nemoguardrails.embeddings.index import IndexItem
    from nemoguardrails.rails.llm.config import EmbeddingsCacheConfig
    import nemoguardrails.embeddings.providers as prov

    specs = case["indexes"]
    try:
        prov._embedding_model_cache.clear()  # replays must not depend on what an earlier case left in this worker
    except AttributeError:
        pass
    SharedStore.slots = {}
    _MLATS.clear()
    texts = _m_texts(case)
    obs = {"keys": [], "vecs": []}
    for sp in specs:
        obs["keys"].append(_m_real_keys(sp, texts))
        obs["vecs"].append([[t, venc(mvec(sp["model"], t))] for t in texts])
    for sp in specs:
        _MLATS.setdefault(sp["model"], {"lats": sp.get("lats") or [None], "calls": []})

    def make(i):
        sp = specs[i]
        ix = TIndex(embedding_model=sp["model"], embedding_engine="verif_stub2", use_batching=sp.get("batching", False),
                    max_batch_size=sp.get("max", 3), max_batch_hold=sp.get("hold", 1.0), cache_config=_m_cache_config(sp, tmpdir))
        ix._verif_spec = i
        return ix

    loop = VLoop()
    _MSTEPS = [0]
    _MREC = {"n": 0, "ev": []}
    try:
        idxs = [make(i) for i in range(case.get("nslots", len(specs)))]
        cfgs = [EmbeddingsCacheConfig(**_m_cache_config(sp, tmpdir)) for sp in specs]
        for cfg in cfgs:
            # every case starts from empty caches (public API), so that a replay does not depend on what earlier cases
            # of this worker process left in process-wide state
            if cfg.enabled:
                EmbeddingsCache.from_config(cfg).clear()
        results = {}

        async def run_op(k, op):
            name = f"op{k}"
            ix = idxs[op["ix"]]
            try:
                if op["op"] == "get":
                    r = await ix._get_embeddings(list(op["texts"]))
                    results[name] = {"status": "ok", "vecs": [venc(v) for v in r]} if isinstance(r, list) else {"status": "exc: not a list"}
                elif op["op"] == "search":
                    if ix._index is None:
                        ix._index = FakeAnnoy()
                    await ix.search(op["text"])
                    results[name] = {"status": "ok", "vecs": [venc(ix._index.seen.get(name))]}
                elif op["op"] == "add":
                    if ix._index is not None:
                        await ix.add_items([IndexItem(text=t, meta={}) for t in op["texts"]])
                        results[name] = {"status": "ok", "skipped": True, "vecs": []}
                    else:
                        n0 = len(ix._embeddings)
                        await ix.add_items([IndexItem(text=t, meta={}) for t in op["texts"]])
                        results[name] = {"status": "ok", "vecs": [venc(v) for v in ix._embeddings[n0:]], "size": ix._embedding_size,
                                         "first_len": len(ix._embeddings[0]) if ix._embeddings else None}
            except SpinDetected as e:
                results[name] = {"status": "spin: " + str(e)}
            except Exception as e:  # noqa
                results[name] = {"status": "exc: " + type(e).__name__ + ": " + str(e)[:80]}

        cur = list(range(len(idxs)))

        async def main():
            hung = 0
            k = 0
            for ph in case["phases"]:
                if ph["mode"] == "seq":
                    for op in ph["ops"]:
                        if op["op"] == "recreate":
                            cur[op["ix"]] = op.get("as", cur[op["ix"]])
                            idxs[op["ix"]] = None  # the old object is released first (its address may be reused)
                            idxs[op["ix"]] = make(cur[op["ix"]])  # a second index object (same or another configuration)
                            results[f"op{k}"] = {"status": "ok", "vecs": []}
                        else:
                            t = loop.create_task(run_op(k, op), name=f"op{k}")
                            done, pending = await asyncio.wait([t], timeout=1e6)
                            for p in pending:
                                p.cancel()
                                hung += 1
                        k += 1
                else:
                    t0 = loop.time()
                    tasks = []
                    for at, kk, op in sorted((op.get("at", 0), k + j, op) for j, op in enumerate(ph["ops"])):
                        if t0 + at > loop.time():
                            await asyncio.sleep(t0 + at - loop.time())
                        tasks.append(loop.create_task(run_op(kk, op), name=f"op{kk}"))
                    k += len(ph["ops"])
                    if tasks:
                        done, pending = await asyncio.wait(tasks, timeout=1e6)
                        for p in pending:
                            p.cancel()
                            hung += 1
                for _ in range(3):
                    await asyncio.sleep(0)
            return hung

        obs["hung"] = loop.run_until_complete(main())
        obs["ops"] = [results.get(f"op{k}", {"status": "hung"}) for k, _, _, _, _ in _m_ops(case)]
        obs["calls"] = _MREC["ev"]
        _MREC = None
        obs["model_calls"] = {m: st["calls"] for m, st in _MLATS.items()}
        obs["leftover"] = [{"queue": len(ix._req_queue), "results": len(ix._req_results)} for ix in idxs]
        idxs = None
        # final content of every declared store location
        stores = {}
        for i, sp in enumerate(specs):
            if not _m_persistent(sp):
                continue
            loc = _m_loc(sp, i)
            if sp["cache"]["store"] == "filesystem":
                d = os.path.join(tmpdir, "fs%d" % sp["cache"].get("loc", 0))
                ent = []
                for fn in (os.listdir(d) if os.path.isdir(d) else []):
                    with open(os.path.join(d, fn)) as f:
                        ent.append([fn, venc(json.load(f))])
                stores[str(loc)] = sorted(ent)
            else:
                stores[str(loc)] = sorted([k, venc(v)] for k, v in SharedStore.slots.get(sp["cache"].get("loc", 0), {}).items())
        obs["stores"] = stores
        # store identity, observed on the real objects (hypothesis of cached_correct_multi): does an entry written through
        # the store that index i's configuration yields show up in the store that index j's configuration yields?
        # (i == j: two store objects built from the same configuration = what two successive calls of one index see)
        n = len(specs)
        shares = [[False] * n for _ in range(n)]
        try:
            for i in range(n):
                if not cfgs[i].enabled:
                    continue
                probe = "verif-probe-%d" % i
                EmbeddingsCache.from_config(cfgs[i])._cache_store.set(probe, [0.5])
                for j in range(n):
                    if cfgs[j].enabled:
                        shares[i][j] = EmbeddingsCache.from_config(cfgs[j])._cache_store.get(probe) is not None
            obs["shares"] = shares
        except Exception as e:  # noqa
            obs["shares"] = "probe failed: " + type(e).__name__ + ": " + str(e)[:80]
        return obs
    finally:
        _MSTEPS = None
        _MREC = None
        try:
            loop.close()
        except Exception:  # noqa
            pass


_FRESH = [0]


def _verify_fresh(case, obs):
    """A multi-index case that fails in a pool worker is run again in a NEW Python process and that observation is
    returned: process-wide state that a change of the code under test keeps (class-level tables, memo dicts, registries)
    survives from case to case inside a worker, so a failure seen there may depend on earlier cases - a replay must fail
    on its own.  (The polluting history is itself among the generated cases: several indexes, several phases.)
    Bounded per worker; failures inside the region of the open finding are determined by the configuration alone."""
    import multiprocessing
    import subprocess
    import sys
    if multiprocessing.current_process().name == "MainProcess" or os.environ.get("C19_FRESH_CHILD") or _FRESH[0] >= 4:
        return obs
    try:
        msg = _m_oracle(case, obs)
    except Exception:  # noqa
        return obs
    if not msg or msg.startswith("[shared-store] "):
        return obs
    _FRESH[0] += 1
    try:
        p = subprocess.run([sys.executable, "-c", "import sys, json\nfrom harness.props import C19\nprint('\\n' + json.dumps(C19.run_impl(json.load(sys.stdin))))"],
                           input=json.dumps(case).encode("utf-8"), stdout=subprocess.PIPE, stderr=subprocess.DEVNULL, timeout=120,
                           env=dict(os.environ, C19_FRESH_CHILD="1"), cwd=os.path.dirname(os.path.dirname(os.path.dirname(os.path.abspath(__file__)))))
        obs2 = json.loads(p.stdout.decode("utf-8").strip().split("\n")[-1])
        obs2["in_worker_failure"] = msg
        return obs2
    except Exception:  # noqa
        return obs


def _m_declared_shares(case):
    specs = case["indexes"]
    n = len(specs)
    return [[(specs[i]["cache"]["store"] != "off" and specs[j]["cache"]["store"] != "off" and _m_persistent(specs[i])
              and _m_loc(specs[i], i) == _m_loc(specs[j], j)) for j in range(n)] for i in range(n)]


def _m_all_seq(case):
    return all(ph["mode"] == "seq" for ph in case["phases"])


def _m_foreign(case, i):
    """indexes with a DIFFERENT embedding model whose cache entries index i can read: same store location and same key
    generator (the region outside the hypothesis of cached_correct_multi; open finding shared-store-different-models)"""
    specs = case["indexes"]
    if not _m_persistent(specs[i]):
        return []
    return [j for j in range(len(specs)) if j != i and specs[j]["model"] != specs[i]["model"] and _m_persistent(specs[j])
            and _m_loc(specs[j], j) == _m_loc(specs[i], i) and specs[j]["cache"]["keygen"] == specs[i]["cache"]["keygen"]]


def _m_hyp(case, obs):
    """`NoForeignShare` (hypothesis of cached_correct_multi) evaluated on the REAL objects of the case: for every two
    configurations whose real store objects see each other's entries, equal real keys imply equal model vectors"""
    sh = obs.get("shares")
    if not isinstance(sh, list):
        return None
    n = len(case["indexes"])
    for i in range(n):
        for j in range(n):
            if not (sh[i][j] or sh[j][i]):
                continue
            vj = dict(map(tuple, obs["vecs"][j]))
            kj = {}
            for t, k in obs["keys"][j]:
                kj.setdefault(k, []).append(t)
            vi = dict(map(tuple, obs["vecs"][i]))
            for t, k in obs["keys"][i]:
                for t2 in kj.get(k, []):
                    if vi[t] != vj[t2]:
                        return False
    return True


def _m_oracle(case, obs):
    specs = case["indexes"]
    first_known = None
    for k, pi, ph, op, sx in _m_ops(case):
        o = obs["ops"][k]
        i = sx
        model = specs[i]["model"]
        where = f"op {k} (phase {pi} {ph['mode']}, slot {op['ix']} index {i} model {model} cache {specs[i]['cache']['store']}) {op['op']}"
        if o["status"] != "ok":
            return f"{where} did not complete: {o['status']}"
        if op["op"] == "recreate" or o.get("skipped"):
            continue
        texts = op["texts"] if "texts" in op else [op["text"]]
        exp = [venc(mvec(model, t)) for t in texts]
        if o["vecs"] != exp:
            bad = [q for q in range(max(len(exp), len(o["vecs"]))) if q >= len(exp) or q >= len(o["vecs"]) or exp[q] != o["vecs"][q]]
            q = bad[0]
            got = o["vecs"][q] if q < len(o["vecs"]) else "missing"
            owner = [f"model {sp['model']}'s vector of {t!r}" for sp in specs for t in _m_texts(case) if venc(mvec(sp["model"], t)) == got]
            msg = (f"{where} texts {texts}: position {q} is not the vector model {model} gives for {texts[q] if q < len(texts) else '?'!r}"
                   + (f" (it is {owner[0]})" if owner else f" (got {got})"))
            # exact cross-talk through a store that the configuration shares between different models?
            xt = q < len(texts) and any(got == venc(mvec(specs[j]["model"], texts[q])) for j in _m_foreign(case, i))
            if xt and all(bq < len(texts) and bq < len(o["vecs"]) and any(o["vecs"][bq] == venc(mvec(specs[j]["model"], texts[bq])) for j in _m_foreign(case, i)) for bq in bad):
                if first_known is None:
                    first_known = "[shared-store] " + msg
                continue
            return msg
        if op["op"] == "add" and o.get("size") is not None and o["size"] != o.get("first_len"):
            return f"{where}: embedding_size {o['size']} is not the length of the stored vectors"
    return first_known


def _m_signature(case, obs, msg):
    if msg.startswith("[shared-store] "):
        return "shared-store-different-models"
    return None


def _m_labels(obs):
    """the recorded begin/finish sequence as labels of Embed.mstep (`finish k`: k-th call still open)"""
    open_, labels, finished = [], [], []
    for e in obs.get("calls", []):
        if e[0] == "begin":
            open_.append(e[1])
            labels.append(["begin", e[2], e[3]])
        else:
            labels.append(["finish", open_.index(e[1])])
            open_.remove(e[1])
            finished.append(e[2])
    return labels, finished


def _m_model_requests(case, obs):
    specs = case["indexes"]
    ixs = [{"cfg": {"enabled": sp["cache"]["store"] != "off", "persistent": _m_persistent(sp)}, "loc": _m_loc(sp, i),
            "keys": obs["keys"][i], "vecs": obs["vecs"][i]} for i, sp in enumerate(specs)]
    reqs = [{"m": "C19.mreplay", "indexes": ixs, "labels": _m_labels(obs)[0]}]
    if not _m_all_seq(case):
        return reqs
    ops = []
    for k, pi, ph, op, sx in _m_ops(case):
        if op["op"] == "recreate" or obs["ops"][k].get("skipped"):
            ops.append([sx, None])
        else:
            ops.append([sx, op["texts"] if "texts" in op else [op["text"]]])
    return reqs + [{"m": "C19.multi", "indexes": ixs, "ops": ops}]


def _m_compare(case, obs, mouts):
    if obs.get("shares") != _m_declared_shares(case):
        return (f"store identity differs from the model's: observed sharing relation of the real store objects {obs.get('shares')}, "
                f"modelled {_m_declared_shares(case)} (in_memory = new empty store per call, filesystem = one store per cache_dir)")
    if not mouts:
        return None
    # (1) every decorated _get_embeddings call of every index (incl. the ones _run_batch makes), in the recorded order of the
    # wrapper's atomic sections, replayed in Embed.mstep
    r = mouts[0]
    labels, finished = _m_labels(obs)
    if r["failed_at"] is not None:
        return f"recorded section #{r['failed_at']} {labels[r['failed_at']]} is not enabled in Embed.mstep"
    if len(r["returned"]) != len(finished):
        return f"model returned {len(r['returned'])} calls, implementation {len(finished)}"
    for k, (mv, iv) in enumerate(zip(r["returned"], finished)):
        if mv[1] != iv:
            return f"_get_embeddings call finishing #{k} (index {mv[0]}): impl returned {iv}, model {mv[1]}"
    if obs.get("hung") == 0 and all(o["status"] == "ok" for o in obs["ops"]):
        ms = {str(l): sorted(st) for l, st in r["stores"]}
        for l, st in obs["stores"].items():
            if st != ms.get(l, []):
                return f"final store at location {l} differs: impl {st} model (mstep) {ms.get(l, [])}"
    if _m_hyp(case, obs) is True:
        # cached_correct_multi applies (its hypotheses hold of the real objects): every replayed call must have returned the
        # calling index's own vectors in the model - a disagreement here is a proof/model problem, not an implementation one
        vt = [dict(map(tuple, v)) for v in obs["vecs"]]
        calls = [e for e in obs.get("calls", []) if e[0] == "begin"]
        texts_of = {e[1]: (e[2], e[3]) for e in calls}
        fin = [e for e in obs.get("calls", []) if e[0] == "finish"]
        for (mi, mv), e in zip(r["returned"], fin):
            sx, tx = texts_of[e[1]]
            if 0 <= sx < len(vt) and mv != [vt[sx].get(t) for t in tx]:
                return f"theorem cached_correct_multi contradicted by the model run: call of index {sx} on {tx} returned {mv}"
    if len(mouts) < 2:
        return None
    # (2) all-sequential cases additionally as whole calls (Embed.multiCalls)
    m = mouts[1]
    for k, (o, mr) in enumerate(zip(obs["ops"], m["results"])):
        if mr is None:
            continue
        if o["status"] != "ok":
            return f"op {k}: implementation {o['status']}, model {mr}"
        if o["vecs"] != mr:
            return f"op {k}: impl returned {o['vecs']}, model {mr}"
    ms = {str(l): sorted(st) for l, st in m["stores"]}
    for l, st in obs["stores"].items():
        if st != ms.get(l, []):
            return f"final store at location {l} differs: impl {st} model {ms.get(l, [])}"
    return None


def _m_nontrivial(case, obs):
    specs = case["indexes"]
    if len(set(sp["model"] for sp in specs)) < 2:
        return False
    seen = {}
    for k, pi, ph, op, sx in _m_ops(case):
        for t in (op.get("texts") or ([op["text"]] if "text" in op else [])):
            seen.setdefault(t, set()).add(specs[sx]["model"])
    return any(len(v) >= 2 for v in seen.values()) and any(sp["cache"]["store"] != "off" for sp in specs)


def _m_tags(case, obs):
    specs = case["indexes"]
    t = ["kind:multi", "nidx:%d" % len(specs), "models:%d" % len(set(sp["model"] for sp in specs)),
         "dims:%d" % len(set(sp["model"].rsplit(".", 1)[1] for sp in specs))]
    for st in sorted(set(sp["cache"]["store"] for sp in specs)):
        t.append("mcache:" + st)
    t.append("hyp:NoForeignShare-on-real-objects:" + {True: "holds", False: "fails", None: "unknown"}[_m_hyp(case, obs)])
    if any(_m_foreign(case, i) for i in range(len(specs))):
        t.append("hyp:store-shared-by-different-models")
    elif any(any(r[j] for j in range(len(r)) if j != i) for i, r in enumerate(_m_declared_shares(case))):
        t.append("store-shared-by-same-model")
    t.append("phases:" + ("seq" if _m_all_seq(case) else "conc" if all(ph["mode"] == "conc" for ph in case["phases"]) else "mixed"))
    kinds = set(op["op"] for _, _, _, op, _ in _m_ops(case))
    t.extend("mop:" + k for k in sorted(kinds))
    if any(sp.get("batching") for sp in specs):
        t.append("mbatching")
    if _m_nontrivial(case, obs):
        t.append("same-text-through-two-models")
    if obs.get("hung"):
        t.append("hung")
    return t


MODELS = ["m0.4", "m1.4", "m2.6", "m3.3"]


def g_multi(rng):
    n = rng.choice([2, 2, 2, 3])
    alpha = rng.sample(ALPHABET, rng.randint(2, 5))
    if rng.random() < 0.12:
        models = [rng.choice(MODELS)] * n
    else:
        models = rng.sample(MODELS, n) if rng.random() < 0.7 else [rng.choice(MODELS) for _ in range(n)]
    uniform = rng.random() < 0.55  # one cache configuration for all indexes (what a rails config usually has)
    r = rng.random()
    ustore = "in_memory" if r < 0.4 else "filesystem" if r < 0.75 else "verif_shared" if r < 0.9 else "off"
    ukg = rng.choice(["md5", "md5", "hash", "verif_hex"])
    same_loc = rng.random() < 0.3
    specs = []
    for i in range(n):
        if uniform:
            store, kg = ustore, ukg
        else:
            store, kg = rng.choice(["in_memory", "in_memory", "filesystem", "filesystem", "verif_shared", "off"]), rng.choice(["md5", "hash", "verif_hex"])
        loc = 0 if same_loc else (i if rng.random() < 0.8 else rng.randint(0, n - 1))
        specs.append({"model": models[i], "cache": {"store": store, "keygen": kg, "loc": loc}, "batching": rng.random() < 0.4,
                      "max": rng.randint(1, 4), "hold": rng.choice(HOLD), "lats": [rng.choice(LAT) for _ in range(rng.randint(1, 3))]})
    phases = []
    allseq = rng.random() < 0.5
    nslots = n - 1 if (n == 3 and rng.random() < 0.3) else n  # a spare configuration that only `recreate ... as` brings in
    for _ in range(rng.randint(1, 4)):
        mode = "seq" if allseq or rng.random() < 0.4 else "conc"
        ops = []
        added = set()
        for _ in range(rng.randint(1, 6)):
            ix = rng.randrange(nslots)
            r = rng.random()
            if r < 0.4:
                ops.append({"ix": ix, "op": "get", "texts": g_texts(rng, rng.choice([1, 1, 2, 3, 4]), alpha)})
            elif r < 0.75:
                ops.append({"ix": ix, "op": "search", "text": rng.choice(alpha)})
            elif r < 0.9:
                if mode == "conc" and ix in added:
                    continue
                added.add(ix)
                ops.append({"ix": ix, "op": "add", "texts": g_texts(rng, rng.randint(1, 4), alpha)})
            elif mode == "seq":
                ops.append({"ix": ix, "op": "recreate"})
                if rng.random() < 0.4:
                    ops[-1]["as"] = rng.randrange(n)
            if mode == "conc" and ops and rng.random() < 0.3:
                ops[-1]["at"] = rng.choice([0, 0.5, 1, 2])
        if ops:
            phases.append({"mode": mode, "ops": ops})
    if not phases:
        phases = [{"mode": "seq", "ops": [{"ix": 0, "op": "get", "texts": [alpha[0]]}, {"ix": 1, "op": "get", "texts": [alpha[0]]}]}]
        nslots = n
    case = {"kind": "multi", "indexes": specs, "phases": phases}
    if nslots != n:
        case["nslots"] = nslots
    return case


def _m_shrink(case):
    phs = case["phases"]
    for pi in range(len(phs)):
        if len(phs) > 1:
            yield dict(case, phases=phs[:pi] + phs[pi + 1:])
    for pi, ph in enumerate(phs):
        for oi in range(len(ph["ops"])):
            if len(ph["ops"]) > 1:
                yield dict(case, phases=phs[:pi] + [dict(ph, ops=ph["ops"][:oi] + ph["ops"][oi + 1:])] + phs[pi + 1:])
        for oi, op in enumerate(ph["ops"]):
            if "texts" in op and len(op["texts"]) > 1:
                for q in range(len(op["texts"])):
                    yield dict(case, phases=phs[:pi] + [dict(ph, ops=ph["ops"][:oi] + [dict(op, texts=op["texts"][:q] + op["texts"][q + 1:])] + ph["ops"][oi + 1:])] + phs[pi + 1:])
        if ph["mode"] == "conc":
            yield dict(case, phases=phs[:pi] + [dict(ph, mode="seq", ops=[{k: v for k, v in op.items() if k != "at"} for op in ph["ops"]])] + phs[pi + 1:])
    used = set(op["ix"] for _, _, _, op, _ in _m_ops(case))
    if "nslots" not in case and not any("as" in op for _, _, _, op, _ in _m_ops(case)) and len(case["indexes"]) > 1:
        for i in range(len(case["indexes"])):
            if i not in used:
                remap = lambda x: x - 1 if x > i else x  # noqa
                yield dict(case, indexes=case["indexes"][:i] + case["indexes"][i + 1:],
                           phases=[dict(ph, ops=[dict(op, ix=remap(op["ix"])) for op in ph["ops"]]) for ph in phs])
    for i, sp in enumerate(case["indexes"]):
        if sp.get("batching"):
            yield dict(case, indexes=case["indexes"][:i] + [dict(sp, batching=False)] + case["indexes"][i + 1:])
        if sp.get("lats") and sp["lats"] != [None]:
            yield dict(case, indexes=case["indexes"][:i] + [dict(sp, lats=[None])] + case["indexes"][i + 1:])


# ----------------------------------------------------------------------------- model side

def _cfg(case):
    return {"enabled": case["cache"]["store"] != "off", "persistent": _persistent(case)}


def model_requests(case, obs):
    if case["kind"] == "multi":
        return _m_model_requests(case, obs)
    base = {"cfg": _cfg(case), "keys": obs["keys"], "vecs": obs["vecs"], "store": obs["pre"]}
    if case["kind"] == "fn":
        return [dict(base, m="C19.cached", calls=case["calls"])]
    batched = case.get("use_batching", True)
    reqs = [r["text"] for r in case["reqs"]]
    directs = [d["texts"] for d in case["directs"]]
    if not batched:
        directs = directs + [[t] for t in reqs]
        reqs = []
    return [dict(base, m="C19.replay", max=case["max"], reqs=reqs, directs=directs, trace=obs["trace"])]


def _inj_problem(tables):
    """hypothesis `InjOn g U` of cached_correct / batch_safety / cached_correct_multi, checked on the real key generator:
    distinct texts in use must have distinct keys"""
    for tbl in tables:
        seen = {}
        for t, k in tbl:
            if k in seen and seen[k] != t:
                return f"hypothesis InjOn fails on the real key generator: texts {seen[k]!r} and {t!r} have the same cache key {k!r}"
            seen[k] = t
    return None


def compare(case, obs, mouts):
    if case["kind"] == "multi":
        return _inj_problem(obs["keys"]) or _m_compare(case, obs, mouts)
    if _inj_problem([obs["keys"]]):
        return _inj_problem([obs["keys"]])
    m = mouts[0]
    if case["kind"] == "fn":
        if any(isinstance(r, dict) for r in obs["results"]):
            return f"implementation raised/suspended: {obs['results']}; model {m['results']}"
        if obs["results"] != m["results"]:
            return f"results differ: impl {obs['results']} model {m['results']}"
        if _persistent(case) and obs["store"] != sorted(m["store"]):
            return f"store differs: impl {obs['store']} model {sorted(m['store'])}"
        return None
    if m["failed_at"] is not None:
        k = m["failed_at"]
        return f"trace inclusion fails: observed step #{k} {obs['trace'][k]} is not enabled in the model (model state before: {m['digests'][k - 1] if k else 'init'})"
    for k, (a, b) in enumerate(zip(obs["digests"], m["digests"])):
        if a != b:
            return f"state after observed step #{k} {obs['trace'][k]} differs: impl {a} | model {b}"
    batched = case.get("use_batching", True)
    ndir = len(case["directs"])
    for i, r in enumerate(obs["reqs"]):
        if batched:
            mr = m["results"][i]
            mv = mr["done"] if isinstance(mr, dict) else ("pc:" + mr)
        else:
            md = m["directs"][ndir + i]
            mv = md[0] if isinstance(md, list) and md else ("pc:" + str(md))
        iv = r["vec"] if r["status"] == "ok" else "pc:" + r["status"]
        if str(iv).startswith("pc:") and str(mv).startswith("pc:"):
            continue  # both not completed (only arises after a fault; the oracle reports it)
        if iv != mv:
            return f"request {i}: impl returned {iv}, model {mv}"
    for j in range(ndir):
        if obs["directs"][j] != m["directs"][j] and not (isinstance(obs["directs"][j], str) and isinstance(m["directs"][j], str)):
            return f"direct call {j}: impl {obs['directs'][j]}, model {m['directs'][j]}"
    if _persistent(case) and obs["store"] != sorted(m["store"]):
        return f"final store differs: impl {obs['store']} model {sorted(m['store'])}"
    return None


# ----------------------------------------------------------------------------- oracle

def oracle(case, obs):
    if case["kind"] == "multi":
        return _m_oracle(case, obs)
    # NOTE: no excuse for key collisions: the texts of the alphabet are distinct and md5 / hash / hex keys of distinct short
    # texts are distinct, so colliding keys can only come from a key derivation that drops part of the text - that is a
    # violation (the returned vectors show it), not a case outside the property.
    if case["kind"] == "fn":
        for ci, (texts, res) in enumerate(zip(case["calls"], obs["results"])):
            if isinstance(res, dict):
                return f"call {ci} did not return: {res}"
            exp = [venc(vec(t)) for t in texts]
            if res != exp:
                bad = [k for k in range(max(len(res), len(exp))) if k >= len(res) or k >= len(exp) or res[k] != exp[k]]
                return f"call {ci} texts {texts}: position {bad[0]} is not the model's vector of that text (got {res[bad[0]] if bad[0] < len(res) else 'missing'})"
        return None
    for i, (r, o) in enumerate(zip(case["reqs"], obs["reqs"])):
        if o["status"] != "ok":
            return f"request {i} ({r['text']!r}) did not complete: {o['status']}"
        if o["vec"] != venc(vec(r["text"])):
            owner = [x["text"] for x in case["reqs"] if venc(vec(x["text"])) == o["vec"]]
            return f"request {i} ({r['text']!r}) searched with a vector that is not its own" + (f" (it is the vector of {owner[0]!r})" if owner else "")
    for j, (d, o) in enumerate(zip(case["directs"], obs["directs"])):
        if not isinstance(o, list):
            return f"direct call {j} did not complete: {o}"
        if o != [venc(vec(t)) for t in d["texts"]]:
            return f"direct call {j} texts {d['texts']}: returned vectors are not the model's vectors in input order"
    return None


def signature(case, obs, msg):
    if case.get("kind") == "multi":
        return _m_signature(case, obs, msg)
    return None


def nontrivial(case, obs):
    if case["kind"] == "multi":
        return _m_nontrivial(case, obs)
    if case["kind"] == "fn":
        if case["cache"]["store"] == "off":
            return False
        for texts, mc in zip(case["calls"], [None] * len(case["calls"])):
            if len(set(texts)) < len(texts):
                return True
        pre = set(case.get("prestore", [])) if _persistent(case) else set()
        return any(any(t in pre for t in c) and any(t not in pre for t in c) for c in case["calls"])
    n = obs.get("notes", {})
    return n.get("max_batch", 0) >= 2 or n.get("waited_submitted", 0) > 0 or n.get("overlap", 0) > 0


def tags(case, obs):
    if case["kind"] == "multi":
        return _m_tags(case, obs)
    t = ["kind:" + case["kind"], "cache:" + case["cache"]["store"] + ("/" + case["cache"]["keygen"] if case["cache"]["store"] != "off" else "")]
    if case["kind"] == "fn":
        t.append("calls:%d" % len(case["calls"]))
        t.append("model_calls:%d" % len(obs.get("model_calls", [])))
        if any(len(set(c)) < len(c) for c in case["calls"]):
            t.append("dups")
        if any("" in c for c in case["calls"]):
            t.append("empty-string")
        if any(len(c) == 0 for c in case["calls"]):
            t.append("empty-list")
        return t
    t.append("src:" + case.get("src", "rand"))
    t.append("batching:" + ("on" if case.get("use_batching", True) else "off"))
    n = len(case["reqs"])
    t.append("nreq:" + ("1" if n == 1 else "2-4" if n <= 4 else "5-12" if n <= 12 else "13-40"))
    t.append("max:%d" % case["max"])
    nt = obs.get("notes", {})
    t.append("maxbatch:%d" % nt.get("max_batch", 0))
    if nt.get("waited_submitted"):
        t.append("waited-submitted")
    if nt.get("overlap"):
        t.append("batches-overlap")
    if any(l[0] == "take" and l[2] for l in obs.get("trace", [])):
        t.append("take:timer")
    if any(l[0] == "take" and not l[2] for l in obs.get("trace", [])):
        t.append("take:full")
    if len(set(r["text"] for r in case["reqs"])) < n:
        t.append("dups")
    if any(r["text"] == "" for r in case["reqs"]):
        t.append("empty-string")
    if case["directs"]:
        t.append("directs")
    if obs.get("hung"):
        t.append("hung")
    t.append("steps:" + str(len(obs.get("trace", [])) // 25 * 25) + "+")
    return t


# ----------------------------------------------------------------------------- generators

def g_cache(rng, persistent_only=False):
    r = rng.random()
    kg = rng.choice(["md5", "hash", "verif_hex"])
    if r < 0.2 and not persistent_only:
        return {"store": "off", "keygen": "md5"}
    if r < 0.4 and not persistent_only:
        return {"store": "in_memory", "keygen": kg}
    if r < 0.7:
        return {"store": "filesystem", "keygen": kg}
    return {"store": "verif_shared", "keygen": kg}


def g_texts(rng, n, alpha):
    return [rng.choice(alpha) for _ in range(n)]


def g_fn(rng):
    alpha = rng.sample(ALPHABET, rng.randint(2, len(ALPHABET)))
    cache = g_cache(rng)
    calls = [g_texts(rng, rng.choice([0, 1, 2, 2, 3, 3, 4, 5, 7]), alpha) for _ in range(rng.randint(1, 4))]
    pre = [t for t in alpha if rng.random() < 0.4] if cache["store"] in ("filesystem", "verif_shared") else []
    return {"kind": "fn", "cache": cache, "calls": calls, "prestore": pre}


def g_sched(rng, big=False):
    n = rng.choice([1, 2, 2, 3, 3, 4, 5, 6, 8, 12]) if not big else rng.randint(13, 40)
    mx = rng.randint(1, 8)
    alpha = rng.sample(ALPHABET, rng.randint(1, 5))
    mode = rng.choice(["burst", "burst", "spread", "mixed"])
    reqs = []
    for i in range(n):
        if mode == "burst":
            at = rng.choice([0, 0, 0, 1])
        elif mode == "spread":
            at = rng.randint(0, 3 * n)
        else:
            at = rng.choice([0, 0, 1, 2, 3, 5, 8])
        reqs.append({"text": rng.choice(alpha), "at": at})
    cache = g_cache(rng)
    directs = [{"texts": g_texts(rng, rng.randint(0, 4), alpha), "at": rng.choice([0, 0.5, 1, 2, 4])} for j in range(rng.choice([0, 0, 1, 2, 3]))]
    pre = [t for t in alpha if rng.random() < 0.3] if cache["store"] in ("filesystem", "verif_shared") else []
    return {"kind": "sched", "src": "rand", "use_batching": rng.random() < 0.9, "max": mx, "hold": rng.choice(HOLD),
            "lats": [rng.choice(LAT) for _ in range(rng.randint(1, 4))], "cache": cache, "reqs": reqs, "directs": directs, "prestore": pre}


def _partitions(n):
    """restricted growth strings of length n"""
    def rec(prefix, m):
        if len(prefix) == n:
            yield list(prefix)
            return
        for k in range(m + 1):
            yield from rec(prefix + [k], max(m, k + 1))
    return rec([], 0)


def g_exhaustive():
    names = ["", "a", "b", "c"]
    combos = [(0.5, None), (0.5, 0.7), (1.5, 0), (1.5, 2.2), (10.0, 0.3), (10.0, None)]
    caches = [{"store": "off", "keygen": "md5"}, {"store": "verif_shared", "keygen": "md5"}]
    for n in range(1, 5):
        for arr in itertools.combinations_with_replacement(range(4), n):
            for part in _partitions(n):
                for mx in (1, 2, 3):
                    for hold, lat in combos:
                        for cache in caches:
                            yield {"kind": "sched", "src": "exh", "use_batching": True, "max": mx, "hold": hold, "lats": [lat], "cache": cache,
                                   "reqs": [{"text": names[part[i]], "at": arr[i]} for i in range(n)], "directs": [], "prestore": []}


def gen_cases(rng, tier):
    if tier == "quick":
        nfn, nsch, nbig, nmulti = 20000, 1200, 100, 4000
    else:
        nfn, nsch, nbig, nmulti = 200000, 8500, 1500, 40000
    cases = [g_fn(rng) for _ in range(nfn)]
    cases += [g_sched(rng) for _ in range(nsch)]
    cases += [g_sched(rng, big=True) for _ in range(nbig)]
    cases += [g_multi(rng) for _ in range(nmulti)]
    if tier == "thorough":
        cases += list(g_exhaustive())
    return cases


def escalate(rng, focus, tier):
    cases = [g_sched(rng) for _ in range(3000)] + [g_sched(rng, big=True) for _ in range(300)] + [g_fn(rng) for _ in range(20000)] + [g_multi(rng) for _ in range(4000)]
    if focus and focus.get("kind") == "sched":
        for _ in range(1500):
            c = json.loads(json.dumps(focus))
            c["max"] = rng.randint(1, 8)
            c["hold"] = rng.choice(HOLD)
            c["lats"] = [rng.choice(LAT) for _ in range(rng.randint(1, 4))]
            for r in c["reqs"]:
                if rng.random() < 0.3:
                    r["at"] = rng.choice([0, 1, 2, 3, 5])
            cases.append(c)
    return cases


def shrink(case):
    if case["kind"] == "multi":
        yield from _m_shrink(case)
        return
    if case["kind"] == "fn":
        for i in range(len(case["calls"])):
            yield dict(case, calls=case["calls"][:i] + case["calls"][i + 1:])
        for i, c in enumerate(case["calls"]):
            for k in range(len(c)):
                yield dict(case, calls=case["calls"][:i] + [c[:k] + c[k + 1:]] + case["calls"][i + 1:])
        if case.get("prestore"):
            for k in range(len(case["prestore"])):
                yield dict(case, prestore=case["prestore"][:k] + case["prestore"][k + 1:])
        return
    for i in range(len(case["directs"])):
        yield dict(case, directs=case["directs"][:i] + case["directs"][i + 1:])
    if len(case["reqs"]) > 1:
        for i in range(len(case["reqs"])):
            yield dict(case, reqs=case["reqs"][:i] + case["reqs"][i + 1:])
    if case.get("prestore"):
        yield dict(case, prestore=[])
    if len(case["lats"]) > 1:
        for l in case["lats"]:
            yield dict(case, lats=[l])
    if case["cache"]["store"] != "off":
        yield dict(case, cache={"store": "off", "keygen": "md5"})
    if case["max"] > 1:
        yield dict(case, max=case["max"] - 1)
    ats = sorted(set(int(r["at"]) for r in case["reqs"]))
    if ats and ats != list(range(len(ats))):
        rank = {a: k for k, a in enumerate(ats)}
        yield dict(case, reqs=[dict(r, at=rank[int(r["at"])]) for r in case["reqs"]])
