"""C04 — multi-event histories: a waiting `match` whose parameters are EXPRESSIONS over state that can change while
the head waits (case kind `e2e_hist`).

The property quantifies over "every statement and event": the statement advances on an event exactly when the event
is matched by the parameters *written in the statement* — i.e. by the value those expressions have when the event is
processed, not by what they were worth when an earlier event was looked at.  The single-event programs of `e2e`
cannot tell the two apart.  Here a program is generated together with a history of steps

    ev    an event with the statement's name (payload: instance of the pattern that is current NOW, instance of a
          pattern that was current EARLIER, mutated instance, independent value; right or wrong instance tag)
    set   the state the statement reads changes (how depends on the mode) while the head does not move
    noise an event with another name

Modes (= where the state lives that the statement's expressions read):

    ctx       `global $g`, changed from outside by a ContextUpdate event
    static    like ctx, but nothing the statement reads ever changes (ContextUpdate of an unrelated variable / same value)
    setter    `global $g`, assigned by ANOTHER flow (`$g = $s.v` after `match Set0() as $s`)
    flowattr  `$h.val`, a variable of a referenced flow instance (assigned by that flow)
    actattr   `$a.v`, a parameter of a referenced action (changed by its ...ActionUpdated event)
    sibling   `$c.v` where `$c` is assigned by the SIBLING head of an and-group (`match Ev(x=$c.v) and Set0() as $c`)
    action    `match $a<k>.Finished(final_script=<expr over global>)`: instance reference + changing parameter
    flowctor  `match child(x=<expr over global>).Finished()`: flow-constructor statement (internal FlowFinished events of three
              running `child` instances) + changing parameter; oracle and recorded-call replay only (no `runHist` request)

Options: the statement inside `while True` (second reach of the same statement), two instances of the waiting flow
(`start waiter(tag=0)`, `start waiter(tag=1)`; the statement also names the flow-local `$tag`), one or two variables,
holes at nested positions of the pattern, `$g + <literal>`.

The oracle (`expected_hits`) is written from the property statement: it keeps its own record of what the variables
are worth (from the steps it generated, never from the interpreter), instantiates the pattern at every `ev` step and
asks the documentation rules (`doc_matches` of props/C04.py).  The same history is replayed through the Lean model
`Match.runHist` (driver op `C04.hist`), which evaluates the statement in the environment current at each event.
"""
import contextlib
import io

from . import valjson as vj

MODES = ["ctx", "ctx", "static", "setter", "flowattr", "actattr", "sibling", "action", "flowctor"]
STR_VALS = ["a", "b", "ab", "ba", "", "aXb"]
INT_VALS = [0, 1, 2, 3, -1]


def _base():
    from ..props import C04 as base

    return base


# ----------------------------------------------------------------------------- templates

def has_hole(t):
    if isinstance(t, dict):
        if "v" in t or "cat" in t:
            return True
        if "l" in t:
            return any(has_hole(x) for x in t["l"])
        if "d" in t:
            return any(has_hole(x) for _, x in t["d"])
    return False


ERR = "__expression-raises__"


def subst(t, vals):
    """template + current variable values (encoded) -> encoded pattern; ERR = the expression raises (type error)"""
    if isinstance(t, dict):
        if "v" in t:
            return vals[t["v"]]
        if "cat" in t:
            i, lit = t["cat"]
            a = vals[i]
            if isinstance(a, dict) and "s" in a and "s" in lit:
                return {"s": a["s"] + lit["s"]}
            if isinstance(a, dict) and "i" in a and "i" in lit:
                return {"i": a["i"] + lit["i"]}
            return ERR
        if "l" in t:
            xs = [subst(x, vals) for x in t["l"]]
            return ERR if any(x is ERR for x in xs) else {"l": xs}
        if "d" in t:
            kvs = [[k, subst(x, vals)] for k, x in t["d"]]
            return ERR if any(v is ERR for _, v in kvs) else {"d": kvs}
    return t


def canon_tmpl(t):
    """literal parts as Python evaluates them (duplicate set members collapse: `{1.0, True}` has one member)"""
    if isinstance(t, dict):
        if "v" in t:
            return t
        if "cat" in t:
            return t
        if has_hole(t):
            if "l" in t:
                return {"l": [canon_tmpl(x) for x in t["l"]]}
            return {"d": [[k, canon_tmpl(x)] for k, x in t["d"]]}
    return vj.enc(vj.dec(t))


def render_tmpl(t, var):
    """Colang source of a template; `var(i)` = source text of variable i"""
    base = _base()
    if isinstance(t, dict):
        if "v" in t:
            return var(t["v"])
        if "cat" in t:
            return f"{var(t['cat'][0])} + {base.render(t['cat'][1])}"
        if "l" in t:
            return "[" + ", ".join(render_tmpl(x, var) for x in t["l"]) + "]"
        if "d" in t:
            import json

            return "{" + ", ".join(json.dumps(k) + ": " + render_tmpl(x, var) for k, x in t["d"]) + "}"
    return base.render(t)


def g_value(rng, cls):
    base = _base()
    if cls == "str":
        return {"s": rng.choice(STR_VALS)}
    if cls == "int":
        return {"i": rng.choice(INT_VALS)}
    for _ in range(20):
        p = base.g_pattern(rng, rng.choice([0, 0, 1, 2]), False)
        if base.renderable(p):
            return p
    return {"s": "a"}


def g_tmpl(rng, nvars, classes, depth):
    """a template with at least one hole"""
    base = _base()

    def hole():
        i = rng.randrange(nvars)
        if classes[i] in ("str", "int") and rng.random() < 0.5:
            lit = {"s": rng.choice(["b", "c", "X"])} if classes[i] == "str" else {"i": rng.choice([0, 1, 2])}
            return {"cat": [i, lit]}
        return {"v": i}

    def lit():
        for _ in range(20):
            p = base.g_pattern(rng, rng.choice([0, 0, 1]), False)
            if base.renderable(p):
                return p
        return {"i": 1}

    def go(d, must):
        r = rng.random()
        if d <= 0 or r < 0.45:
            return hole() if must or rng.random() < 0.5 else lit()
        n = rng.choice([1, 2, 2, 3])
        which = rng.randrange(n) if must else -1
        if r < 0.75:
            return {"l": [go(d - 1, i == which) for i in range(n)]}
        keys = rng.sample(base.KEYS, n)
        return {"d": [[k, go(d - 1, i == which)] for i, k in enumerate(keys)]}

    return go(depth, True)


def g_case(rng):
    base = _base()
    mode = rng.choice(MODES)
    nvars = 1 if mode in ("sibling",) else rng.choice([1, 1, 2])
    classes = [rng.choice(["any", "any", "str", "int"]) for _ in range(nvars)]
    init = [g_value(rng, c) for c in classes]
    if mode == "sibling":
        # `$c0.v` on a dict goes through AttributeDict.__getattr__, which turns a list starting with a dict into a list of
        # AttributeDicts and raises on a non-dict item: an expression-evaluation quirk, not a matching question
        while isinstance(init[0], dict) and "l" in init[0] and init[0]["l"] and isinstance(init[0]["l"][0], dict) and "d" in init[0]["l"][0]:
            init[0] = g_value(rng, classes[0])
    tmpl = g_tmpl(rng, nvars, classes, rng.choice([0, 0, 1, 2]))
    if mode == "flowctor":
        nvars, classes = 1, [rng.choice(["int", "int", "int", "any"])]
        init = [{"i": rng.choice([0, 1, 2, 3])} if classes[0] == "int" else g_value(rng, "any")]
        tmpl = {"cat": [0, {"i": 1}]} if classes[0] == "int" and rng.random() < 0.3 else {"v": 0}
    loop = mode not in ("sibling", "action", "flowctor") and rng.random() < 0.35
    ninst = 2 if mode in ("ctx", "static", "setter") and rng.random() < 0.4 else 1
    case = {"kind": "e2e_hist", "mode": mode, "nvars": nvars, "classes": classes, "init": init, "tmpl": tmpl, "loop": loop, "ninst": ninst, "steps": []}
    if ninst == 2 and rng.random() < 0.4:
        # both instances wait for the SAME event (the statement does not name $tag); each lives in its own interaction
        # loop, so that both can advance on one event without an action conflict
        case["shared"] = True
    if mode == "action":
        case["n"] = rng.choice([2, 2, 3])
        case["k"] = rng.randrange(case["n"])
    if mode in ("ctx", "static", "setter") and not loop and not case.get("shared") and rng.random() < 0.25:
        # `activate waiter(..)`: the flow restarts (a NEW instance with a new head) whenever it finishes
        case["activate"] = True
    if mode not in ("sibling",):
        # the same statement as a member of an or-group / as the condition of a `when` block (forked heads)
        case["wrap"] = rng.choice(["plain", "plain", "plain", "or", "when"])
    vals = list(init)
    seen_pats = []
    nsteps = rng.choice([2, 3, 4, 5, 6, 7])
    sets_done = 0
    for _ in range(nsteps):
        r = rng.random()
        cur = subst(tmpl, vals)
        if r < 0.3 and not (mode == "sibling" and sets_done >= 1):
            i = rng.randrange(nvars)
            if mode == "flowctor" and classes[0] == "int":
                v = {"i": rng.choice([0, 1, 2, 3])}
                step = {"op": "set", "var": 0, "val": v}
                if rng.random() < 0.3:
                    step["direct"] = True
                vals[0] = v
            elif mode == "static":
                step = {"op": "set", "var": i, "val": vals[i]} if rng.random() < 0.5 else {"op": "set", "var": 9, "val": g_value(rng, "any")}
            else:
                v = g_value(rng, classes[i])
                step = {"op": "set", "var": i, "val": v}
                if mode in ("ctx", "action", "flowctor") and rng.random() < 0.3:
                    step["direct"] = True  # the host writes state.context itself between two events (no ContextUpdate event)
                if cur is not ERR and cur not in seen_pats:
                    seen_pats.append(cur)
                vals[i] = v
            sets_done += 1
            case["steps"].append(step)
            continue
        if r < 0.38:
            case["steps"].append({"op": "noise"})
            continue
        if mode == "flowctor":
            case["steps"].append({"op": "ev", "target": rng.choice([0, 1, 2, 2, 1, 0, 5])})
            continue
        # an event with the statement's name
        q = rng.random()
        stale = [p for p in seen_pats if p != cur]
        if cur is ERR:
            x = base.g_any(rng, 2)
        elif q < 0.35:
            x = base.g_instance(rng, cur)
        elif q < 0.6 and stale:
            x = base.g_instance(rng, rng.choice(stale))
        elif q < 0.85:
            x = base.mutate(rng, base.g_instance(rng, cur))
        else:
            x = base.g_any(rng, 2)
        step = {"op": "ev", "x": x}
        if mode == "action":
            step["target"] = case["k"] if rng.random() < 0.6 else rng.choice(list(range(case["n"])) + ["unknown", "none"])
        else:
            tr = rng.random()
            step["t"] = rng.randrange(ninst) if tr < 0.8 else (ninst if tr < 0.9 else None)
        case["steps"].append(step)
    return case


# ----------------------------------------------------------------------------- program

def _stmt_lines(case, ind, stmt, tag):
    """the waiting statement followed by `send Hit(tag=..)`: plain, in an or-group, or as a `when` condition"""
    wrap = case.get("wrap", "plain")
    if wrap == "or":
        return [f"{ind}match {stmt} or NeverEv()", f"{ind}send Hit(tag={tag})"]
    if wrap == "when":
        return [f"{ind}when {stmt}", f"{ind}  send Hit(tag={tag})", f"{ind}or when NeverEv()", f"{ind}  send Other()"]
    return [f"{ind}match {stmt}", f"{ind}send Hit(tag={tag})"]


def source(case):
    base = _base()
    mode, nvars, loop = case["mode"], case["nvars"], case["loop"]
    ind = "    " if loop else "  "
    L = []
    if mode in ("ctx", "static", "setter"):
        pat = render_tmpl(case["tmpl"], lambda i: f"$g{i}")
        if mode == "setter":
            for i in range(nvars):
                L += [f"flow setter{i}", f"  global $g{i}", "  while True", f"    match Set{i}() as $s", f"    $g{i} = $s.v"]
        if case.get("shared"):
            L.append('@loop("NEW")')
        L += ["flow waiter $tag"] + [f"  global $g{i}" for i in range(nvars)]
        if loop:
            L.append("  while True")
        L += _stmt_lines(case, ind, f"Ev(x={pat})" if case.get("shared") else f"Ev(x={pat}, t=$tag)", "$tag")
        L.append("flow main")
        if mode == "setter":
            for i in range(nvars):
                L += [f"  global $g{i}", f"  $g{i} = {base.render(case['init'][i])}", f"  start setter{i}"]
        for t in range(case["ninst"]):
            L.append(f"  {'activate' if case.get('activate') else 'start'} waiter(tag={t})")
        L.append("  match Never()")
    elif mode == "action":
        pat = render_tmpl(case["tmpl"], lambda i: f"$g{i}")
        L += ["flow main"] + [f"  global $g{i}" for i in range(nvars)]
        for j in range(case["n"]):
            L.append(f'  start UtteranceBotAction(script="one") as $a{j}')
        L += _stmt_lines(case, "  ", f"$a{case['k']}.Finished(final_script={pat})", "0") + ["  match Never()"]
    elif mode == "flowctor":
        pat = render_tmpl(case["tmpl"], lambda i: f"$g{i}")
        L += ["flow child $x", "  match Done(id=$x)", "flow main", "  global $g0"]
        L += [f"  start child(x={j}) as $r{j}" for j in range(3)]
        L += _stmt_lines(case, "  ", f"child(x={pat}).Finished()", "0") + ["  match Never()"]
    elif mode == "flowattr":
        pat = render_tmpl(case["tmpl"], lambda i: f"$h{i}.val")
        for i in range(nvars):
            L += [f"flow holder{i}", f"  $val = {base.render(case['init'][i])}", "  while True", f"    match Set{i}() as $s", "    $val = $s.v"]
        L.append("flow main")
        for i in range(nvars):
            L.append(f"  start holder{i} as $h{i}")
        if loop:
            L.append("  while True")
        L += _stmt_lines(case, ind, f"Ev(x={pat}, t=0)", "0")
        if not loop:
            L.append("  match Never()")
    elif mode == "actattr":
        pat = render_tmpl(case["tmpl"], lambda i: f"$a{i}.v")
        L.append("flow main")
        for i in range(nvars):
            L.append(f'  start TimerBotAction(timer_name="t{i}", v={base.render(case["init"][i])}) as $a{i}')
        if loop:
            L.append("  while True")
        L += _stmt_lines(case, ind, f"Ev(x={pat}, t=0)", "0")
        if not loop:
            L.append("  match Never()")
    elif mode == "sibling":
        pat = render_tmpl(case["tmpl"], lambda i: "$c0.v")
        L += ["flow main", f"  $c0 = {{\"v\": {base.render(case['init'][0])}}}", f"  match Ev(x={pat}, t=0) and Set0() as $c0", "  send Hit(tag=0)", "  match Never()"]
    else:
        raise ValueError(mode)
    return "\n".join(L) + "\n"


def run(case, sm, recorder_cls):
    from nemoguardrails.colang import parse_colang_file
    from nemoguardrails.colang.v2_x.runtime.flows import InternalEvent, State
    from nemoguardrails.colang.v2_x.runtime.runtime import create_flow_configs_from_flow_list

    src = source(case)
    obs = {"src": src, "hits": []}
    try:
        with contextlib.redirect_stdout(io.StringIO()):
            cfg = create_flow_configs_from_flow_list(parse_colang_file(filename="", content=src, include_source_mapping=False, version="2.x")["flows"])
    except Exception as e:  # noqa  -- not expressible in Colang source (grammar limit): not a matching question
        obs["skip"] = "parse:" + type(e).__name__
        return obs
    mode = case["mode"]
    init = [vj.dec(v) for v in case["init"]]
    rec = recorder_cls(sm)
    rx_vals = []
    obs["init_seen"] = [vj.enc(v) for v in init]
    obs["seen"] = []  # per step: the value as the interpreter receives it (sets collapsed, in their iteration order)
    try:
        with rec, contextlib.redirect_stdout(io.StringIO()):
            st = State(flow_states=[], flow_configs=cfg)
            sm.initialize_state(st)
            if mode in ("ctx", "static", "action", "flowctor"):
                sm.run_to_completion(st, {"type": "ContextUpdate", "data": {f"g{i}": v for i, v in enumerate(init)}})
            sm.run_to_completion(st, InternalEvent(name="StartFlow", arguments={"flow_id": "main"}))
            started = [e for e in st.outgoing_events if str(e.get("type", "")).startswith("Start") and "action_uid" in e]
            uids = [e["action_uid"] for e in started]
            obs["n_started"] = len(uids)
            try:  # the actions as the runtime knows them (uid, name, start arguments): read from the real state
                obs["actions"] = [[u, st.actions[u].name, [[k, vj.enc(v)] for k, v in st.actions[u].start_event_arguments.items()]] for u in uids]
            except Exception:  # noqa
                obs["actions"] = None
            obs["hit_at_start"] = sorted(e.get("tag") for e in st.outgoing_events if e.get("type") == "Hit")
            for step in case["steps"]:
                if step["op"] == "noise":
                    d = {"type": "Other", "x": 1}
                    obs["seen"].append(None)
                elif step["op"] == "set":
                    v = vj.dec(step["val"])
                    obs["seen"].append(vj.enc(v))
                    i = step["var"]
                    if step.get("direct"):
                        st.context[f"g{i}"] = v
                        obs["hits"].append([])
                        continue
                    if mode in ("ctx", "static", "action", "flowctor"):
                        d = {"type": "ContextUpdate", "data": {f"g{i}": v}}
                    elif mode == "actattr":
                        d = {"type": "TimerBotActionUpdated", "action_uid": uids[i], "v": v}
                    else:
                        d = {"type": f"Set{i}", "v": v}
                elif mode == "flowctor":
                    d = {"type": "Done", "id": step["target"]}
                    obs["seen"].append(None)
                else:
                    x = vj.dec(step["x"])
                    rx_vals.append(x)
                    obs["seen"].append(vj.enc(x))
                    if mode == "action":
                        d = {"type": "UtteranceBotActionFinished", "final_script": x}
                        if step["target"] == "unknown":
                            d["action_uid"] = "no-such-action"
                        elif step["target"] != "none":
                            d["action_uid"] = uids[step["target"]]
                    else:
                        d = {"type": "Ev", "x": x}
                        if step.get("t") is not None:
                            d["t"] = step["t"]
                sm.run_to_completion(st, d)
                obs["hits"].append(sorted(e.get("tag") for e in st.outgoing_events if e.get("type") == "Hit"))
    except Exception as e:  # noqa
        obs["exc"] = type(e).__name__ + ": " + str(e)[:120]
    obs["calls"] = rec.calls[:300]
    obs["calls_skipped"] = rec.skipped
    obs["rx"] = vj.rx_table(rx_vals)
    return obs


# ----------------------------------------------------------------------------- oracle (property statement)

def expected_hits(case):
    """-> (list of expected hit lists per step, number of steps the statement decides).  Written from the property
    statement: at every event the statement's parameters are worth what their expressions are worth NOW."""
    base = _base()
    mode = case["mode"]
    vals = list(case["init"])
    tags = list(range(case["ninst"]))
    done = {t: False for t in tags}
    sib_set = sib_ev = False
    fin = set()
    out = []
    for n, step in enumerate(case["steps"]):
        hits = []
        if step["op"] == "set":
            if mode == "sibling":
                if not sib_set:
                    sib_set = True
                    vals[0] = step["val"]
                    if sib_ev:
                        hits = [0]
            elif step["var"] < len(vals) and mode != "static":
                vals[step["var"]] = step["val"]
            # static: the step re-sends the value the variable already has, or writes an unrelated key
        elif step["op"] == "ev" and mode == "flowctor":
            # Done(id=j) finishes the running child instance j (once): its FlowFinished event carries the flow parameter x=j
            j = step["target"]
            cur = subst(case["tmpl"], vals)
            if cur is ERR:
                return out, n
            if j in (0, 1, 2) and j not in fin:
                fin.add(j)
                if not done[0]:
                    full, ref = {"x": j}, {"x": vj.dec(cur)}
                    if base.cmp_error_possible(full, ref):
                        return out, n
                    try:
                        m = base.doc_matches(full, ref)
                    except base._Err:
                        return out, n
                    if m:
                        done[0] = True
                        hits.append(0)
        elif step["op"] == "ev":
            cur = subst(case["tmpl"], vals)
            if cur is ERR:
                return out, n  # the expression itself raises: the flow fails, outside the matching rules
            r = vj.dec(cur)
            a = vj.dec(step["x"])
            for t in tags:
                if done[t] and not (case["loop"] or case.get("activate")):
                    continue
                if mode == "sibling" and sib_ev:
                    continue
                if mode == "action":
                    if step["target"] != case["k"]:
                        continue  # an event of another, an unknown or no instance never advances the statement
                    full, ref = {"final_script": a}, {"final_script": r}
                else:
                    full = {"x": a}
                    if step.get("t") is not None:
                        full["t"] = step["t"]
                    ref = {"x": r} if case.get("shared") else {"x": r, "t": t}
                if base.cmp_error_possible(full, ref):
                    return out, n  # comparison between different types: documented outcome is an error (flow fails)
                try:
                    m = base.doc_matches(full, ref)
                except base._Err:
                    return out, n
                if m:
                    if mode == "sibling":
                        sib_ev = True
                        if sib_set:
                            hits.append(t)
                    else:
                        done[t] = True
                        hits.append(t)
        out.append(sorted(hits))
    return out, len(case["steps"])


def oracle(case, obs):
    if "skip" in obs:
        return None
    exp, n = expected_hits(case)
    if "exc" in obs:
        return f"interpreter raised {obs['exc']} on a history program" if n == len(case["steps"]) else None
    if obs.get("hit_at_start"):
        return f"statement advanced before any event arrived (Hit tags {obs['hit_at_start']})"
    for i in range(min(n, len(obs["hits"]))):
        if obs["hits"][i] != exp[i]:
            step = case["steps"][i]
            vals = _vals_at(case, i)
            what = "advanced" if obs["hits"][i] else "did not advance"
            return (f"step #{i} {step}: the statement's parameters are worth {subst(case['tmpl'], vals)} now "
                    f"(variables {vals}); waiting instances expected to advance {exp[i]}, implementation {what} {obs['hits'][i]}")
    return None


def _vals_at(case, upto):
    vals = list(case["init"])
    first = True
    for step in case["steps"][:upto]:
        if step["op"] == "set" and step["var"] < len(vals) and case["mode"] != "static":
            if case["mode"] == "sibling" and not first:
                continue
            vals[step["var"]] = step["val"]
            first = False
    return vals


# ----------------------------------------------------------------------------- model request / comparison

def model_request(case, obs):
    """the whole history for `Match.runHist` (only the plain-event modes: the statement is `match Ev(x=<tmpl>, t=<tag>)`)"""
    if "skip" in obs or case["mode"] == "flowctor":
        return None
    steps = []
    if len(obs.get("seen", [])) != len(case["steps"]):
        return None  # the run broke off (exception): nothing to compare step by step
    if case["mode"] == "action":
        acts = obs.get("actions")
        if not acts or len(acts) != case["n"]:
            return None
        for s, seen in zip(case["steps"], obs["seen"]):
            if s["op"] == "set":
                steps.append({"op": "set", "var": s["var"], "val": seen} if s["var"] < case["nvars"] else {"op": "noise"})
            elif s["op"] == "noise":
                steps.append({"op": "noise"})
            else:
                args = [["final_script", seen]]
                d = {"op": "aev", "name": "UtteranceBotActionFinished"}
                if s["target"] == "unknown":
                    d["action_uid"] = "no-such-action"
                elif s["target"] != "none":
                    d["action_uid"] = acts[s["target"]][0]
                if "action_uid" in d:
                    args.append(["action_uid", {"s": d["action_uid"]}])  # from_umim_event keeps it among the arguments
                d["args"] = args
                steps.append(d)
        return {"m": "C04.hist", "form": "action", "tmpl": [["final_script", canon_tmpl(case["tmpl"])]], "init": obs["init_seen"], "tags": [0], "loop": False,
                "actions": acts, "k": case["k"], "steps": steps, "rx": obs["rx"]}
    sib_sets = 0
    for s, seen in zip(case["steps"], obs["seen"]):
        if s["op"] == "set":
            sib_sets += 1
            if case["mode"] == "static" or s["var"] >= case["nvars"] or (case["mode"] == "sibling" and sib_sets > 1):
                # sibling: only the first Set0 is matched by the sibling head (and assigns $c0); later ones are unhandled
                steps.append({"op": "noise"})
            else:
                steps.append({"op": "set", "var": s["var"], "val": seen})
        elif s["op"] == "noise":
            steps.append({"op": "noise"})
        else:
            args = [["x", seen]] + ([["t", {"i": s["t"]}]] if s.get("t") is not None else [])
            steps.append({"op": "ev", "args": args})
    return {"m": "C04.hist", "tmpl": [["x", canon_tmpl(case["tmpl"])]], "init": obs["init_seen"], "tags": list(range(case["ninst"])), "loop": bool(case["loop"] or case.get("activate")), "tagparam": not case.get("shared"),
            "steps": steps, "rx": obs["rx"]}


def compare_hist(case, obs, m):
    if "exc" in obs:
        return None
    exp, n = expected_hits(case)  # only used to know where a type error ends the comparable prefix
    mh = m.get("hits")
    if mh is None:
        return f"model could not replay the history: {m}"
    want_kind = "action" if case["mode"] == "action" else "plain"
    if m.get("ref_kind") not in (want_kind, None):
        return f"model builds a reference event of kind {m.get('ref_kind')} for the statement, expected {want_kind}"
    if case["mode"] == "sibling":
        # the model follows the `Ev` head of the and-group (for it the sibling's match is a change of `$c0`); the group is
        # complete, and Hit is sent, at the step where the later of the two heads has matched
        first_set = next((i for i, s in enumerate(case["steps"]) if s["op"] == "set"), None)
        ev_hit = next((i for i, x in enumerate(mh) if x == [0]), None)
        if any(x == "err" for x in mh[: (ev_hit if ev_hit is not None else len(mh)) + 1]):
            return None
        done_at = max(first_set, ev_hit) if first_set is not None and ev_hit is not None else None
        mh = [[0] if i == done_at else [] for i in range(len(mh))]
    for i in range(min(n, len(obs["hits"]), len(mh))):
        if mh[i] == "err":
            return None
        if sorted(mh[i]) != obs["hits"][i]:
            return f"history step #{i} {case['steps'][i]}: model (statement evaluated in the current environment) advances {mh[i]}, implementation {obs['hits'][i]}"
    return None


def shrink(case):
    steps = case["steps"]
    for i in range(len(steps)):
        if len(steps) > 1:
            yield dict(case, steps=steps[:i] + steps[i + 1:])
    if case.get("loop"):
        yield dict(case, loop=False)
    if case.get("activate"):
        yield {k: v for k, v in case.items() if k != "activate"}
    if case.get("wrap", "plain") != "plain":
        yield dict(case, wrap="plain")
    if case.get("ninst", 1) > 1 and not case.get("shared"):
        yield dict(case, ninst=1)
    t = case["tmpl"]
    if isinstance(t, dict) and ("l" in t or "d" in t):
        items = t["l"] if "l" in t else [x for _, x in t["d"]]
        for it in items:
            if has_hole(it):
                yield dict(case, tmpl=it)


def tags(case, obs):
    t = ["hist:" + case["mode"], "hist-steps:%d" % len(case["steps"]), "hist-wrap:" + case.get("wrap", "plain")]
    if "skip" in obs:
        return t + ["skip:" + obs["skip"]]
    exp, n = expected_hits(case)
    nset = sum(1 for s in case["steps"] if s["op"] == "set")
    t.append("hist-sets:%d" % min(nset, 3))
    t.append("hist-hits:%d" % min(3, sum(len(h) for h in obs.get("hits", []))))
    if n < len(case["steps"]):
        t.append("hist-abstain-after-type-error")
    if case["loop"]:
        t.append("hist-loop")
    if case.get("activate"):
        t.append("hist-activated-flow")
    if case["ninst"] > 1:
        t.append("hist-2inst-same-event" if case.get("shared") else "hist-2inst")
    # a stale candidate: an ev step that matches an EARLIER value of the pattern but not the current one (or vice versa), after
    # an earlier ev step that did not advance
    if _has_stale_probe(case):
        t.append("hist-stale-probe")
    return t


def _has_stale_probe(case):
    base = _base()
    vals = list(case["init"])
    old = []
    seen_ev = False
    for s in case["steps"]:
        if s["op"] == "set" and s["var"] < len(vals) and case["mode"] != "static":
            cur = subst(case["tmpl"], vals)
            if cur is not ERR:
                old.append(cur)
            vals[s["var"]] = s["val"]
        elif s["op"] == "ev":
            cur = subst(case["tmpl"], vals)
            if seen_ev and cur is not ERR:
                try:
                    a = vj.dec(s["x"])
                    now = base.doc_matches(a, vj.dec(cur))
                    for o in old:
                        if base.doc_matches(a, vj.dec(o)) != now:
                            return True
                except Exception:  # noqa
                    pass
            seen_ev = True
    return False
