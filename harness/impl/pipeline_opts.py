"""Adapter for C16: builds a Colang 1.0 `LLMRails` with scripted rails and drives `generate(options=...)`.

A *config* is
    {"input": [rail, ...], "output": [rail, ...], "retrieval": [rail, ...],
     "rail_def": "subflow" | "flow",          # how the rail flows are declared
     "dialog": "general" | "predef" | "llm", # what the dialog rails do when they are selected
     "exceptions": bool}                      # enable_rails_exceptions (a blocked message yields an exception event)
and a *rail* is a rule table  [[needle, verdict], ...]  (first rule whose needle occurs in the text the rail is
shown decides; no rule => accept) with  verdict = ["accept"] | ["reject"] | ["fault"] | ["append", t] | ["replace", t].

The rails are flows of the shape the shipped library uses (`$r = execute …; if blocked: bot refuse to respond; stop`),
the verdict is produced by ONE registered Python action that also records the call (category, index, text seen).
Nothing of the repo is patched; the LLM is `tests/utils.FakeLLM` (counts calls), the embedding engine is a
deterministic md5 engine registered through the public `register_embedding_provider`.
"""
import asyncio
import contextlib
import hashlib
import io
import os
import sys

REFUSAL = "I'm sorry, I can't respond to that."
INTERNAL_ERROR = "I'm sorry, an internal error has occurred."
CATS = ["input", "dialog", "retrieval", "output"]

_READY = False
_CACHE = {}


def _setup():
    global _READY
    if _READY:
        return
    repo = os.environ.get("VERIF_REPO", "/repo")
    tests = os.path.join(repo, "tests")
    if tests not in sys.path:
        sys.path.insert(0, tests)
    # generate_bot_message picks bot_messages[intent][0] when "pytest" is loaded and random.choice otherwise;
    # all our intents have exactly one message, so both paths agree.
    from nemoguardrails.embeddings.providers import register_embedding_provider
    from nemoguardrails.embeddings.providers.base import EmbeddingModel

    class FakeEmb(EmbeddingModel):
        engine_name = "fakeemb"

        def __init__(self, embedding_model=None, **kw):
            self.model = embedding_model
            self.embedding_size = 8

        def encode(self, documents):
            out = []
            for d in documents:
                h = hashlib.md5(d.encode("utf-8")).digest()
                out.append([b / 255.0 for b in h[:8]])
            return out

        async def encode_async(self, documents):
            return self.encode(documents)

    try:
        register_embedding_provider(FakeEmb, "fakeemb")
    except Exception:  # already registered in this process
        pass
    _READY = True


def rail_name(cat, i):
    return f"{cat} rail {i}"


def colang_source(cfg):
    kw = "define subflow" if cfg.get("rail_def", "subflow") == "subflow" else "define flow"
    var = {"input": "$user_message", "output": "$bot_message", "retrieval": "$relevant_chunks"}
    exc = {"input": "InputRailException", "output": "OutputRailException", "retrieval": "RetrievalRailException"}
    out = []
    for cat in ("input", "output", "retrieval"):
        for i, _ in enumerate(cfg.get(cat, [])):
            out.append(f"{kw} {rail_name(cat, i)}")
            out.append(f'  $verdict = execute scripted_rail(cat="{cat}", idx={i}, text={var[cat]})')
            out.append('  if $verdict.kind == "reject"')
            if cfg.get("exceptions"):
                out.append(f'    create event {exc[cat]}(message="blocked by {rail_name(cat, i)}")')
            else:
                out.append("    bot refuse to respond")
            out.append("    stop")
            out.append('  if $verdict.kind == "rewrite"')
            out.append(f"    {var[cat]} = $verdict.text")
            out.append("")
    if cfg.get("dialog") in ("predef", "llm"):
        out += [
            "define user express greeting",
            '  "hi"',
            '  "hello"',
            "",
            "define flow greeting",
            "  user express greeting",
            "  bot express greeting",
            "",
        ]
        if cfg["dialog"] == "predef":
            out += ["define bot express greeting", '  "' + cfg.get("predef_text", "Hello there") + '"', ""]
    return "\n".join(out) + "\n"


def yaml_source(cfg):
    y = [
        "models:",
        "  - type: main",
        "    engine: openai",
        "    model: gpt-3.5-turbo-instruct",
        "  - type: embeddings",
        "    engine: fakeemb",
        "    model: fake",
    ]
    if cfg.get("exceptions"):
        y.append("enable_rails_exceptions: True")
    cats = [c for c in ("input", "output", "retrieval") if cfg.get(c)]
    if cats:
        y.append("rails:")
        for cat in cats:
            y += [f"  {cat}:", "    flows:"] + [f"      - {rail_name(cat, i)}" for i in range(len(cfg[cat]))]
    return "\n".join(y) + "\n"


def apply_rail(rules, text):
    """The scripted verdict function: (kind, new_text)."""
    for needle, verdict in rules:
        if needle in (text or ""):
            k = verdict[0]
            if k == "append":
                return "rewrite", (text or "") + verdict[1]
            if k == "replace":
                return "rewrite", verdict[1]
            return k, None
    return "accept", None


class Script:
    """Mutable per-call state shared with the registered action."""

    def __init__(self):
        self.cfg = None
        self.calls = []


def _cfg_key(cfg):
    return (len(cfg.get("input", [])), len(cfg.get("output", [])), len(cfg.get("retrieval", [])), cfg.get("rail_def", "subflow"),
            cfg.get("dialog", "general"), bool(cfg.get("exceptions")), cfg.get("predef_text", "Hello there"))


def get_app(cfg):
    """One LLMRails per structural configuration (rules are swapped per call)."""
    _setup()
    key = _cfg_key(cfg)
    if key in _CACHE:
        return _CACHE[key]
    from nemoguardrails import LLMRails, RailsConfig
    from utils import FakeLLM

    script = Script()
    with contextlib.redirect_stdout(io.StringIO()):
        config = RailsConfig.from_content(colang_content=colang_source(cfg), yaml_content=yaml_source(cfg))
        llm = FakeLLM(responses=[])
        app = LLMRails(config, llm=llm)

    async def scripted_rail(cat: str, idx: int, text=None):
        script.calls.append([cat, idx, text])
        kind, new = apply_rail(script.cfg[cat][idx], text)
        if kind == "fault":
            raise RuntimeError("scripted rail fault")
        return {"kind": kind, "text": new}

    app.register_action(scripted_rail, "scripted_rail")
    _CACHE[key] = (app, llm, script)
    return _CACHE[key]


def llm_script(cfg, llm_text):
    if cfg.get("dialog", "general") == "general":
        return [llm_text] * 4
    # flows mode: 1st call = user intent, 2nd = bot message (only when not predefined); extras are never used
    return ["  express greeting", '  "' + llm_text + '"', '  "' + llm_text + '"', '  "' + llm_text + '"']


_SPY = {"installed": False, "plog": None, "stats_llm": None}


def _install_spy():
    """Record the processing log handed to `compute_generation_log` (module attribute of llmrails; no source change)."""
    if _SPY["installed"]:
        return
    from nemoguardrails.rails.llm import llmrails as lr

    orig = lr.compute_generation_log

    def spy(plog):
        _SPY["plog"] = plog
        res = orig(plog)
        _SPY["stats_llm"] = res.stats.llm_calls_count
        return res

    lr.compute_generation_log = spy
    _SPY["installed"] = True


def _one_call(app, llm, script, cfg, messages, options, llm_text, state=None, use_state=False):
    """One `generate_async` call; returns (observation, GenerationResponse | message | None)."""
    script.cfg = cfg
    script.calls = []
    llm.responses = llm_script(cfg, llm_text)
    llm.i = 0
    _SPY["plog"] = None
    _SPY["stats_llm"] = None
    obs = {}
    res = None
    try:
        from nemoguardrails.context import explain_info_var

        explain_info_var.set(None)
        loop = asyncio.new_event_loop()
        try:
            with contextlib.redirect_stdout(io.StringIO()), contextlib.redirect_stderr(io.StringIO()):
                if use_state:
                    res = loop.run_until_complete(app.generate_async(messages=messages, options=options, state=state))
                else:
                    res = loop.run_until_complete(app.generate_async(messages=messages, options=options))
        finally:
            loop.close()
        if options is None and not use_state:
            msg = res
        else:
            msg = res.response[0] if isinstance(res.response, list) else {"role": "assistant", "content": res.response}
        obs["role"] = msg.get("role")
        if msg.get("role") == "exception":
            obs["response"] = None
            obs["exception"] = msg["content"].get("type")
        else:
            obs["response"] = msg.get("content")
        if options is not None:
            obs["rails"] = [
                {"type": r.type, "name": r.name, "stop": bool(r.stop), "finished": r.finished_at is not None, "decisions": list(r.decisions),
                 "actions": [{"name": a.action_name, "finished": a.finished_at is not None, "llm": [c.task for c in a.llm_calls]} for a in r.executed_actions]}
                for r in (res.log.activated_rails if res.log else [])
            ]
            obs["alog"] = abstract_plog(_SPY["plog"]) if _SPY["plog"] is not None else None
            obs["log_llm_calls"] = _SPY["stats_llm"]
    except Exception as e:  # noqa
        obs["exc"] = f"{type(e).__name__}: {e}"[:300]
        res = None
    obs["calls"] = [list(c) for c in script.calls]
    obs["llm_calls"] = llm.i
    return obs, res


def _options(rails_opt):
    options = {"log": {"activated_rails": True}}
    if rails_opt is not None:
        options["rails"] = list(rails_opt)
    return options


def run_turn_full(cfg, rails_opt, user_text, bot_text, llm_text, no_options=False):
    """Drive one `generate` call on a fresh conversation.  rails_opt: None (no `rails` option) or list of category
    names; no_options: call `generate` without any options (then no log comes back)."""
    app, llm, script = get_app(cfg)
    _install_spy()
    app.events_history_cache.clear()
    messages = [{"role": "user", "content": user_text}]
    if bot_text is not None:
        messages.append({"role": "assistant", "content": bot_text})
    obs, _ = _one_call(app, llm, script, cfg, messages, None if no_options else _options(rails_opt), llm_text)
    return obs


def run_session(cfg, calls, via):
    """Several `generate` calls on ONE conversation.  calls: [{"opts", "user", "bot", "llm_text"}, …];
    via = "state": the `state` returned by a call is passed to the next one (messages = the new ones only);
    via = "history": the whole message history is passed again (the events come from `events_history_cache` when the
    prefix hits, else they are rebuilt from the messages).  Returns one observation per call (the sequence stops after a
    call that raised or answered with an exception message in the history mode)."""
    app, llm, script = get_app(cfg)
    _install_spy()
    app.events_history_cache.clear()
    out = []
    state = {}
    hist = []
    for c in calls:
        new = [{"role": "user", "content": c["user"]}]
        if c.get("bot") is not None:
            new.append({"role": "assistant", "content": c["bot"]})
        if via == "state":
            obs, res = _one_call(app, llm, script, cfg, new, _options(c["opts"]), c["llm_text"], state=state, use_state=True)
            out.append(obs)
            if res is None or getattr(res, "state", None) is None:
                break
            state = res.state
        else:
            obs, res = _one_call(app, llm, script, cfg, [dict(m) for m in hist] + new, _options(c["opts"]), c["llm_text"])
            out.append(obs)
            if res is None or obs.get("role") != "assistant":
                break
            hist = hist + [new[0], {"role": "assistant", "content": obs["response"]}]
    return out


def run_turn(cfg, rails_opt, user_text, bot_text, llm_text, want_plog=False):
    """probe helper"""
    obs = run_turn_full(cfg, rails_opt, user_text, bot_text, llm_text)
    if want_plog:
        obs["plog"] = _SPY["plog"]
    return obs


# ----------------------------------------------------------------------------- processing-log abstraction

def abstract_plog(plog):
    """Processing log -> the event alphabet of `GenLog` (timestamps and payloads dropped).

    ["step", flow_id, [["act", name] | ["intent", intent] | ["other"], ...]] | ["in", flow_id] | ["out", flow_id]
    | ["fin"] | ["act", name] | ["actfin", name] | ["llm", task] | ["other", type]
    """
    out = []
    for e in plog:
        t = e["type"]
        if t == "step":
            ns = []
            for s in e["next_steps"]:
                if s["type"] == "StartInternalSystemAction":
                    ns.append(["act", s["action_name"]])
                elif s["type"] == "BotIntent":
                    ns.append(["intent", s["intent"]])
                else:
                    ns.append(["other"])
            out.append(["step", e["flow_id"], ns])
        elif t == "event":
            d = e["data"]
            et = d["type"]
            if et == "StartInputRail":
                out.append(["in", d["flow_id"]])
            elif et == "StartOutputRail":
                out.append(["out", d["flow_id"]])
            elif et in ("InputRailFinished", "OutputRailFinished"):
                out.append(["fin"])
            elif et == "StartInternalSystemAction":
                out.append(["act", d["action_name"]])
            elif et == "InternalSystemActionFinished":
                out.append(["actfin", d["action_name"]])
            else:
                out.append(["other", et])
        elif t == "llm_call_info":
            out.append(["llm", getattr(e["data"], "task", None) or "?"])
        else:
            out.append(["other", "?" + str(t)])
    return out


def denoise(alog, ignored_actions=("create_event",)):
    """Drop what `compute_generation_log` provably ignores (Lean: `GenLog.compute_denoise`): other events,
    start/finish of ignored actions, and steps that carry no decision and cannot open a rail are NOT dropped
    here -- only `other`, ignored actions and ignored next-steps inside steps."""
    out = []
    for e in alog:
        if e[0] == "other":
            continue
        if e[0] in ("act", "actfin") and e[1] in ignored_actions:
            continue
        if e[0] == "step":
            ns = [s for s in e[2] if not (s[0] == "other" or (s[0] == "act" and s[1] in ignored_actions))]
            out.append(["step", e[1], ns])
            continue
        out.append(e)
    return out
