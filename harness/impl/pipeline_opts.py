"""Adapter for C16: builds a Colang 1.0 `LLMRails` with scripted rails and drives `generate(options=...)`.

A *config* is
    {"input": [rail, ...], "output": [rail, ...], "retrieval": [rail, ...],
     "rail_def": "subflow" | "flow",          # how the rail flows are declared
     "dialog": "general" | "predef" | "llm", # what the dialog rails do when they are selected
     "exceptions": bool,                      # enable_rails_exceptions (a blocked message yields an exception event)
     "text_from": "param" | "context"}        # the rail action gets the text as a parameter (`text=$user_message`) or reads it from the context
and a *rail* is a rule table  [[needle, verdict], ...]  (first rule whose needle occurs in the text the rail is
shown decides; no rule => accept) with  verdict = ["accept"] | ["reject"] | ["fault"] | ["append", t] | ["prepend", t] | ["replace", t].

The rails are flows of the shape the shipped library uses (`$r = execute …; if blocked: bot refuse to respond; stop`),
the verdict is produced by ONE registered Python action that also records the call (category, index, text seen).
Nothing of the repo is patched; the LLM is `tests/utils.FakeLLM` (counts calls), the embedding engine is a
deterministic md5 engine registered through the public `register_embedding_provider`.
"""
import asyncio
import contextlib
import hashlib
import io
import json
import os
import sys

REFUSAL = "I'm sorry, I can't respond to that."
INTERNAL_ERROR = "I'm sorry, an internal error has occurred."
CATS = ["input", "dialog", "retrieval", "output"]

_READY = False
_CACHE = {}

# ----------------------------------------------------------------------------- texts the runtime's own plumbing could interpret
# The property quantifies over ALL user / bot texts.  On their way from `generate(messages=…)` to the reply the texts travel
# through context variables, `ContextUpdate` events, action parameters (`create event X(text=$user_message)`), Colang
# expressions and (in other modes) Jinja templates; a text that LOOKS like the syntax of one of these layers - a variable
# reference, a template, a quoted string, a Colang keyword, a Python literal - is still only a text.
HOSTILE_STATIC = [
    "$100 is too much", "$5 is the price", "$5", "$", "$ x", "$$", "$ bad", "a $5 thing", " $5", "${user_message}", "$user_message.x", "$1bad",
    "{{ user_message }}", "{{ bot_message }}", "{% if True %}x{% endif %}", "{{", "}}", "{# c #}", "{{ 1/0 }}", "{{ evil }}",
    '"quoted"', "'single'", 'say "hi" now', "it's", '"', "\\", "\\n", "\\\"", "a\nb", "line one\nbad line two", "\n", "a\r\nb", "\t", "a\tb",
    " lead", "trail ", "  both  ", " ", "  ", "", "#comment", "# bad", "...", "bot refuse to respond", "stop", "user said x", "execute boom", "flow main",
    "define flow x", "if True", "None", "True", "False", "null", "0", "-1", "[]", "{}", '{"a": 1}', "['x']", "h\u00e9llo \u2713", "\u00a0", "x" * 3000, ("y" * 1500) + " bad " + ("z" * 1500),
    "$" + "x" * 2000, "_type", "Listen", "UserMessage", "{'_type': 'BotMessage', 'text': 'evil'}",
]
_HOSTILE = None


def hostile_texts():
    """HOSTILE_STATIC + `$name` for every context variable the shipped llm_flows.co / the rail flows of this harness / the
    runtime mention (scanned from the code under test, so a NEW variable enters the pool by itself)."""
    global _HOSTILE
    if _HOSTILE is None:
        import re

        names = {"user_message", "bot_message", "generation_options", "config", "verdict", "allowed", "i", "event", "last_user_message",
                 "last_bot_message", "relevant_chunks", "skip_output_rails", "triggered_input_rail", "triggered_output_rail", "input_flows", "output_flows"}
        repo = os.environ.get("VERIF_REPO", "/repo")
        for rel in ("nemoguardrails/rails/llm/llm_flows.co", "nemoguardrails/colang/v1_0/runtime/runtime.py", "nemoguardrails/rails/llm/llmrails.py"):
            try:
                src = open(os.path.join(repo, rel), encoding="utf-8").read()
            except OSError:
                continue
            names.update(re.findall(r"\$([A-Za-z_][A-Za-z_0-9]*)", src))
            names.update(re.findall(r"context(?:_updates)?\[\"([a-z_]+)\"\]", src))
            names.update(re.findall(r"context\.get\(\"([a-z_]+)\"", src))
        _HOSTILE = list(HOSTILE_STATIC) + ["$" + n for n in sorted(names)] + [REFUSAL, INTERNAL_ERROR, "x" * 20000]
        _HOSTILE = list(dict.fromkeys(_HOSTILE))
    return _HOSTILE


_LITERALS = None


def pick_hostile(rng):
    """70 %: a text of `hostile_texts()`; 30 %: a string literal the code under test compares values with (`compared_literals()`)"""
    global _LITERALS
    if _LITERALS is None:
        _LITERALS = [t for t in compared_literals() if t != CONTROL_SCRIPT] + [CONTROL_SCRIPT] * 3
    if rng.random() < 0.7:
        return rng.choice(hostile_texts())
    t = rng.choice(_LITERALS)
    return "$" + t if rng.random() < 0.15 else t


CONTROL_SCRIPT = "(remove last message)"  # the in-band control script of the 1.0 response assembly (open finding `reply-text-is-control-script`)
SCAN_FILES = ("nemoguardrails/rails/llm/llmrails.py", "nemoguardrails/rails/llm/utils.py", "nemoguardrails/colang/v1_0/runtime/runtime.py",
              "nemoguardrails/colang/v1_0/runtime/flows.py", "nemoguardrails/colang/runtime.py", "nemoguardrails/actions/core.py",
              "nemoguardrails/actions/action_dispatcher.py", "nemoguardrails/logging/processing_log.py", "nemoguardrails/utils.py",
              "nemoguardrails/colang/v1_0/runtime/utils.py", "nemoguardrails/rails/llm/options.py")
_STR_TESTS = {"startswith", "endswith", "find", "index", "split", "rsplit", "partition", "replace", "strip", "lstrip", "rstrip", "count", "match", "search", "sub", "removeprefix", "removesuffix"}


def compared_literals():
    """String literals the code between `generate(messages=…)` and the reply COMPARES a value with (operands of `==`, `!=`, `in`,
    `not in`, arguments of str / re test methods), scanned from the code under test: a text equal to one of them (`Listen`,
    `stop`, `(remove last message)`, `$`, …) is still only a text.  Non-empty, at most 40 characters, sorted."""
    import ast

    repo = os.environ.get("VERIF_REPO", "/repo")
    found = set()
    for rel in SCAN_FILES:
        try:
            tree = ast.parse(open(os.path.join(repo, rel), encoding="utf-8").read())
        except (OSError, SyntaxError):
            continue
        for n in ast.walk(tree):
            ops = []
            if isinstance(n, ast.Compare):
                ops = [n.left] + list(n.comparators)
            elif isinstance(n, ast.Call) and isinstance(n.func, ast.Attribute) and n.func.attr in _STR_TESTS:
                ops = list(n.args)
            elif isinstance(n, ast.Subscript):
                ops = [n.slice]  # keys looked up in events / contexts: `event["script"]`, `context["bot_message"]`
            for o in ops:
                for k in ast.walk(o):
                    if isinstance(k, ast.Constant) and isinstance(k.value, str) and 0 < len(k.value) <= 40:
                        found.add(k.value)
    return sorted(found)


def _setup():
    global _READY
    if _READY:
        return
    repo = os.environ.get("VERIF_REPO", "/repo")
    tests = os.path.join(repo, "tests")
    if tests not in sys.path:
        sys.path.insert(0, tests)
    # generate_bot_message picks bot_messages[intent][0] when "pytest" is loaded and random.choice otherwise;
    # all our intents have exactly one message, so both paths agree.
    from nemoguardrails.embeddings.providers import register_embedding_provider
    from nemoguardrails.embeddings.providers.base import EmbeddingModel

    class FakeEmb(EmbeddingModel):
        engine_name = "fakeemb"

        def __init__(self, embedding_model=None, **kw):
            self.model = embedding_model
            self.embedding_size = 8

        def encode(self, documents):
            out = []
            for d in documents:
                h = hashlib.md5(d.encode("utf-8")).digest()
                out.append([b / 255.0 for b in h[:8]])
            return out

        async def encode_async(self, documents):
            return self.encode(documents)

    try:
        register_embedding_provider(FakeEmb, "fakeemb")
    except Exception:  # already registered in this process
        pass
    _READY = True


def text_classes(t):
    """coverage tags for a user text / bot message (which layer of the plumbing could mistake it for syntax)"""
    if t is None:
        return []
    out = []
    if t == "":
        out.append("text:empty")
    if t.startswith("$"):
        out.append("text:dollar-first")
        if t[1:] and all(ch.isalnum() or ch == "_" for ch in t[1:]) and len(t) < 60:
            out.append("text:variable-name")
    elif "$" in t:
        out.append("text:dollar-inside")
    if "{{" in t or "{%" in t or "{#" in t:
        out.append("text:template")
    if '"' in t or "'" in t or "\\" in t:
        out.append("text:quote-or-backslash")
    if "\n" in t or "\r" in t or "\t" in t:
        out.append("text:control-char")
    if t and t.strip() != t:
        out.append("text:blank-edge")
    if len(t) > 1000:
        out.append("text:long")
    return out


def rail_name(cat, i):
    return f"{cat} rail {i}"


# ----------------------------------------------------------------------------- predefined bot messages with template variables
# A predefined bot message may interpolate context variables, in two syntaxes: `{{ var }}` (Jinja) and `$var`
# (`LLMGenerationActions._render_string` rewrites `$var` to `{{var}}` first).  A *template* is a list of parts
#     ["lit", text] | ["var", name, "jinja" | "tight" | "dollar"]
# (source: `{{ name }}` / `{{name}}` / `$name`).  The variables are set by the rail flows right before they utter the message:
#     $block_reason = $verdict.reason       (an arbitrary text handed out by the scripted action: cfg["reasons"][cat][i])
#     $blocked_text = $user_message | $bot_message     (the text the rail was shown)
# `$user_message` is the runtime's own variable, `nothing_set` is never set (an undefined variable renders as the empty text).
# cfg["msgs"] = {"refusal": template | None,                 # `define bot refuse to respond` (None: the library's message)
#                "own": {"input": [template | None, …], "output": […]},   # rail i answers with its OWN predefined message `bot refuse <cat> <i>`
#                "notice": template | None}                   # the rails first utter `bot inform blocked` (a second predefined message)
TPL_VARS = ("block_reason", "blocked_text", "user_message", "nothing_set")


def tpl_source(parts):
    out = []
    for p in parts:
        if p[0] == "lit":
            out.append(p[1])
        elif p[2] == "jinja":
            out.append("{{ " + p[1] + " }}")
        elif p[2] == "tight":
            out.append("{{" + p[1] + "}}")
        else:
            out.append("$" + p[1])
    return "".join(out)


def tpl_render(parts, env):
    """what the message says: every variable replaced by its current value, once (a value is only a text); a variable that was
    never set contributes nothing"""
    out = []
    for p in parts:
        if p[0] == "lit":
            out.append(p[1])
        else:
            v = env.get(p[1])
            out.append("" if v is None else str(v))
    # documented for predefined messages (`clean_utterance_content`: "If \\n is used inside a predefined message … it should be
    # translated to an actual newline character"): the two characters backslash + n stand for a line break
    return "".join(out).replace("\\n", "\n")


def tpl_is_templated(parts):
    return parts is not None and any(p[0] == "var" for p in parts)


def own_intent(cat, i):
    return f"refuse {cat} {i}"


def refusal_intents(cfg):
    """the bot intents with which a rail of this configuration refuses (the library's and the rails' own)"""
    out = {"refuse to respond"}
    own = (cfg.get("msgs") or {}).get("own") or {}
    for cat in ("input", "output"):
        for i, t in enumerate(own.get(cat) or []):
            if t is not None:
                out.add(own_intent(cat, i))
    return out


def blocked_utterances(cfg, cat, i, text_seen, user_message):
    """documented: what a rail of category `cat`, index `i`, says when it blocks the text `text_seen` - the texts of the predefined
    messages it utters (an optional notice, then its refusal), variables replaced by the values the rail has just set"""
    m = cfg.get("msgs") or {}
    reasons = (cfg.get("reasons") or {}).get(cat) or []
    env = {"block_reason": reasons[i] if i < len(reasons) else "", "blocked_text": text_seen, "user_message": user_message}
    out = []
    if m.get("notice") is not None:
        out.append(tpl_render(m["notice"], env))
    own = ((m.get("own") or {}).get(cat) or [])
    t = own[i] if i < len(own) and own[i] is not None else m.get("refusal")
    out.append(REFUSAL if t is None else tpl_render(t, env))
    return out


def dialog_refusal(cfg, user_message):
    """documented: the text of `bot refuse to respond` when a DIALOG flow says it (no rail has set anything in this turn)"""
    t = (cfg.get("msgs") or {}).get("refusal")
    return REFUSAL if t is None else tpl_render(t, {"user_message": user_message})


def predef_text(cfg, user_message=None):
    """the predefined message of the dialog flow: source text (user_message None) or what it says for the current `$user_message`"""
    parts = cfg.get("predef_parts")
    if parts is None:
        return cfg.get("predef_text", "Hello there")
    return tpl_source(parts) if user_message is None else tpl_render(parts, {"user_message": user_message})


def colang_source(cfg):
    kw = "define subflow" if cfg.get("rail_def", "subflow") == "subflow" else "define flow"
    var = {"input": "$user_message", "output": "$bot_message", "retrieval": "$relevant_chunks"}
    exc = {"input": "InputRailException", "output": "OutputRailException", "retrieval": "RetrievalRailException"}
    out = []
    msgs = cfg.get("msgs")
    if msgs is not None:
        defs = []
        if msgs.get("refusal") is not None:
            defs.append(("refuse to respond", msgs["refusal"]))
        if msgs.get("notice") is not None:
            defs.append(("inform blocked", msgs["notice"]))
        for cat in ("input", "output"):
            for i, t in enumerate((msgs.get("own") or {}).get(cat) or []):
                if t is not None and i < len(cfg.get(cat, [])):
                    defs.append((own_intent(cat, i), t))
        for intent, parts in defs:
            out += [f"define bot {intent}", '  "' + tpl_source(parts) + '"', ""]
    for cat in ("input", "output", "retrieval"):
        for i, _ in enumerate(cfg.get(cat, [])):
            out.append(f"{kw} {rail_name(cat, i)}")
            if cfg.get("text_from", "param") == "context" and cat != "retrieval":
                # like the shipped rails (`execute self_check_input`): the action reads the text from the context it is handed
                out.append(f'  $verdict = execute scripted_rail(cat="{cat}", idx={i})')
            else:
                out.append(f'  $verdict = execute scripted_rail(cat="{cat}", idx={i}, text={var[cat]})')
            out.append('  if $verdict.kind == "reject"')
            if msgs is not None and cat != "retrieval":
                # context variables set by the rail, for the predefined messages that interpolate them
                out.append("    $block_reason = $verdict.reason")
                out.append(f"    $blocked_text = {var[cat]}")
            if cfg.get("exceptions"):
                out.append(f'    create event {exc[cat]}(message="blocked by {rail_name(cat, i)}")')
            else:
                own = ((msgs or {}).get("own") or {}).get(cat) or []
                if (msgs or {}).get("notice") is not None and cat != "retrieval":
                    out.append("    bot inform blocked")
                if i < len(own) and own[i] is not None:
                    out.append(f"    bot {own_intent(cat, i)}")
                else:
                    out.append("    bot refuse to respond")
            out.append("    stop")
            out.append('  if $verdict.kind == "rewrite"')
            out.append(f"    {var[cat]} = $verdict.text")
            out.append("")
    if cfg.get("dialog") in ("predef", "llm", "refuse"):
        # "refuse": a DIALOG flow answers with the (predefined) refusal: the turn ends with a refusal although no rail blocked
        out += [
            "define user express greeting",
            '  "hi"',
            '  "hello"',
            "",
            "define flow greeting",
            "  user express greeting",
            "  bot refuse to respond" if cfg["dialog"] == "refuse" else "  bot express greeting",
            "",
        ]
        if cfg["dialog"] == "predef":
            out += ["define bot express greeting", '  "' + predef_text(cfg) + '"', ""]
    return "\n".join(out) + "\n"


def yaml_source(cfg):
    y = [
        "models:",
        "  - type: main",
        "    engine: openai",
        "    model: gpt-3.5-turbo-instruct",
        "  - type: embeddings",
        "    engine: fakeemb",
        "    model: fake",
    ]
    if cfg.get("exceptions"):
        y.append("enable_rails_exceptions: True")
    cats = [c for c in ("input", "output", "retrieval") if cfg.get(c)]
    if cats:
        y.append("rails:")
        for cat in cats:
            y += [f"  {cat}:", "    flows:"] + [f"      - {rail_name(cat, i)}" for i in range(len(cfg[cat]))]
    return "\n".join(y) + "\n"


def apply_rail(rules, text):
    """The scripted verdict function: (kind, new_text)."""
    for needle, verdict in rules:
        if needle in (text or ""):
            k = verdict[0]
            if k == "append":
                return "rewrite", (text or "") + verdict[1]
            if k == "prepend":
                return "rewrite", verdict[1] + (text or "")
            if k == "replace":
                return "rewrite", verdict[1]
            return k, None
    return "accept", None


class Script:
    """Mutable per-call state shared with the registered action."""

    def __init__(self):
        self.cfg = None
        self.calls = []


def _cfg_key(cfg):
    return (len(cfg.get("input", [])), len(cfg.get("output", [])), len(cfg.get("retrieval", [])), cfg.get("rail_def", "subflow"),
            cfg.get("dialog", "general"), bool(cfg.get("exceptions")), predef_text(cfg), cfg.get("text_from", "param"),
            json.dumps(cfg.get("msgs"), sort_keys=True))


def get_app(cfg):
    """One LLMRails per structural configuration (rules are swapped per call)."""
    _setup()
    key = _cfg_key(cfg)
    if key in _CACHE:
        return _CACHE[key]
    from nemoguardrails import LLMRails, RailsConfig
    from utils import FakeLLM

    script = Script()
    with contextlib.redirect_stdout(io.StringIO()):
        config = RailsConfig.from_content(colang_content=colang_source(cfg), yaml_content=yaml_source(cfg))
        llm = FakeLLM(responses=[])
        app = LLMRails(config, llm=llm)

    from_context = cfg.get("text_from", "param") == "context"

    async def scripted_rail(cat: str, idx: int, text=None, context=None):
        if from_context and cat != "retrieval":
            text = (context or {}).get("user_message" if cat == "input" else "bot_message")
        script.calls.append([cat, idx, text])
        kind, new = apply_rail(script.cfg[cat][idx], text)
        if kind == "fault":
            raise RuntimeError("scripted rail fault")
        reasons = (script.cfg.get("reasons") or {}).get(cat) or []
        return {"kind": kind, "text": new, "reason": reasons[idx] if idx < len(reasons) else ""}

    app.register_action(scripted_rail, "scripted_rail")
    _CACHE[key] = (app, llm, script)
    return _CACHE[key]


def llm_script(cfg, llm_text):
    if cfg.get("dialog", "general") == "general":
        return [llm_text] * 4
    # flows mode: 1st call = user intent, 2nd = bot message (only when not predefined); extras are never used
    return ["  express greeting", '  "' + llm_text + '"', '  "' + llm_text + '"', '  "' + llm_text + '"']


_SPY = {"installed": False, "plog": None, "stats_llm": None}


def _install_spy():
    """Record the processing log handed to `compute_generation_log` (module attribute of llmrails; no source change)."""
    if _SPY["installed"]:
        return
    from nemoguardrails.rails.llm import llmrails as lr

    orig = lr.compute_generation_log

    def spy(plog):
        _SPY["plog"] = plog
        res = orig(plog)
        _SPY["stats_llm"] = res.stats.llm_calls_count
        return res

    lr.compute_generation_log = spy
    _SPY["installed"] = True


def _begin_call(llm, script, cfg, llm_text):
    script.cfg = cfg
    script.calls = []
    llm.responses = llm_script(cfg, llm_text)
    llm.i = 0
    _SPY["plog"] = None
    _SPY["stats_llm"] = None


def _observe(res, with_log):
    """GenerationResponse | message dict -> observation (both shapes are accepted whatever was asked for)."""
    obs = {}
    if isinstance(res, dict):
        msg = res
    else:
        msg = res.response[0] if isinstance(res.response, list) else {"role": "assistant", "content": res.response}
    obs["role"] = msg.get("role")
    if msg.get("role") == "exception":
        obs["response"] = None
        obs["exception"] = msg["content"].get("type")
    else:
        obs["response"] = msg.get("content")
    if with_log:
        log = None if isinstance(res, dict) else res.log
        obs["rails"] = [
            {"type": r.type, "name": r.name, "stop": bool(r.stop), "finished": r.finished_at is not None, "decisions": list(r.decisions),
             "actions": [{"name": a.action_name, "finished": a.finished_at is not None, "llm": [c.task for c in a.llm_calls]} for a in r.executed_actions]}
            for r in (log.activated_rails if log else [])
        ]
        obs["alog"] = abstract_plog(_SPY["plog"]) if _SPY["plog"] is not None else None
        obs["log_llm_calls"] = _SPY["stats_llm"]
    return obs


async def _acall(app, llm, script, cfg, messages, options, llm_text, state=None, use_state=False):
    """One `generate_async` call inside the CURRENT task / async context; returns (observation, result | None)."""
    _begin_call(llm, script, cfg, llm_text)
    obs = {}
    res = None
    try:
        from nemoguardrails.context import explain_info_var

        explain_info_var.set(None)
        with contextlib.redirect_stdout(io.StringIO()), contextlib.redirect_stderr(io.StringIO()):
            if use_state:
                res = await app.generate_async(messages=messages, options=options, state=state)
            else:
                res = await app.generate_async(messages=messages, options=options)
        obs = _observe(res, options is not None)
    except Exception as e:  # noqa
        obs = {"exc": f"{type(e).__name__}: {e}"[:300]}
        res = None
    obs["calls"] = [list(c) for c in script.calls]
    obs["llm_calls"] = llm.i
    return obs, res


def _one_call(app, llm, script, cfg, messages, options, llm_text, state=None, use_state=False):
    """One `generate_async` call in a task (and event loop) of its own; returns (observation, result | None)."""
    loop = asyncio.new_event_loop()
    try:
        return loop.run_until_complete(_acall(app, llm, script, cfg, messages, options, llm_text, state=state, use_state=use_state))
    finally:
        loop.close()


RAILS_FORMS = ("list", "dict", "partial", "object")


def _options(rails_opt, form="list"):
    """The same selection in the forms the API accepts: list of category names (documented), dict of booleans, dict naming
    only the deselected categories (the others default to enabled), or a `GenerationOptions` object (what the server passes)."""
    options = {"log": {"activated_rails": True}}
    if rails_opt is not None:
        if form == "list":
            options["rails"] = list(rails_opt)
        elif form == "partial":
            options["rails"] = {c: False for c in CATS if c not in rails_opt}
        else:
            options["rails"] = {c: (c in rails_opt) for c in CATS}
    if form == "object":
        from nemoguardrails.rails.llm.options import GenerationOptions

        return GenerationOptions(**options)
    return options


def run_turn_full(cfg, rails_opt, user_text, bot_text, llm_text, no_options=False, form="list"):
    """Drive one `generate` call on a fresh conversation.  rails_opt: None (no `rails` option) or list of category
    names; no_options: call `generate` without any options (then no log comes back)."""
    app, llm, script = get_app(cfg)
    _install_spy()
    app.events_history_cache.clear()
    messages = [{"role": "user", "content": user_text}]
    if bot_text is not None:
        messages.append({"role": "assistant", "content": bot_text})
    obs, _ = _one_call(app, llm, script, cfg, messages, None if no_options else _options(rails_opt, form), llm_text)
    return obs


def run_session(cfg, calls, via, ctx="task-per-call", share=False):
    """Several `generate` calls one after the other on ONE `LLMRails` (one process).
    calls: [{"opts", "user", "bot", "llm_text", "no_options"?, "form"?}, …]
    via = "state": the `state` returned by a call is passed to the next one (messages = the new ones only);
    via = "history": the whole message history is passed again (the events come from `events_history_cache` when the
    prefix hits, else they are rebuilt from the messages);
    via = "separate": every call is a conversation of its own (only its own messages, no state);
    ctx = "one-task": all calls are awaited one after the other in ONE task (one async context, like a server handler or a
    notebook cell that awaits `generate_async` repeatedly); "task-per-call": a new event loop per call (like `generate`);
    share: calls with the same selection and form are given the very SAME options object (dict / GenerationOptions).
    Returns one observation per call (the sequence stops after a call that raised or, in the history mode, answered with
    an exception message)."""
    app, llm, script = get_app(cfg)
    _install_spy()
    app.events_history_cache.clear()
    shared = {}

    def options_of(c):
        if c.get("no_options"):
            return None
        form = c.get("form", "list")
        if not share:
            return _options(c["opts"], form)
        k = (form, None if c["opts"] is None else tuple(c["opts"]))
        if k not in shared:
            shared[k] = _options(c["opts"], form)
        return shared[k]

    async def drive(call):
        out = []
        state = {}
        hist = []
        for c in calls:
            new = [{"role": "user", "content": c["user"]}]
            if c.get("bot") is not None:
                new.append({"role": "assistant", "content": c["bot"]})
            if via == "state":
                obs, res = await call(new, options_of(c), c["llm_text"], state, True)
                out.append(obs)
                if res is None or getattr(res, "state", None) is None:
                    break
                state = res.state
            elif via == "separate":
                obs, res = await call(new, options_of(c), c["llm_text"], None, False)
                out.append(obs)
                if res is None:
                    break
            else:
                obs, res = await call([dict(m) for m in hist] + new, options_of(c), c["llm_text"], None, False)
                out.append(obs)
                if res is None or obs.get("role") != "assistant":
                    break
                hist = hist + [new[0], {"role": "assistant", "content": obs["response"]}]
        return out

    if ctx == "one-task":
        async def call(messages, options, llm_text, state, use_state):
            return await _acall(app, llm, script, cfg, messages, options, llm_text, state=state, use_state=use_state)
    else:
        async def call(messages, options, llm_text, state, use_state):
            return _one_call(app, llm, script, cfg, messages, options, llm_text, state=state, use_state=use_state)

    if ctx == "one-task":
        loop = asyncio.new_event_loop()
        try:
            return loop.run_until_complete(drive(call))
        finally:
            loop.close()
    # task-per-call: the driver coroutine never suspends itself (every call runs its own loop to completion)
    co = drive(call)
    try:
        co.send(None)
    except StopIteration as e:
        return e.value
    raise RuntimeError("run_session: driver suspended")


def run_turn(cfg, rails_opt, user_text, bot_text, llm_text, want_plog=False):
    """probe helper"""
    obs = run_turn_full(cfg, rails_opt, user_text, bot_text, llm_text)
    if want_plog:
        obs["plog"] = _SPY["plog"]
    return obs


# ----------------------------------------------------------------------------- processing-log abstraction

def abstract_plog(plog):
    """Processing log -> the event alphabet of `GenLog` (timestamps and payloads dropped).

    ["step", flow_id, [["act", name] | ["intent", intent] | ["other"], ...]] | ["in", flow_id] | ["out", flow_id]
    | ["fin"] | ["act", name] | ["actfin", name] | ["llm", task] | ["other", type]
    """
    out = []
    for e in plog:
        t = e["type"]
        if t == "step":
            ns = []
            for s in e["next_steps"]:
                if s["type"] == "StartInternalSystemAction":
                    ns.append(["act", s["action_name"]])
                elif s["type"] == "BotIntent":
                    ns.append(["intent", s["intent"]])
                else:
                    ns.append(["other"])
            out.append(["step", e["flow_id"], ns])
        elif t == "event":
            d = e["data"]
            et = d["type"]
            if et == "StartInputRail":
                out.append(["in", d["flow_id"]])
            elif et == "StartOutputRail":
                out.append(["out", d["flow_id"]])
            elif et in ("InputRailFinished", "OutputRailFinished"):
                out.append(["fin"])
            elif et == "StartInternalSystemAction":
                out.append(["act", d["action_name"]])
            elif et == "InternalSystemActionFinished":
                out.append(["actfin", d["action_name"]])
            else:
                out.append(["other", et])
        elif t == "llm_call_info":
            out.append(["llm", getattr(e["data"], "task", None) or "?"])
        else:
            out.append(["other", "?" + str(t)])
    return out


def denoise(alog, ignored_actions=("create_event",)):
    """Drop what `compute_generation_log` provably ignores (Lean: `GenLog.compute_denoise`): other events,
    start/finish of ignored actions, and steps that carry no decision and cannot open a rail are NOT dropped
    here -- only `other`, ignored actions and ignored next-steps inside steps."""
    out = []
    for e in alog:
        if e[0] == "other":
            continue
        if e[0] in ("act", "actfin") and e[1] in ignored_actions:
            continue
        if e[0] == "step":
            ns = [s for s in e[2] if not (s[0] == "other" or (s[0] == "act" and s[1] in ignored_actions))]
            out.append(["step", e[1], ns])
            continue
        out.append(e)
    return out
