"""Python twin of lean/NemoVerif/Drive/C11.lean: Python object graphs <-> the JSON encoding of `Serialize.PV`.

    PV:  None | True/False | {"i":n} | {"ih":hex} (an int too long for decimal transport) | {"f":[m,e] | "-0" | "nan" | "inf" | "-inf"}
         | {"s":str} | {"su":[code points]} (a string that holds lone surrogates: not UTF-8 encodable, so it never travels raw) | {"l":[..]} | {"t":[..]} | {"S":[..]} | {"q":[..]}
         | {"d":[[key,v]..]} | {"D":[cls,[[key,v]..]]} | {"st":v} | {"e":[cls,name]} | {"dt":iso}
         | {"a":[uid,name,flow_uid|None,status,ctx,args,scope]} | {"p":1} | {"r":[pattern,flags]} | {"c":[op,value]} | {"o":cls}
    key: None | True/False | {"i":n} | {"s":str} | {"T":[atom..]} | {"F":float code} (oracle level only: not in the Lean model)
    atom: None | True/False | {"i":n} | {"s":str}
    case-only: {"share": k}  -> the k-th object of the case's pool (built once: object identity shared)

`build` makes the real objects (the repo's own dataclasses, Action, enums, re.Pattern, ComparisonExpression);
`observe` re-reads what is really there as the unfolded tree (sets in their iteration order) using the same
isinstance order as `encode_to_dict`, so the model is asked about the value the implementation was given.
"""
import functools
import json
import math
import re
from collections import deque
from dataclasses import fields, is_dataclass
from datetime import datetime
from enum import Enum

REGEXES = [["a+", 32], ["^b", 34], [r"\d+", 32], ["x.y", 48]]  # flags as re.compile(...).flags reports them


def dyadic(x):
    n, d = float(x).as_integer_ratio()
    e = d.bit_length() - 1
    return n, e


def fcode(x):
    """exact, JSON-safe name of a float: [m, e] (= m / 2**e) for the finite ones except -0.0, else "-0" / "nan" / "inf" / "-inf".
    Two floats are the same value for save/restore iff their codes are equal (nan is nan, -0.0 is not 0.0)."""
    x = float(x)
    if x != x:
        return "nan"
    if x in (math.inf, -math.inf):
        return "inf" if x > 0 else "-inf"
    if x == 0 and math.copysign(1.0, x) < 0:
        return "-0"
    return list(dyadic(x))


def fbuild(c):
    if isinstance(c, str):
        return {"nan": math.nan, "inf": math.inf, "-inf": -math.inf, "-0": -0.0}[c]
    return math.ldexp(float(c[0]), -c[1])


# CPython refuses int <-> decimal str beyond 4300 digits (json.dumps included: finding int-beyond-str-digits); the repair
# (fixes/C11-huge-int.diff) writes ints beyond 2048 bits as {"__type": "int", "hex": …} — a representation the Lean model
# (unbounded `Int` written as a JSON number) does not have: such ints travel as hex and are decided by the oracle only
BIG_INT_BITS = 2048


_DEC_LIMIT = 10 ** 4300


def too_long_for_decimal(n):
    """more than 4300 decimal digits: CPython's default limit for int <-> str (sys.int_info.default_max_str_digits)"""
    return abs(n) >= _DEC_LIMIT


def icode(n):
    return {"i": n} if n.bit_length() <= BIG_INT_BITS else {"ih": hex(n)}


def scode(s):
    try:
        s.encode("utf-8")
        return {"s": s}
    except UnicodeEncodeError:
        return {"su": [ord(ch) for ch in s]}


def _mods():
    from nemoguardrails.colang.v2_x.lang import colang_ast
    from nemoguardrails.colang.v2_x.runtime import eval as ev
    from nemoguardrails.colang.v2_x.runtime import flows, serialization

    return colang_ast, ev, flows, serialization


class Unknown:
    """a class the serializer has never heard of"""


# values of built-in types the encoder has no branch for, but which a Colang expression can produce and a flow can keep
# (`"abc".encode()`, `$d.keys()`, `$l.append`): finding state-holds-unserialisable-builtin
BUILTIN_OTHERS = {
    "bytes": lambda: b"ab", "dict_keys": lambda: {"a": 1}.keys(), "dict_values": lambda: {"a": 1}.values(), "dict_items": lambda: {"a": 1}.items(),
    "builtin_function_or_method": lambda: [1].append,
}


def build_key(k):
    if k is None or isinstance(k, bool):
        return k
    if "i" in k:
        return int(k["i"])
    if "s" in k:
        return k["s"]
    if "F" in k:
        return fbuild(k["F"])
    return tuple(build_key(a) for a in k["T"])


def build(j, pool=None):
    colang_ast, ev, flows, ser = _mods()
    if j is None or isinstance(j, bool):
        return j
    if "share" in j:
        return pool[j["share"]]
    if "i" in j:
        return int(j["i"])
    if "ih" in j:
        return int(j["ih"], 16)
    if "f" in j:
        return fbuild(j["f"])
    if "s" in j:
        return j["s"]
    if "su" in j:
        return "".join(chr(c) for c in j["su"])
    if "l" in j:
        return [build(x, pool) for x in j["l"]]
    if "t" in j:
        return tuple(build(x, pool) for x in j["t"])
    if "S" in j:
        return set(build(x, pool) for x in j["S"])
    if "q" in j:
        return deque(build(x, pool) for x in j["q"])
    if "d" in j:
        return {build_key(k): build(v, pool) for k, v in j["d"]}
    if "D" in j:
        cls = ser.name_to_class[j["D"][0]]
        kv = {k["s"]: build(v, pool) for k, v in j["D"][1]}
        obj = cls(**{k: v for k, v in kv.items() if not k.startswith("_")})
        for k, v in kv.items():
            if k.startswith("_"):
                setattr(obj, k, v)
        return obj
    if "st" in j:
        return colang_ast.SpecType(j["st"])
    if "e" in j:
        return ser.name_to_class[j["e"][0]][j["e"][1]]
    if "dt" in j:
        return datetime.fromisoformat(j["dt"])
    if "a" in j:
        uid, name, fu, st, ctx, args, sc = j["a"]
        a = flows.Action(name=name, arguments=build(args, pool), flow_uid=fu)
        a.uid = uid
        a.status = flows.ActionStatus[st]
        a.context = build(ctx, pool)
        a.flow_scope_count = sc
        return a
    if "p" in j:
        return functools.partial(print, "x")
    if "r" in j:
        return re.compile(j["r"][0], j["r"][1])
    if "c" in j:
        mk = {"less_than": ev._less_than_operator, "equal_less_than": ev._equal_or_less_than_operator, "greater_than": ev._greater_than_operator,
              "equal_greater_than": ev._equal_or_greater_than_operator, "not_equal_to": ev._not_equal_to_operator}
        return mk[j["c"][0]](build(j["c"][1], pool))
    if "o" in j:
        return BUILTIN_OTHERS[j["o"]]() if j["o"] in BUILTIN_OTHERS else Unknown()
    raise ValueError(j)


def observe_key(k):
    if k is None or isinstance(k, bool):
        return k
    if isinstance(k, int):
        return {"i": k}
    if isinstance(k, str):
        return {"s": k}
    if isinstance(k, float):
        return {"F": fcode(k)}
    if isinstance(k, tuple) and all(a is None or isinstance(a, (bool, int, str)) for a in k):
        return {"T": [observe_key(a) for a in k]}
    return {"T": [{"s": "<unmodelled key " + repr(k)[:40] + ">"}]}


def observe(o, budget=None):
    """Unfolded tree of what is really there (same isinstance order as encode_to_dict)."""
    colang_ast, ev, flows, ser = _mods()
    if budget is not None:
        budget[0] -= 1
        if budget[0] < 0:
            raise OverflowError("unfolding too large")
    if isinstance(o, list):
        return {"l": [observe(x, budget) for x in o]}
    if o is None or isinstance(o, bool):
        return o
    if isinstance(o, str):
        return scode(o)
    if isinstance(o, int):
        return icode(o)
    if isinstance(o, float):
        return {"f": fcode(o)}
    if isinstance(o, functools.partial):
        return {"p": 1}
    if isinstance(o, dict):
        return {"d": [[observe_key(k), observe(v, budget)] for k, v in o.items()]}
    if is_dataclass(o):
        return {"D": [type(o).__name__, [[{"s": f}, observe(getattr(o, f), budget)] for f in o.__dataclass_fields__.keys()]]}
    if isinstance(o, colang_ast.SpecType):
        return {"st": o.value}
    if isinstance(o, flows.Action):
        return {"a": [o.uid, o.name, o.flow_uid, o.status.name, observe(o.context, budget), observe(o.start_event_arguments, budget), o.flow_scope_count]}
    if isinstance(o, datetime):
        return {"dt": o.isoformat()}
    if isinstance(o, Enum):
        return {"e": [type(o).__name__, o.name]}
    if isinstance(o, deque):
        return {"q": [observe(x, budget) for x in o]}
    if isinstance(o, tuple):
        return {"t": [observe(x, budget) for x in o]}
    if isinstance(o, set):
        return {"S": [observe(x, budget) for x in o]}
    if isinstance(o, re.Pattern):
        return {"r": [o.pattern if isinstance(o.pattern, str) else repr(o.pattern), o.flags]}
    if isinstance(o, ev.ComparisonExpression):
        return {"c": [getattr(o, "name", None) or "?", observe(o.value, budget)]}
    return {"o": type(o).__name__}


def unmodelled(j):
    """why the Lean driver cannot be asked about this value (None = it can): values outside the wire format of Drive/C11"""
    if isinstance(j, dict):
        if "su" in j:
            return "surrogate-string"
        if "ih" in j:
            return "huge-int"
        if "i" in j or "f" in j or "s" in j:
            return None
        subs = []
        for t in ("l", "t", "q", "S"):
            if t in j:
                subs = j[t]
        if "d" in j:
            for k, v in j["d"]:
                if isinstance(k, dict) and "F" in k:
                    return "float-key"
                if isinstance(k, dict) and "s" in k and "su" in scode(k["s"]):
                    return "surrogate-string"
                if isinstance(k, dict) and "T" in k and any(isinstance(a, dict) and "s" in a and a["s"].startswith("<unmodelled key") for a in k["T"]):
                    return "unmodelled-key"
            subs = [v for _, v in j["d"]]
        if "D" in j:
            subs = [v for _, v in j["D"][1]]
        if "a" in j:
            subs = [j["a"][4], j["a"][5]]
        if "c" in j:
            subs = [j["c"][1]]
        for x in subs:
            r = unmodelled(x)
            if r:
                return r
    return None


def canon(j):
    """order-insensitive form: set members sorted"""
    if isinstance(j, dict):
        if "S" in j:
            return {"S": sorted((canon(x) for x in j["S"]), key=lambda x: json.dumps(x, sort_keys=True))}
        if "D" in j:
            return {"D": [j["D"][0], [[k, canon(v)] for k, v in j["D"][1]]]}
        if "a" in j:
            a = j["a"]
            return {"a": a[:4] + [canon(a[4]), canon(a[5]), a[6]]}
        for t in ("l", "t", "q"):
            if t in j:
                return {t: [canon(x) for x in j[t]]}
        if "d" in j:
            return {"d": [[k, canon(v)] for k, v in j["d"]]}
    return j


def plain_json_to_model(x):
    """json.loads result -> the shape Drive/C11.jToJson prints"""
    if isinstance(x, dict):
        return ["__obj", [[k, plain_json_to_model(v)] for k, v in x.items()]]
    if isinstance(x, list):
        return [plain_json_to_model(v) for v in x]
    if isinstance(x, float):
        return {"__f": fcode(x)}
    return x


REGISTERED = (dict, datetime, Enum, deque, tuple, set, re.Pattern)  # + dataclasses, Action, ComparisonExpression


def sharing_signature(o):
    """Sequence of first-visit numbers of the objects `encode_to_dict` registers in `refs`, in its
    traversal order (every container incl. lists and the fields of an Action; scalars are transparent).  Two graphs with equal unfoldings and equal
    signatures have the same sharing structure."""
    colang_ast, ev, flows, ser = _mods()
    seen, out = {}, []

    def registered(x):
        return isinstance(x, REGISTERED) or is_dataclass(x) or isinstance(x, (flows.Action, ev.ComparisonExpression))

    def walk(x):
        if x is None or isinstance(x, (str, int, float, functools.partial)):
            return
        if not (registered(x) or isinstance(x, list)):
            return
        if id(x) in seen:
            out.append(seen[id(x)])
            return
        if isinstance(x, list):
            for y in x:
                walk(y)
        elif isinstance(x, flows.Action):
            for y in x.to_dict().values():
                walk(y)
        elif isinstance(x, dict):
            strk = all(isinstance(k, str) for k in x)
            for k, y in x.items():
                if not strk:
                    walk(k)
                walk(y)
        elif is_dataclass(x):
            for f in x.__dataclass_fields__.keys():
                walk(getattr(x, f))
        elif isinstance(x, set):
            # iteration order of a set is not part of the contract: canonical order
            for y in sorted(x, key=lambda e: json.dumps(canon(observe(e)), sort_keys=True)):
                walk(y)
        elif isinstance(x, (deque, tuple)):
            for y in x:
                walk(y)
        n = len(seen)
        seen[id(x)] = n
        out.append(-1 - n)

    walk(o)
    return out


def aliased_lists(o, limit=200000):
    """number of list objects reachable along two different paths (lists are not registered in refs)"""
    colang_ast, ev, flows, ser = _mods()
    seen_obj, lists, dup = set(), set(), 0
    stack = [o]
    n = 0
    while stack:
        x = stack.pop()
        n += 1
        if n > limit:
            break
        if isinstance(x, list):
            if id(x) in lists:
                dup += 1
                continue
            lists.add(id(x))
            stack.extend(x)
            continue
        if x is None or isinstance(x, (str, int, float, functools.partial, datetime, Enum)):
            continue
        if id(x) in seen_obj:
            continue
        seen_obj.add(id(x))
        if isinstance(x, dict):
            stack.extend(x.values())
        elif is_dataclass(x):
            stack.extend(getattr(x, f) for f in x.__dataclass_fields__.keys())
        elif isinstance(x, flows.Action):
            stack.extend([x.context, x.start_event_arguments])
        elif isinstance(x, (deque, tuple, set)):
            stack.extend(x)
    return dup


def to_lab(o):
    """object graph -> (Lab JSON for Drive/C11 `refs`, {id(obj): lab id}); same traversal as encode_to_dict"""
    colang_ast, ev, flows, ser = _mods()
    ids = {}

    def walk(x):
        if isinstance(x, list):
            return {"q": [walk(y) for y in x]}
        if x is None or isinstance(x, (str, int, float, functools.partial)):
            return 0
        n = ids.setdefault(id(x), len(ids))
        if isinstance(x, dict):
            if all(isinstance(k, str) for k in x):
                kids = [walk(y) for y in x.values()]
            else:  # item list: key and value are both passed through encode_to_dict
                kids = [walk(z) for k, y in x.items() for z in (k, y)]
        elif is_dataclass(x):
            kids = [walk(getattr(x, f)) for f in x.__dataclass_fields__.keys()]
        elif isinstance(x, (colang_ast.SpecType, flows.Action, datetime, Enum, re.Pattern)):
            kids = []
        elif isinstance(x, (deque, tuple, set)):
            kids = [walk(y) for y in x]
        else:
            raise TypeError("unsupported")
        return {"n": [n, 0, kids]}

    return walk(o), ids


def enc_skeleton(d, ids):
    """what encode_to_dict produced (before json.dumps) -> the shape Drive/C11.encToJson prints.
    A definition carries its lab id only when the encoder wrote an __id (i.e. it is referenced later)."""
    if isinstance(d, list):
        return {"q": [enc_skeleton(x, ids) for x in d]}
    if not isinstance(d, dict):
        return 0
    t = d.get("__type")
    if t == "ref":
        return {"ref": ids.get(d["__id"], -1)}
    if t in ("Action", "datetime", "enum", "SpecType", "regex"):
        kids = []
    elif t == "dict" and "items" in d:
        kids = [enc_skeleton(z, ids) for kv in d["items"] for z in kv]
    elif t in ("tuple", "set", "deque"):
        kids = [enc_skeleton(x, ids) for x in d["value"]]
    else:
        kids = [enc_skeleton(x, ids) for x in d["value"].values()]
    return {"def": [ids.get(d["__id"], -1) if "__id" in d else None, kids]}


def skeleton_diff(real, model, referenced=None, path="$"):
    """compare; a real definition without __id must not be referenced anywhere in the model output"""
    if referenced is None:
        referenced = set()

        def collect(m):
            if isinstance(m, dict):
                if "ref" in m:
                    referenced.add(m["ref"])
                for k in ("q",):
                    if k in m:
                        for x in m[k]:
                            collect(x)
                if "def" in m:
                    for x in m["def"][1]:
                        collect(x)
        collect(model)
    if isinstance(real, dict) and isinstance(model, dict):
        if "ref" in real or "ref" in model:
            return None if real == model else f"{path}: impl {real} model {model}"
        if "q" in real and "q" in model:
            if len(real["q"]) != len(model["q"]):
                return f"{path}: list length"
            for i, (a, b) in enumerate(zip(real["q"], model["q"])):
                d = skeleton_diff(a, b, referenced, f"{path}[{i}]")
                if d:
                    return d
            return None
        if "def" in real and "def" in model:
            rid, mid = real["def"][0], model["def"][0]
            if rid is None:
                if mid in referenced:
                    return f"{path}: object {mid} is referenced later but carries no __id"
            elif rid != mid:
                return f"{path}: definition of object {rid} vs model {mid}"
            elif mid not in referenced:
                return f"{path}: object {mid} carries an __id but is never referenced"
            if len(real["def"][1]) != len(model["def"][1]):
                return f"{path}: children"
            for i, (a, b) in enumerate(zip(real["def"][1], model["def"][1])):
                d = skeleton_diff(a, b, referenced, f"{path}.{i}")
                if d:
                    return d
            return None
    return None if real == model else f"{path}: impl {json.dumps(real)[:80]} model {json.dumps(model)[:80]}"


# ------------------------------------------------------------------ concrete layer with refs (Models/SerializeShared.lean)

def to_cv(o):
    """object graph -> (CV JSON for Drive/C11 `shared`, {id(obj): lab id}); the traversal of the repaired encode_to_dict:
    every container (lists included) has an identity, the kids are the values the encoder recurses into."""
    colang_ast, ev, flows, ser = _mods()
    ids = {}

    def leaf(x):
        if x is None or isinstance(x, bool):
            return x
        if isinstance(x, str):
            return {"s": x}
        if isinstance(x, int):
            return {"i": x}
        return {"f": fcode(x)}

    def walk(x):
        if x is None or isinstance(x, (str, int, float)):
            return leaf(x)
        if isinstance(x, functools.partial):
            return None
        n = ids.setdefault(id(x), len(ids))
        if isinstance(x, list):
            return {"n": [n, ["list"], [walk(y) for y in x]]}
        if isinstance(x, dict):
            if all(isinstance(k, str) for k in x):
                return {"n": [n, ["dictStr", list(x.keys())], [walk(y) for y in x.values()]]}
            return {"n": [n, ["dictItems"], [walk(z) for k, y in x.items() for z in (k, y)]]}
        if is_dataclass(x):
            fs = list(x.__dataclass_fields__.keys())
            return {"n": [n, ["data", type(x).__name__, fs], [walk(getattr(x, f)) for f in fs]]}
        if isinstance(x, colang_ast.SpecType):
            return {"n": [n, ["specType", x.value], []]}
        if isinstance(x, flows.Action):
            d = x.to_dict()
            return {"n": [n, ["data", "Action", list(d.keys())], [walk(v) for v in d.values()]]}
        if isinstance(x, datetime):
            return {"n": [n, ["datetime", x.isoformat()], []]}
        if isinstance(x, Enum):
            return {"n": [n, ["enum", type(x).__name__, x.name], []]}
        if isinstance(x, deque):
            return {"n": [n, ["deque"], [walk(y) for y in x]]}
        if isinstance(x, tuple):
            return {"n": [n, ["tuple"], [walk(y) for y in x]]}
        if isinstance(x, set):
            return {"n": [n, ["set"], [walk(y) for y in x]]}
        if isinstance(x, re.Pattern) and isinstance(x.pattern, str):
            return {"n": [n, ["regex", x.pattern, x.flags], []]}
        if isinstance(x, ev.ComparisonExpression) and getattr(x, "name", None):
            return {"n": [n, ["cmp", x.name, leaf(x.value)], []]}
        raise TypeError("outside the labelled universe")

    return walk(o), ids


def real_encoding_normal_form(d, ids, payload=False):
    """encode_to_dict's output (Python structure) in the shape Drive/C11.jToJson prints, python ids -> lab ids,
    `__ref_count` dropped.  `payload`: d is the field dict inside a dict/dataclass wrapper (user keys, not markers)."""
    if isinstance(d, dict):
        if payload:
            return ["__obj", [[k, real_encoding_normal_form(v, ids)] for k, v in d.items()]]
        out = []
        for k, v in d.items():
            if k == "__ref_count":
                continue
            if k == "__id":
                out.append([k, ids.get(v, -1)])
            elif k == "value" and isinstance(v, dict):
                out.append([k, real_encoding_normal_form(v, ids, True)])
            else:
                out.append([k, real_encoding_normal_form(v, ids)])
        return ["__obj", out]
    if isinstance(d, list):
        return [real_encoding_normal_form(v, ids) for v in d]
    if isinstance(d, float):
        return {"__f": fcode(d)}
    return d


def _is_obj(x):
    return isinstance(x, list) and len(x) == 2 and x[0] == "__obj" and isinstance(x[1], list)


def model_encoding_normal_form(m):
    """the model writes an `__id` on every definition and marks every list; the real encoder does so only for objects
    that are referenced again: drop the ids nobody refers to"""
    referenced = set()

    def collect(x, payload=False):
        if _is_obj(x):
            kv = dict((k, v) for k, v in x[1])
            if not payload and kv.get("__type") == "ref":
                referenced.add(kv.get("__id"))
            for k, v in x[1]:
                collect(v, (not payload) and k == "value" and _is_obj(v))
        elif isinstance(x, list):
            for v in x:
                collect(v)

    def strip(x, payload=False):
        if _is_obj(x):
            if payload:
                return ["__obj", [[k, strip(v)] for k, v in x[1]]]
            kv = dict((k, v) for k, v in x[1])
            fields = []
            for k, v in x[1]:
                if k == "__id" and kv.get("__type") != "ref" and v not in referenced:
                    continue
                fields.append([k, strip(v, k == "value" and _is_obj(v))])
            return ["__obj", fields]
        if isinstance(x, list):
            if len(x) == 1 and _is_obj(x[0]):
                kv = dict((k, v) for k, v in x[0][1])
                if kv.get("__type") == "list" and "__id" in kv and kv.get("__id") not in referenced:
                    return [strip(v) for v in kv["value"]]
            return [strip(v) for v in x]
        return x

    collect(m)
    return strip(m)
