"""C17 environment: scripted LLM, deterministic embeddings, configurations of every generation mode,
a CPU-time watchdog (a hostile completion may send the Colang 1.0 parser into an endless loop), and
the runners that drive the real `LLMRails.generate`.
"""
import asyncio
import contextlib
import hashlib
import io
import json
import logging
import os
import re
import signal
import sys
import warnings
from typing import Any, List, Mapping, Optional

REPO = os.environ.get("VERIF_REPO", "/repo")

_READY = False


class Hang(BaseException):
    """raised by the watchdog inside the looping code (BaseException: `except Exception` must not swallow it)"""


def _on_vtalrm(signum, frame):
    raise Hang()


@contextlib.contextmanager
def cpu_watchdog(seconds):
    """ITIMER_VIRTUAL counts CPU time of this process only (the runner owns SIGALRM)."""
    old = signal.signal(signal.SIGVTALRM, _on_vtalrm)
    signal.setitimer(signal.ITIMER_VIRTUAL, seconds)
    try:
        yield
    finally:
        signal.setitimer(signal.ITIMER_VIRTUAL, 0)
        signal.signal(signal.SIGVTALRM, old)


def setup():
    """imports + registration, once per worker process"""
    global _READY, ScriptLLM
    if _READY:
        return
    warnings.filterwarnings("ignore")
    logging.disable(logging.CRITICAL)
    tests = os.path.join(REPO, "tests")
    if tests not in sys.path:
        sys.path.insert(0, tests)
    from langchain_core.language_models.llms import LLM

    from nemoguardrails.embeddings.providers import register_embedding_provider
    from nemoguardrails.embeddings.providers.base import EmbeddingModel

    class FakeEmb(EmbeddingModel):
        engine_name = "fakeemb"

        def __init__(self, embedding_model=None, **kw):
            self.model = embedding_model
            self.embedding_size = 8

        def encode(self, documents):
            out = []
            for d in documents:
                h = hashlib.md5(d.encode("utf-8", "replace")).digest()
                out.append([b / 255.0 for b in h[:8]])
            return out

        async def encode_async(self, documents):
            return self.encode(documents)

    try:
        register_embedding_provider(FakeEmb, "fakeemb")
    except Exception:  # noqa  already registered
        pass

    class _ScriptLLM(LLM):
        """serves `responses[i]` at call i, `fallback` afterwards; records the number of calls"""

        responses: List
        fallback: str = ""
        i: int = 0

        @property
        def _llm_type(self) -> str:
            return "verif-script"

        def _next(self):
            r = self.responses[self.i] if self.i < len(self.responses) else self.fallback
            self.i += 1
            return r

        def _call(self, prompt, stop=None, run_manager=None, **kwargs) -> str:
            return self._next()

        async def _acall(self, prompt, stop=None, run_manager=None, **kwargs) -> str:
            return self._next()

        @property
        def _identifying_params(self) -> Mapping[str, Any]:
            return {}

    ScriptLLM = _ScriptLLM
    _READY = True


ScriptLLM = None

MODELS = """
models:
  - type: main
    engine: openai
    model: %s
  - type: embeddings
    engine: fakeemb
    model: fake
"""

SECRET = "S3CR3T-VALUE-7f"

V1_DIALOG_CO = '''
define user express greeting
  "hello"
  "hi"

define user ask name
  "what is your name"

define user ask weather
  "how is the weather"

define bot express greeting
  "Hello, there!"

define bot inform templated
  "Total {{ 2 + 3 }} for $known"

define flow
  user express greeting
  bot express greeting

define flow
  user ask name
  bot inform name

define flow
  user ask weather
  $city = ...
  bot inform weather
'''

V1_GENERAL_CO = ""

# stored-then-quoted: predefined messages that quote a context variable which holds LLM-produced text
#   $last_bot_message     the previous (possibly LLM-written) reply          -> needs a later turn
#   $name                 a value the LLM produced at the generate_value call (`$name = ...`)
#   $answer               the result of an action that returns what the LLM said
# in the `$var` shorthand and in the `{{ var }}` form, plus the `bot $var` step.
QUOTE_PREFIX = "Sure, I said: "
QUOTE2_PREFIX, QUOTE2_SUFFIX = "Again: ", " (end)"
V1_QUOTE_CO = '''
define user express greeting
  "hello"

define user ask to repeat
  "can you repeat that"

define user ask to repeat again
  "once more"

define user introduce self
  "my name is John"

define user ask recap
  "recap"

define user ask raw name
  "say my name"

define user ask lookup
  "look it up"

define bot express greeting
  "Hello, there!"

define bot repeat last message
  "Sure, I said: $last_bot_message"

define bot repeat last message again
  "Again: {{ last_bot_message }} (end)"

define bot greet by name
  "Nice to meet you, $name!"

define bot recap
  "You are $name; I said {{ last_bot_message }}."

define bot report lookup
  "Lookup says: $answer"

define flow
  user express greeting
  bot express greeting

define flow
  user ask to repeat
  bot repeat last message

define flow
  user ask to repeat again
  bot repeat last message again

define flow
  user introduce self
  $name = ...
  bot greet by name

define flow
  user ask recap
  bot recap

define flow
  user ask raw name
  $name = ...
  bot $name

define flow
  user ask lookup
  $answer = execute llm_lookup
  bot report lookup
'''

# phase 5: flows in which the LLM-written message is a LATER utterance of the call (after a predefined one), and the documented
# `bot remove last message` convention (a predefined message whose text is the control script of generate_async)
V1_CTRL_CO = '''
define user express greeting
  "hello"

define user ask two things
  "two things"

define user ask and retract
  "say and retract"

define user ask three things
  "three things"

define bot express greeting
  "Hello, there!"

define bot remove last message
  "(remove last message)"

define flow
  user express greeting
  bot express greeting

define flow
  user ask two things
  bot express greeting
  bot inform second

define flow
  user ask and retract
  bot inform first
  bot remove last message
  bot inform third

define flow
  user ask three things
  bot inform first
  bot inform second
  bot express greeting
'''

V2_INTENT_CO = '''
import core
import llm

flow main
  global $secret
  $secret = "S3CR3T-VALUE-7f"
  activate llm continuation
  activate greeting
  activate other reactions

flow greeting
  user expressed greeting
  bot say "Hello world!"

flow other reactions
  user expressed to be bored
  bot say "No problem!"

flow user expressed greeting
  """User expressed greeting in any way or form."""
  user said "hi"

flow user expressed to be bored
  """User expressed to be bored."""
  user said "This is boring"
'''

V2_VALUE_CO = '''
import core
import llm

flow main
  global $secret
  $secret = "%s"
  match UtteranceUserActionFinished()
  $v = ..."Extract the topic the user talks about"
  await UtteranceBotAction(script="got: {$v}")
  match UtteranceUserActionFinished()
  await UtteranceBotAction(script="second turn")
''' % SECRET

V2_UTTER_CO = '''
import core
import llm

flow main
  global $secret
  $secret = "%s"
  activate continuation on unhandled user utterance
  activate greeting

flow greeting
  user expressed greeting
  bot say "Hello world!"

flow user expressed greeting
  """User expressed greeting in any way or form."""
  user said "hi"
''' % SECRET

# 2.x stored-then-quoted: a generated value uttered directly (`bot say $v`), through a copy, and (known finding) interpolated
V2_QUOTE_CO = '''
import core
import llm

flow main
  global $secret
  $secret = "%s"
  match UtteranceUserActionFinished()
  $v = ..."Extract the topic the user talks about"
  bot say $v
  match UtteranceUserActionFinished()
  $w = $v
  bot say $w
  match UtteranceUserActionFinished()
  bot say "again: {$v}"
''' % SECRET

# 2.x: value generation is reached three times in one conversation (the `...` operator; the action called directly; the
# library flow `bot say something like`); the first value is also kept in a global variable and, together with the second, in a list
# (shared references in the serialised state)
V2_VALUE2_CO = '''
import core
import llm

flow main
  global $secret
  $secret = "%s"
  global $kept
  match UtteranceUserActionFinished()
  $v = ..."Extract the topic the user talks about"
  $kept = $v
  await UtteranceBotAction(script="got: {$v}")
  match UtteranceUserActionFinished()
  $w = await GenerateValueAction(var_name="w", instructions="Extract the topic the user talks about now")
  $both = [$v, $w, $kept]
  await UtteranceBotAction(script="second: {$w}")
  match UtteranceUserActionFinished()
  bot say something like "Goodbye"
  match UtteranceUserActionFinished()
  await UtteranceBotAction(script="fourth turn")
''' % SECRET

V2_YAML = 'colang_version: "2.x"\n' + MODELS


def v1_config(mode, model="gpt-3.5-turbo-instruct"):
    from nemoguardrails import RailsConfig

    extra = ""
    co = V1_DIALOG_CO
    if mode == "multi_step":
        extra = "enable_multi_step_generation: True\n"
    elif mode == "general":
        co = V1_GENERAL_CO
    elif mode == "passthrough":
        co = V1_GENERAL_CO
        extra = "passthrough: True\n"
    elif mode in ("dialog_q", "single_call_q"):
        co = V1_QUOTE_CO
    elif mode in ("dialog_c", "single_call_c"):
        co = V1_CTRL_CO
    elif mode == "multi_step_c":
        co = V1_CTRL_CO
        extra = "enable_multi_step_generation: True\n"
    with contextlib.redirect_stdout(io.StringIO()):
        cfg = RailsConfig.from_content(co, extra + MODELS % model)
    if mode in ("single_call", "single_call_q", "single_call_c"):
        cfg.rails.dialog.single_call.enabled = True
    return cfg


def v2_config(mode, model="gpt-3.5-turbo-instruct"):
    from nemoguardrails import RailsConfig

    co = {"v2_intent": V2_INTENT_CO, "v2_flowgen": V2_INTENT_CO, "v2_value": V2_VALUE_CO, "v2_utter": V2_UTTER_CO, "v2_quote": V2_QUOTE_CO, "v2_value2": V2_VALUE2_CO}[mode]
    with contextlib.redirect_stdout(io.StringIO()):
        return RailsConfig.from_content(co, V2_YAML % model)


V1_MODES = ["dialog", "single_call", "multi_step", "general", "passthrough", "dialog_q", "single_call_q", "dialog_c", "single_call_c", "multi_step_c"]
V2_MODES = ["v2_intent", "v2_flowgen", "v2_value", "v2_utter", "v2_quote", "v2_value2"]


async def llm_lookup(llm):
    """an application action whose result is what the LLM said (`$answer = execute llm_lookup`)"""
    from nemoguardrails.actions.llm.utils import llm_call

    return await llm_call(llm, "lookup")


_APP_CACHE = {}


def make_app(mode, responses, fallback, model="gpt-3.5-turbo-instruct", fresh=False, verbose=False):
    """One LLMRails instance per (mode, model) and worker process, reset between conversations:
    the script of the fake LLM, the events-history cache and (1.0) the flow table, which multi-step
    generation extends with dynamic flows.  `fresh=True` builds a new instance (replay, shrinking)."""
    from nemoguardrails import LLMRails

    setup()
    key = (mode, model, verbose)
    if fresh or key not in _APP_CACHE:
        cfg = v2_config(mode, model) if mode.startswith("v2") else v1_config(mode, model)
        llm = ScriptLLM(responses=list(responses), fallback=fallback)
        with contextlib.redirect_stdout(io.StringIO()):
            app = LLMRails(cfg, llm=llm, verbose=True) if verbose else LLMRails(cfg, llm=llm)
        if mode.startswith("v2"):
            app.runtime.disable_async_execution = True
        if mode in ("dialog_q", "single_call_q"):
            app.register_action(llm_lookup, "llm_lookup")
        pristine = dict(app.runtime.flow_configs) if not mode.startswith("v2") else None
        if fresh:
            return app, llm
        _APP_CACHE[key] = (app, llm, pristine)
    app, llm, pristine = _APP_CACHE[key]
    llm.responses = list(responses)
    llm.fallback = fallback
    llm.i = 0
    app.events_history_cache.clear()
    if pristine is not None:
        app.runtime.flow_configs = dict(pristine)
    return app, llm


ALL_LOG_OPTIONS = {"log": {"activated_rails": True, "llm_calls": True, "internal_events": True, "colang_history": True}, "output_vars": True, "llm_output": True}
# "nocache": the implicit events-history cache is empty at every call - a second LLMRails instance / a restarted server gets the
# same message history and has to rebuild the events from the messages (incl. the earlier, LLM-written, assistant messages)
# "retctx": the deprecated `return_context=True` (returns a pair message, context)
APIS_V1 = ["messages", "options", "prompt", "state", "stream", "verbose", "nocache", "retctx"]
APIS_V2 = ["state", "verbose"]


def _one_response(res):
    """the single message of a GenerationResponse (anything else is reported as it is: the oracle calls it malformed)"""
    r = getattr(res, "response", res)
    if isinstance(r, list) and len(r) == 1:
        return r[0]
    return {"malformed-response": repr(r)[:200]}


def _call(app, mode, api, msg, hist, state):
    """one turn through the public interface `api`; returns (reply, new state)"""
    if mode.startswith("v2"):
        res = app.generate(messages=[{"role": "user", "content": msg}], state=state)
        return res.response, res.state
    if api in ("messages", "verbose", "nocache"):
        if api == "nocache":
            app.events_history_cache.clear()
        hist.append({"role": "user", "content": msg})
        return app.generate(messages=hist), state
    if api == "options":
        hist.append({"role": "user", "content": msg})
        res = app.generate(messages=hist, options=dict(ALL_LOG_OPTIONS))
        str(res.output_data), str(res.log)  # assembled from the same events: they must be there and printable
        return _one_response(res), state
    if api == "retctx":
        hist.append({"role": "user", "content": msg})
        with warnings.catch_warnings():
            warnings.simplefilter("ignore")
            r = app.generate(messages=hist, return_context=True)
        if isinstance(r, tuple) and len(r) == 2 and isinstance(r[1], dict):
            return r[0], state
        return {"malformed-response": repr(r)[:200]}, state
    if api == "prompt":
        r = app.generate(prompt=msg)
        return ({"role": "assistant", "content": r} if isinstance(r, str) else {"malformed-response": repr(r)[:200]}), state
    if api == "state":
        res = app.generate(messages=[{"role": "user", "content": msg}], state=state)
        return _one_response(res), res.state
    if api == "stream":
        from nemoguardrails.streaming import StreamingHandler

        hist.append({"role": "user", "content": msg})

        async def go():
            h = StreamingHandler()
            return await asyncio.wait_for(app.generate_async(messages=hist, streaming_handler=h), timeout=30)

        loop = asyncio.new_event_loop()
        try:
            return loop.run_until_complete(go()), state
        finally:
            loop.close()
    raise ValueError(api)


def v2_state_problem(state, full):
    """None, or what is wrong with the state object a 2.x turn returned: it must be the JSON serialisation of the runtime state
    (`{"state": <json text>, "version": "2.x"}`) and - `full` - restorable (the next turn, possibly of another process, starts from it;
    for every turn but the last one the next `generate` call of the conversation does exactly that)"""
    if not (isinstance(state, dict) and state.get("version") == "2.x" and isinstance(state.get("state"), str)):
        return f"not a serialised 2.x state: {repr(state)[:120]}"
    if not re.match(r'\{\s*"__type":\s*"State"', state["state"]):
        return f"not an encoded State: {state['state'][:120]!r}"
    if full:
        from nemoguardrails.colang.v2_x.runtime.serialization import json_to_state

        try:
            st = json_to_state(state["state"])
        except Exception as e:  # noqa
            return f"json_to_state refuses it: {type(e).__name__}: {str(e)[:80]}"
        if type(st).__name__ != "State":
            return f"json_to_state restores a {type(st).__name__}"
    return None


def run_conversation(mode, turns, responses, fallback, context=None, per_turn_cpu=8.0, model="gpt-3.5-turbo-instruct", api=None, full_state_check=False, fresh=False):
    """Drive the real `LLMRails.generate` turn by turn through the public interface `api` (plain messages, generation options with
    every log switched on, `prompt=`, an explicit `state`, a streaming handler, an instance created with `verbose=True`).
    Returns per-turn observations:
    {"reply": <returned object, JSON-able>} | {"raised": "Type: msg", "where": "file:func"} | {"hang": True}."""
    out = {"turns": [], "llm_calls": 0}
    api = api or ("state" if mode.startswith("v2") else "messages")
    verbose = api == "verbose"
    try:
        with cpu_watchdog(per_turn_cpu), contextlib.redirect_stdout(io.StringIO()):
            app, llm = make_app(mode, responses, fallback, model, verbose=verbose, fresh=fresh)
    except Hang:
        out["setup"] = "hang"
        return out
    hist = []
    if context and not mode.startswith("v2") and api not in ("prompt", "state"):
        hist.append({"role": "context", "content": dict(context)})
    state = {}
    for msg in turns:
        rec = {}
        try:
            with cpu_watchdog(per_turn_cpu), contextlib.redirect_stdout(io.StringIO()):
                if verbose:
                    logging.disable(logging.NOTSET)  # the verbose handler only sees records when logging is on
                try:
                    r, state = _call(app, mode, api, msg, hist, state)
                finally:
                    if verbose:
                        logging.disable(logging.CRITICAL)
                rec["reply"] = r
                if mode.startswith("v2"):
                    sp = v2_state_problem(state, full_state_check and msg is turns[-1])
                    if sp:
                        rec["state_problem"] = sp
                if not mode.startswith("v2") and isinstance(r, dict) and api not in ("prompt", "state"):
                    hist.append(r)
        except Hang as e:
            import traceback

            rec["hang"] = True
            frames = [f for f in traceback.extract_tb(e.__traceback__) if "nemoguardrails" in f.filename]
            names = [f.name for f in frames]
            rec["through"] = names[:8]
            outer = [f for f in frames if "/lang/" not in f.filename and not f.filename.endswith("colang/__init__.py")]
            rec["where"] = f"{os.path.basename(outer[-1].filename)}:{outer[-1].name}" if outer else "?"
            rec["via_start_flow"] = "_process_start_flow" in names
        except BaseException as e:  # noqa  -- the property: never raises
            import traceback

            tb = traceback.extract_tb(e.__traceback__)
            frames = [f for f in tb if "nemoguardrails" in f.filename]
            last = frames[-1] if frames else (tb[-1] if tb else None)
            rec["raised"] = f"{type(e).__name__}: {str(e)[:160]}"
            rec["exc_type"] = type(e).__name__
            rec["where"] = f"{os.path.basename(last.filename)}:{last.name}" if last else "?"
            through = [f.name for f in tb if "nemoguardrails" in f.filename]
            rec["through"] = through[-6:]
            rec["via_start_flow"] = "_process_start_flow" in through
        out["turns"].append(rec)
        if "reply" not in rec:
            break
    out["llm_calls"] = llm.i
    return out
