"""C13, case kind `cfg`: RailsConfig.from_path on a whole configuration DIRECTORY (several .co files + config.yml + imports).

The property speaks about *loading the configuration*: "for any text content of a Colang file whatsoever, loading the
configuration either succeeds or raises the library's Colang parsing error that names the file - never another exception type
and never a hang".  A legal file content can contain `import` statements - repeated, circular, of the standard library, of
local modules, of something that does not exist - and then the loader's import fix-point loops
(`_load_imported_paths`, `_parse_colang_files_recursively`, `_join_config`) decide whether loading ends.

A case is a small file tree:
    files  [[relative path, text], ...]   the configuration directory (config.yml is written from `yml_imports`)
    lib    [[relative path, text], ...]   a directory that is on the COLANGPATH (local modules: files, packages, nested packages,
                                          packages with their own config.yml)
    mode   "colangpath" | "cwd"           how the local modules are found (COLANGPATH entry / relative to the working directory)
    variant None | {...}                  a second tree derived from the first by an edit that cannot change the meaning:
        dup     one import line of a file written once more (adjacent / apart / at the end of the file)
        perm    the import lines of a file in another order
        xdup    an import line of one file copied into another file of the tree (config or library)
        ymldup  an entry of config.yml's import_paths listed twice
        yml2co  an import listed in config.yml also written in a .co file
        layout  blank line / trailing blanks / end-of-line comment / CRLF at the import lines (the layout edits of the property,
                through from_path)
Each tree is loaded in a forked child under a CPU-time limit (a spinning loop is recognised independently of the machine load)
and a wall-clock limit.

Oracle (written from the property statement):
  * each load ends in time, and either succeeds or raises ColangParsingError naming a .co file of the tree / of the library;
  * (meaning) the variant loads iff the base loads, and to the same flows: identical list for dup / ymldup / layout
    (nothing but an already-known import is added), the same multiset of flows for perm / xdup / yml2co (the order of the
    files changes).
"""
import contextlib
import hashlib
import io
import json
import os
import random
import re
import resource
import select
import shutil
import signal
import tempfile
import time
import traceback

CPU_LIMIT = int(os.environ.get("VERIF_C13_CFG_CPU", "3"))      # seconds of CPU time per load (a normal load needs < 1 s)
WALL_LIMIT = float(os.environ.get("VERIF_C13_CFG_WALL", "90"))  # seconds of wall clock (sleeping hang / overloaded machine)

FUEL = 2000  # driver fuel for ImportLoop.fromPath; the bound of config_load_terminates (files + paths + 4) must stay below

STD = ["core", "llm", "timing", "avatars", "guardrails", "passthrough"]
STD_W = ["core", "core", "core", "llm", "timing", "timing", "avatars", "guardrails", "passthrough"]

# ------------------------------------------------------------------------------------------------ generator


def _flow_v2(rng, name, calls=()):
    ev = rng.choice(["Ev", "A", "B", "UtteranceUserActionFinished"])
    body = [f"  match {ev}(x={rng.randrange(5)})"]
    for c in calls:
        body.append(f"  await {c}")
    if rng.random() < 0.4:
        body.append(f'  send StartUtteranceBotAction(script="{name}")')
    return f"flow {name}\n" + "\n".join(body) + "\n"


def _render_v2(rng, imports, flows, late=None):
    """import lines first (optionally a blank line / comment line between them), flows after; `late` imports after the flows"""
    out = []
    for i, imp in enumerate(imports):
        out.append("import " + imp)
    text = "\n".join(out) + ("\n\n" if out else "")
    text += "\n".join(flows)
    if late:
        text += "\n" + "\n".join("import " + x for x in late) + "\n"
    return text


def gen_cfg_v2(rng):
    # ---- the local library: modules mods/a.co ..., a package pkg/ (directory with several files, maybe its own config.yml)
    mod_names = rng.sample(["mods/a", "mods/b", "mods/sub/c", "solo", "mods/d"], rng.randrange(0, 5))
    has_pkg = rng.random() < 0.4
    local = list(mod_names) + (["pkg"] if has_pkg else []) + (["mods"] if any(m.startswith("mods/") for m in mod_names) and rng.random() < 0.3 else [])
    pool = STD_W + local * 3

    def dotted(p):
        return p.replace("/", ".")

    def pick_imports(n, missing_ok=True):
        out = []
        for _ in range(n):
            r = rng.random()
            if out and r < 0.14:
                out.append(rng.choice(out))  # the same import once more
            elif missing_ok and r < 0.2:
                out.append(rng.choice(["nosuch", "mods.nosuch", '"mods/a"', '"core"']))  # unresolvable (string form keeps its quotes)
            else:
                out.append(dotted(rng.choice(pool)))
        return out

    lib = []
    fl_counter = [0]

    def fresh(prefix):
        fl_counter[0] += 1
        return prefix + "abcdefghijklmnopqrstuvwxyz"[fl_counter[0] % 26] * (1 + fl_counter[0] // 26)

    shared_name = "shared flow"
    for m in mod_names:
        # cycles and self-imports are welcome: modules import each other at random
        imps = pick_imports(rng.choice([0, 0, 1, 1, 2, 3]), missing_ok=rng.random() < 0.06)
        if rng.random() < 0.15:
            imps.append(dotted(m))  # imports itself
        flows = [_flow_v2(rng, fresh("lib "))]
        if rng.random() < 0.2:
            flows.append(_flow_v2(rng, shared_name))
        lib.append([m + ".co", _render_v2(rng, imps, flows, late=pick_imports(1, False) if rng.random() < 0.15 else None)])
    if "mods" in local and rng.random() < 0.5:
        # a module FILE next to the package directory of the same name: the directory wins (it is looked up first)
        lib.append(["mods.co", _render_v2(rng, [], [_flow_v2(rng, fresh("modsfile "))])])
    if has_pkg:
        for fn in rng.sample(["pkg/one.co", "pkg/two.co", "pkg/inner/three.co", "pkg/main.co", "pkg/inner/one.co"], rng.randrange(1, 5)):
            lib.append([fn, _render_v2(rng, pick_imports(rng.choice([0, 1, 2]), False), [_flow_v2(rng, fresh("pkg "))])])
        if rng.random() < 0.4:
            ents = [rng.choice(pool) for _ in range(rng.randrange(1, 4))]
            if rng.random() < 0.25:
                ents.append(rng.choice(ents))
            lib.append(["pkg/config.yml", "import_paths:\n" + "".join(f"  - {e}\n" for e in ents)])
    # ---- the configuration directory
    files = []
    n_files = rng.choice([1, 1, 2, 2, 3])
    names = ["main.co"] + rng.sample(["rails.co", "flows/extra.co", "a.co", "zz/last.co", "flows/main.co", "one.co"], n_files - 1)
    bad_file = rng.random() < 0.12
    for i, fn in enumerate(names):
        imps = pick_imports(rng.choice([0, 1, 1, 2, 2, 3, 4]), missing_ok=rng.random() < 0.12)
        flows = [_flow_v2(rng, "main" if i == 0 else fresh("cfg "))]
        if rng.random() < 0.3:
            flows.append(_flow_v2(rng, fresh("cfg ")))
        if rng.random() < 0.12:
            flows.append(_flow_v2(rng, shared_name))
        text = _render_v2(rng, imps, flows, late=pick_imports(1, False) if rng.random() < 0.15 else None)
        files.append([fn, text])
    if bad_file:
        # a file that does not parse: in the configuration directory or in an imported module
        tgt = rng.choice(files + [f for f in lib if f[0].endswith(".co")])
        tgt[1] = tgt[1] + rng.choice(["flow broken\n  match (\n", "  stray indent\n", "flow x\n  send Ev(x=1, 2)\n", "flow\n", '"""\n'])
    yml = None
    if rng.random() < 0.3:
        yml = [rng.choice(pool) for _ in range(rng.randrange(1, 4))]
        # the same module under a second spelling (`mods/a` and `mods/a.co` resolve to the same file)
        yml = [y + ".co" if y in mod_names and rng.random() < 0.3 else y for y in yml]
        if rng.random() < 0.25:
            yml.append(rng.choice(yml))
    return {"kind": "cfg", "version": "2.x", "files": files, "lib": lib, "yml_imports": yml,
            "mode": "cwd" if rng.random() < 0.1 else "colangpath", "api": "path"}


def _flow_v1(rng, name):
    return f"define flow {name}\n  user express greeting\n  bot express greeting {rng.randrange(4)}\n"


def gen_cfg_v1(rng):
    """Colang 1.0 directory: several .co files, the same flow / message in two files, config.yml import_paths pointing at 1.0
    library directories (repeated, circular through their own config.yml)"""
    lib = []
    dirs = rng.sample(["shared", "more/rails", "third"], rng.randrange(0, 4))
    for d in dirs:
        lib.append([d + "/x.co", _flow_v1(rng, d.replace("/", " ") + " flow") + 'define user express greeting\n  "hello"\n'])
        if rng.random() < 0.5:
            ents = [rng.choice(dirs) for _ in range(rng.randrange(1, 3))]
            if rng.random() < 0.2:
                ents.append(rng.choice(ents))
            lib.append([d + "/config.yml", "import_paths:\n" + "".join(f"  - {e}\n" for e in ents)])
    files = []
    for fn in ["main.co"] + rng.sample(["b.co", "sub/c.co"], rng.randrange(0, 3)):
        text = _flow_v1(rng, fn.replace("/", " ").replace(".co", "")) + 'define bot express greeting 0\n  "Hi"\n'
        if rng.random() < 0.3:
            text += _flow_v1(rng, "same")
        if rng.random() < 0.2:
            text = "import shared\n" + text  # 1.0 records `import` lines without loading anything
        if rng.random() < 0.1:
            text += rng.choice(['define flow\n', 'define user x\n  "a\n', "  stray\n", "define bot q\n  -\n"])
        files.append([fn, text])
    yml = None
    if dirs and rng.random() < 0.8:
        yml = [rng.choice(dirs + ["nosuchdir"] if rng.random() < 0.1 else dirs) for _ in range(rng.randrange(1, 4))]
        if rng.random() < 0.25:
            yml.append(rng.choice(yml))
    return {"kind": "cfg", "version": "1.0", "files": files, "lib": lib, "yml_imports": yml, "mode": "cwd" if rng.random() < 0.3 else "colangpath", "api": "path"}


IMPORT_RE = re.compile(r"^import[ \t]+\S.*$")


def import_lines(text):
    return [i for i, l in enumerate(text.split("\n")) if IMPORT_RE.match(l.rstrip("\r"))]


def gen_variant(rng, case):
    """an edit of the tree that cannot change what the configuration means (or None)"""
    co = [(i, "files") for i, f in enumerate(case["files"]) if f[0].endswith(".co")] + [(i, "lib") for i, f in enumerate(case["lib"]) if f[0].endswith(".co")]
    with_imp = [(i, w) for i, w in co if import_lines(case[w][i][1])]
    ops = []
    if with_imp and case["version"] == "2.x":
        ops += ["dup", "dup", "dup", "perm", "xdup", "layout", "layout"]
    if case.get("yml_imports"):
        ops += ["ymldup", "ymldup"] + (["yml2co"] if case["version"] == "2.x" else [])
    if not ops:
        return None
    op = rng.choice(ops)
    if op in ("dup", "perm", "layout", "xdup"):
        i, w = rng.choice(with_imp)
        n = len(import_lines(case[w][i][1]))
        v = {"op": op, "where": w, "file": i}
        if op == "dup":
            v.update(k=rng.randrange(n), to=rng.choice(["next", "next", "top", "end", "after-all"]))
        elif op == "perm":
            v.update(seed=rng.randrange(1000))
        elif op == "layout":
            v.update(k=rng.randrange(n), edit=rng.choice(["blank", "blank-ws", "trail", "comment", "crlf", "blank-before"]))
        else:
            j, w2 = rng.choice(co)
            v.update(k=rng.randrange(n), to_where=w2, to_file=j)
        return v
    if op == "ymldup":
        n = len(case["yml_imports"])
        return {"op": "ymldup", "k": rng.randrange(n), "to": rng.randrange(n + 1)}
    j, w2 = rng.choice([c for c in co if c[1] == "files"] or co)
    return {"op": "yml2co", "k": rng.randrange(len(case["yml_imports"])), "to_where": w2, "to_file": j}


def apply_variant(case, v):
    """-> (files, lib, yml_imports) of the variant tree, or None when the edit does not apply (after shrinking)"""
    files = [list(f) for f in case["files"]]
    lib = [list(f) for f in case["lib"]]
    yml = list(case["yml_imports"]) if case.get("yml_imports") else case.get("yml_imports")
    tree = {"files": files, "lib": lib}
    op = v["op"]
    try:
        if op in ("dup", "perm", "layout", "xdup"):
            f = tree[v["where"]][v["file"]]
            lines = f[1].split("\n")
            il = import_lines(f[1])
            if not il:
                return None
            if op == "dup":
                src = il[v["k"] % len(il)]
                line = lines[src]
                to = v["to"]
                if to == "next":
                    lines.insert(src + 1, line)
                elif to == "top":
                    lines.insert(il[0], line)
                elif to == "after-all":
                    lines.insert(il[-1] + 1, line)
                else:
                    if lines and lines[-1] == "":
                        lines.insert(len(lines) - 1, line)
                    else:
                        lines.append(line)
            elif op == "perm":
                vals = [lines[i] for i in il]
                r = random.Random(v["seed"])
                p = vals[:]
                r.shuffle(p)
                if p == vals:
                    p = vals[1:] + vals[:1]
                for i, x in zip(il, p):
                    lines[i] = x
            elif op == "layout":
                at = il[v["k"] % len(il)]
                e = v["edit"]
                if e == "blank":
                    lines.insert(at + 1, "")
                elif e == "blank-ws":
                    lines.insert(at + 1, "   ")
                elif e == "blank-before":
                    lines.insert(at, "")
                elif e == "trail":
                    lines[at] = lines[at] + "   "
                elif e == "comment":
                    lines[at] = lines[at] + "  # the standard library"
                elif e == "crlf":
                    lines = [l + "\r" if i < len(lines) - 1 else l for i, l in enumerate(lines)]
            else:
                line = lines[il[v["k"] % len(il)]]
                g = tree[v["to_where"]][v["to_file"]]
                g[1] = line + "\n" + g[1]
                if g is f:
                    lines = g[1].split("\n")
            if op != "xdup" or tree[v["to_where"]][v["to_file"]] is f:
                f[1] = "\n".join(lines)
        elif op == "ymldup":
            if not yml:
                return None
            yml.insert(v["to"] % (len(yml) + 1), yml[v["k"] % len(yml)])
        elif op == "yml2co":
            if not yml:
                return None
            g = tree[v["to_where"]][v["to_file"]]
            g[1] = "import " + yml[v["k"] % len(yml)].replace("/", ".") + "\n" + g[1]
        else:
            return None
    except (IndexError, KeyError):
        return None
    return files, lib, yml


EXACT_OPS = ("dup", "ymldup", "layout")

# ------------------------------------------------------------------------------------------------ running


def _write_tree(root, files, lib, yml, version):
    cfg = os.path.join(root, "config")
    libd = os.path.join(root, "lib")
    os.makedirs(cfg)
    os.makedirs(libd)
    y = 'colang_version: "2.x"\nmodels: []\n' if version == "2.x" else "models: []\n"
    if yml:
        y += "import_paths:\n" + "".join(f"  - {e}\n" for e in yml)
    with open(os.path.join(cfg, "config.yml"), "w") as f:
        f.write(y)
    for base, lst in ((cfg, files), (libd, lib)):
        for rel, text in lst:
            p = os.path.join(base, rel)
            os.makedirs(os.path.dirname(p), exist_ok=True)
            with open(p, "w", encoding="utf-8", newline="") as f:
                f.write(text)
    return cfg, libd


def _digest(x):
    return hashlib.md5(json.dumps(x, sort_keys=True, ensure_ascii=False, default=str).encode("utf-8", "surrogatepass")).hexdigest()[:12]


def _load_in_child(cfg, libd, mode, api, canon_ast, root):
    """runs in the forked child"""
    from nemoguardrails import RailsConfig
    from nemoguardrails.colang.v2_x.runtime.errors import ColangParsingError
    import nemoguardrails.rails.llm.config as cfgmod

    # (the same child loads several trees one after the other: the adapter's own patches are undone in `finally`; whatever the
    # LOADER leaves behind in the process stays - that is what the second load is there to see)
    old_cwd = os.getcwd()
    if mode == "cwd":
        os.chdir(libd)
    else:
        cfgmod.colang_path_dirs.insert(0, libd)  # what COLANGPATH=<libd> gives at import time
    order = []
    orig = cfgmod.parse_colang_file

    def recording(filename, *a, **k):
        order.append(filename)
        return orig(filename, *a, **k)

    cfgmod.parse_colang_file = recording

    def short(p):
        p = str(p)
        return p.replace(root + os.sep, "")

    try:
        with contextlib.redirect_stdout(io.StringIO()), contextlib.redirect_stderr(io.StringIO()):
            if api == "content":
                with open(os.path.join(cfg, "main.co"), encoding="utf-8", newline="") as f:
                    co = f.read()
                with open(os.path.join(cfg, "config.yml")) as f:
                    y = f.read()
                c = RailsConfig.from_content(colang_content=co, yaml_content=y)
            else:
                c = RailsConfig.from_path(cfg)
        flows = []
        for fl in c.flows:
            d = canon_ast(fl)
            name = d.get("name") or d.get("id")
            fi = getattr(fl, "file_info", None) if not isinstance(fl, dict) else None
            flows.append([name, short((fi or {}).get("name")) if fi else None, _digest(d)])
        o = {"outcome": "ok", "flows": flows, "msgs": _digest([canon_ast(c.user_messages), canon_ast(c.bot_messages)]),
             "import_paths": list(c.import_paths or []), "imported": [[k, short(v)] for k, v in (c.imported_paths or {}).items()]}
    except BaseException as e:  # noqa
        names = [f.name for f in traceback.extract_tb(e.__traceback__)]
        o = {"outcome": "raised", "cls": type(e).__name__, "is_cpe": type(e) is ColangParsingError, "msg": short(str(e))[:400],
             "site": names[-1] if names else "?", "in_wrapper": "_parse_colang_files_recursively" in names}
        inner = e.__cause__ or e.__context__
        if inner is not None:
            o["inner"] = type(inner).__name__
    finally:
        cfgmod.parse_colang_file = orig
        if mode == "cwd":
            os.chdir(old_cwd)
        elif libd in cfgmod.colang_path_dirs:
            cfgmod.colang_path_dirs.remove(libd)
    o["parsed"] = order
    return o


def in_child_cpu(fns, cpu, wall):
    """every fn() of `fns` -> JSON-able, one after the other in ONE forked child that may use `cpu` seconds of CPU time and
    `wall` seconds of wall clock; -> list of results (a stage that did not end = timeout, later stages are missing)"""
    r, w = os.pipe()
    pid = os.fork()
    if pid == 0:
        try:
            os.close(r)
            resource.setrlimit(resource.RLIMIT_CPU, (cpu, cpu + 1))
            resource.setrlimit(resource.RLIMIT_AS, (4 << 30, 4 << 30))
            with os.fdopen(w, "wb") as f:
                for fn in fns:
                    try:
                        res = fn()
                    except BaseException as e:  # noqa
                        res = {"outcome": "adapter", "cls": type(e).__name__, "msg": str(e)[:200]}
                    res["cpu_used"] = round(sum(os.times()[:2]), 2)
                    f.write(json.dumps(res, ensure_ascii=True, default=str).encode("ascii") + b"\n")
                    f.flush()
        finally:
            os._exit(0)
    os.close(w)
    buf = b""
    deadline = time.time() + wall
    timed_out = False
    with os.fdopen(r, "rb") as f:
        while True:
            left = deadline - time.time()
            if left <= 0:
                timed_out = True
                break
            ready, _, _ = select.select([f], [], [], left)
            if not ready:
                timed_out = True
                break
            chunk = os.read(f.fileno(), 1 << 16)
            if not chunk:
                break
            buf += chunk
    if timed_out:
        try:
            os.kill(pid, signal.SIGKILL)
        except OSError:
            pass
    _, status, ru = os.wait4(pid, 0)
    used = round(ru.ru_utime + ru.ru_stime, 2)
    out = []
    for line in buf.split(b"\n"):
        if line.strip():
            try:
                out.append(json.loads(line.decode("ascii")))
            except Exception:  # noqa
                out.append({"outcome": "adapter", "cls": "ChildDied", "msg": line[-200:].decode("ascii", "replace")})
    if len(out) < len(fns):
        if timed_out:
            out.append({"outcome": "timeout", "limit": f"{wall:g} s of wall clock", "cpu_used": used})
        elif os.WIFSIGNALED(status) and os.WTERMSIG(status) in (signal.SIGXCPU, signal.SIGKILL):
            out.append({"outcome": "timeout", "limit": f"{cpu} s of CPU time", "cpu_used": used})
        else:
            out.append({"outcome": "adapter", "cls": "ChildDied", "msg": f"status {status}"})
    return out


def _summary(o):
    return {k: o.get(k) for k in ("outcome", "cls", "flows", "msgs", "import_paths", "imported", "limit", "msg", "site", "is_cpe") if k in o}


def load_trees(case, vtree, canon_ast):
    """base tree (and the variant tree) on disk; child A loads base, then the variant, then base AGAIN in one process (what a
    long-running server does); child B loads the variant in a fresh process"""
    version, mode, api = case["version"], case["mode"], case.get("api", "path")
    root = tempfile.mkdtemp(prefix="c13cfg-")
    obs = {}
    try:
        os.makedirs(os.path.join(root, "b"))
        cfg, libd = _write_tree(os.path.join(root, "b"), case["files"], case["lib"], case.get("yml_imports"), version)
        stages = [lambda: _load_in_child(cfg, libd, mode, api, canon_ast, os.path.join(root, "b"))]
        if vtree is not None:
            os.makedirs(os.path.join(root, "v"))
            vcfg, vlibd = _write_tree(os.path.join(root, "v"), vtree[0], vtree[1], vtree[2], version)
            stages.append(lambda: _summary(_load_in_child(vcfg, vlibd, mode, api, canon_ast, os.path.join(root, "v"))))
        stages.append(lambda: _summary(_load_in_child(cfg, libd, mode, api, canon_ast, os.path.join(root, "b"))))
        res = in_child_cpu(stages, CPU_LIMIT, WALL_LIMIT)
        obs["base"] = res[0]
        names = (["variant_after_base"] if vtree is not None else []) + ["base_again"]
        obs["seq"] = {n: r for n, r in zip(names, res[1:])}
        if True:
            try:
                obs["base"]["world"] = world_of(cfg, libd, mode, version, os.path.join(root, "b"), canon_ast)
            except Exception as e:  # noqa
                obs["base"]["world_error"] = f"{type(e).__name__}: {e}"[:200]
        if vtree is not None and obs["base"]["outcome"] != "timeout":
            obs["variant"] = in_child_cpu([lambda: _load_in_child(vcfg, vlibd, mode, api, canon_ast, os.path.join(root, "v"))], CPU_LIMIT, WALL_LIMIT)[0]
            if True:
                try:
                    obs["variant"]["world"] = world_of(vcfg, vlibd, mode, version, os.path.join(root, "v"), canon_ast)
                except Exception as e:  # noqa
                    obs["variant"]["world_error"] = f"{type(e).__name__}: {e}"[:200]
        return obs
    finally:
        shutil.rmtree(root, ignore_errors=True)


# ------------------------------------------------------------------------------------------------ the world of the Lean model

_PARSE_CACHE = {}

TEXT_IMPORT = re.compile(r"^import[ \t]+([A-Za-z_]\w*(?:\.[A-Za-z_]\w*)*)[ \t]*(?:#.*)?\r?$", re.M)
STRING_IMPORT = re.compile(r"^import[ \t]+[\"']", re.M)


def text_imports(content, version):
    """the import paths of a Colang 2.x file read off its TEXT (independent of the parser): `import a.b.c` at the start of a
    line -> `a/b/c`; None when the file uses the string form (what that should resolve to is not specified)"""
    if version != "2.x":
        return []
    if STRING_IMPORT.search(content):
        return None
    return [m.group(1).replace(".", "/") for m in TEXT_IMPORT.finditer(content)]


def _file_facts(path, version, cacheable, canon_ast):
    """what the real PARSER says about one .co file on its own: its import paths and its flows (None: it does not parse);
    plus the imports read off the text"""
    from nemoguardrails.colang import parse_colang_file

    key = (path, version)
    if cacheable and key in _PARSE_CACHE:
        return _PARSE_CACHE[key]
    with open(path, encoding="utf-8", newline="") as f:
        content = f.read()
    try:
        with contextlib.redirect_stdout(io.StringIO()), contextlib.redirect_stderr(io.StringIO()):
            r = parse_colang_file("standalone-%d.co" % len(_PARSE_CACHE), content=content, version=version)
        imps = list(r.get("import_paths", []) or [])
        flows = []
        for fl in r.get("flows", []) or []:
            d = canon_ast(fl)
            flows.append([d.get("name") or d.get("id"), _digest(d) if version == "2.x" else None])
    except Exception:  # noqa
        imps, flows = None, None
    res = (imps, flows, text_imports(content, version))
    if cacheable:
        _PARSE_CACHE[key] = res
    return res


def world_of(cfg, libd, mode, version, root, canon_ast):
    """What `ImportLoop.fromPath` needs to know about the file tree, gathered WITHOUT the loader's loops: the directory walk
    (same `os.walk` on the same directory = same order), the `import_paths` of every .yml, the imports of every .co file, and
    the resolution rule (the path itself relative to the working directory, else under a COLANGPATH root, else that + ".co")."""
    import yaml
    import nemoguardrails.rails.llm.config as cfgmod

    roots = ([libd] if mode != "cwd" else []) + list(cfgmod.colang_path_dirs)
    cwd = libd if mode == "cwd" else os.getcwd()
    files = []  # id -> [name the loader passes to the parser / puts into the error message, real path]
    fimports, fflows, ftext = [], [], []

    def short(p):
        return str(p).replace(root + os.sep, "")

    def new_file(name, real):
        files.append([short(name), short(real)])
        a, b, c = _file_facts(real, version, not real.startswith(root), canon_ast)
        fimports.append(a)
        fflows.append(b)
        ftext.append(c)
        return len(files) - 1

    def walk(path, real):
        items = []
        if os.path.isdir(real):
            for r, _, fs in os.walk(real, followlinks=True):
                for f in fs:
                    full = os.path.join(r, f)
                    rel = os.path.relpath(full, real)
                    shown = os.path.join(path, os.path.relpath(full, real))
                    if rel.startswith("kb"):
                        continue
                    if f.endswith(".yml") or f.endswith(".yaml"):
                        with open(full, encoding="utf-8") as fh:
                            y = yaml.safe_load(fh.read()) or {}
                        items.append(["y", list(y.get("import_paths", []) or [])])
                    elif f.endswith(".co"):
                        items.append(["c", new_file(shown, full)])
        elif path.endswith(".co"):
            items.append(["c", new_file(path, real)])
        return items

    def resolve(p):
        if os.path.exists(os.path.join(cwd, p)):
            return p, os.path.join(cwd, p)
        for r in roots:
            if os.path.exists(os.path.join(r, p)):
                return os.path.join(r, p), os.path.join(r, p)
            if not p.endswith(".co") and os.path.exists(os.path.join(r, p + ".co")):
                return os.path.join(r, p + ".co"), os.path.join(r, p + ".co")
        return None, None

    init = walk(cfg, cfg)
    paths = {}
    todo = []

    def push(items):
        for it in items:
            # (closed under what the parser reports AND what the text says, so that the oracle's own closure stays inside)
            todo.extend(it[1] if it[0] == "y" else (fimports[it[1]] or []) + (ftext[it[1]] or []))

    push(init)
    while todo:
        p = todo.pop()
        if p in paths or not isinstance(p, str):
            continue
        actual, real = resolve(p)
        if actual is None:
            paths[p] = [None, []]
            continue
        items = walk(actual, real)
        paths[p] = [short(actual), items]
        push(items)
    return {"init": init, "paths": [[k, v[0], v[1]] for k, v in paths.items()], "files": files, "fimports": fimports, "fflows": fflows, "ftext": ftext}


def model_requests_cfg(case, obs):
    reqs = []
    for w in ("base", "variant"):
        o = obs.get(w)
        if o and "world" in o:
            wd = o["world"]
            reqs.append({"m": "C13.imports", "paths": wd["paths"], "files": [[i, x] for i, x in enumerate(wd["fimports"])], "init": wd["init"], "fuel": FUEL, "api": case.get("api", "path")})
    return reqs


def compare_cfg(case, obs, mouts):
    i = 0
    for w in ("base", "variant"):
        o = obs.get(w)
        if not (o and "world" in o):
            continue
        m = mouts[i]
        i += 1
        d = _compare_one(o, m, w, case.get("api", "path"))
        if d:
            return d
    return None


def _compare_one(o, m, what, api="path"):
    wd = o["world"]
    if api == "content" and "err" in m and m["err"][0] == "parse" and wd["files"][m["err"][1]][0].endswith("config/main.co") and o["outcome"] == "raised":
        return None  # from_content parses the main content outside the wrapper: any parser exception
    out = o["outcome"]
    pre = f"import loops ({what} tree): "
    if m.get("closed") is not True:
        return pre + "the world read off the file tree does not satisfy the hypotheses of config_load_terminates_checked (closedWorld = false)"
    if m.get("bound", 10 ** 9) > FUEL:
        return pre + f"fuel bound of config_load_terminates ({m.get('bound')}) exceeds the fuel the driver was given ({FUEL})"
    if m.get("fuel"):
        return pre + "the ImportLoop model did not end within its fuel although the hypotheses of config_load_terminates hold"
    if out == "timeout":
        return pre + f"the model (config_load_terminates) says the loops end with {json.dumps(m)[:160]}, the real loader did not finish within {o['limit']}"
    if out == "adapter":
        return None
    if out == "ok":
        if "ok" not in m:
            return pre + f"the real loader returned, the model says {json.dumps(m)[:160]}"
        mo = m["ok"]
        if mo["import_paths"] != o["import_paths"]:
            return pre + f"import_paths: real {o['import_paths']} model {mo['import_paths']}"
        if mo["imported"] != o["imported"]:
            return pre + f"imported_paths: real {o['imported']} model {mo['imported']}"
        names = [wd["files"][f][0] for f in mo["files"][:mo["parsed"]]]
        # a walked file is passed to the parser by its base name, a single imported file by its path
        real = o.get("parsed", [])
        exp = [n if n in real else os.path.basename(n) for n in names]
        if [os.path.basename(x) for x in exp] != [os.path.basename(x) for x in real] or mo["parsed"] != len(mo["files"]):
            return pre + f"order of the parsed files: real {real} model {names}"
        return None
    # raised
    if "err" not in m:
        return pre + f"the real loader raised {o.get('cls')} ({o.get('msg', '')[:80]!r}), the model says it returns"
    e = m["err"]
    if e[0] == "unresolved":
        if o.get("cls") == "ValueError" and f"`{e[1]}`" in o.get("msg", ""):
            return None
        return pre + f"model: import path {e[1]!r} cannot be resolved; real loader raised {o.get('cls')}: {o.get('msg', '')[:100]}"
    if e[0] == "parse":
        if o.get("is_cpe") and wd["files"][e[1]][0] in o.get("msg", ""):
            return None
        return pre + f"model: file {wd['files'][e[1]][0]} does not parse (ColangParsingError naming it); real loader raised {o.get('cls')}: {o.get('msg', '')[:100]}"
    return pre + f"model says {e}, real loader raised {o.get('cls')}"


def run_cfg(case, canon_ast):
    v = case.get("variant")
    t = apply_variant(case, v) if v else None
    obs = load_trees(case, t, canon_ast)
    obs["version"] = case["version"]
    if t is not None:
        obs["vtree"] = {"files": t[0], "lib": t[1], "yml_imports": t[2]}
    return obs


# ------------------------------------------------------------------------------------------------ oracle


def _co_paths(case, tree=None):
    t = tree or case
    # (with the working directory inside the library the loader knows a local module by its relative path)
    return ["config/" + f[0] for f in t["files"] if f[0].endswith(".co")] + [("lib/" if case.get("mode") != "cwd" else "") + f[0] for f in t["lib"] if f[0].endswith(".co")]


def _one(o, what, paths, api="path"):
    out = o["outcome"]
    if api == "content" and out == "raised" and not o.get("in_wrapper"):
        # from_content parses the given main content outside the wrapper (the property is anchored in from_path, which wraps
        # every file): this mode only looks for hangs and compares flows
        return None
    if out == "ok":
        return None
    if out == "timeout":
        return f"loading the configuration ({what}) did not finish within {o['limit']} (CPU used {o.get('cpu_used')} s): a hang"
    if out == "adapter":
        return f"adapter failure ({what}) {o.get('cls')}: {o.get('msg')}"
    if o.get("is_cpe"):
        if any(p in o["msg"] for p in paths) or "/library/" in o["msg"]:
            return None
        return f"ColangParsingError ({what}) does not name a file of the configuration: {o['msg'][:160]}"
    return f"loader raised {o['cls']} (in {o['site']}) instead of ColangParsingError ({what}): {o['msg'][:160]}"


def expected_flows(wd, version):
    """The flows the configuration must load to, from the file tree alone: the .co files of the directory and of every import
    path reachable through config.yml entries and the import lines of the TEXTS (resolution by the documented rule, each
    import path once), each file parsed on its own.  None when that is not determined (an unresolvable or string-form import,
    a file that does not parse: the load has to fail then)."""
    paths = {p[0]: p for p in wd["paths"]}
    files, seen, queue = [], set(), []

    def take(items):
        for it in items:
            if it[0] == "y":
                queue.extend(it[1])
            else:
                files.append(it[1])
                if wd["ftext"][it[1]] is None:
                    return False
                queue.extend(wd["ftext"][it[1]])
        return True

    if not take(wd["init"]):
        return None
    while queue:
        p = queue.pop(0)
        if p in seen:
            continue
        seen.add(p)
        e = paths.get(p)
        if e is None or e[1] is None:
            return None
        if not take(e[2]):
            return None
    out = []
    for f in files:
        if wd["fflows"][f] is None:
            return None
        out.extend(wd["fflows"][f])
    return sorted(map(tuple, [[n, d if version == "2.x" else None] for n, d in out]), key=repr)


def _composition(o, version, what):
    if o.get("outcome") != "ok" or "world" not in o:
        return None
    exp = expected_flows(o["world"], version)
    if exp is None:
        return None
    got = sorted(map(tuple, [[n, d if version == "2.x" else None] for n, _, d in o["flows"]]), key=repr)
    if got != exp:
        missing = [x for x in exp if x not in got]
        extra = [x for x in got if x not in exp]
        return (f"the loaded configuration ({what}) does not consist of the flows of its files (each .co file of the directory and of "
                f"every imported path, parsed on its own): {len(got)} flows loaded, {len(exp)} expected; missing {missing[:3]}, unexpected {extra[:3]}")
    return None


def _same_load(a, b):
    keys = ("outcome", "cls", "flows", "msgs", "import_paths", "imported")
    for k in keys:
        if a.get(k) != b.get(k):
            return k
    return None


def oracle_cfg(case, obs):
    b = obs["base"]
    d = _one(b, "as written", _co_paths(case), case.get("api", "path"))
    if d:
        return d
    d = _composition(b, obs["version"], "as written") or _composition(obs.get("variant") or {}, obs["version"], "variant tree")
    if d:
        return d
    # the same directory loaded again in the same process, and the variant loaded after the base in the same process
    seq = obs.get("seq") or {}
    if "base_again" in seq:
        a = seq["base_again"]
        if a.get("outcome") == "timeout":
            return f"loading the same configuration a second time in the same process did not finish within {a['limit']}: a hang"
        k = _same_load(b, a)
        if k and not (seq.get("variant_after_base") or {}).get("outcome") == "timeout":
            return f"loading the same configuration directory a second time in the same process gives another result ({k}: {str(b.get(k))[:120]} vs {str(a.get(k))[:120]})"
    if "variant_after_base" in seq and obs.get("variant"):
        a = seq["variant_after_base"]
        if a.get("outcome") == "timeout" and obs["variant"].get("outcome") != "timeout":
            return f"loading a second configuration in the same process did not finish within {a['limit']}: a hang"
        k = _same_load(obs["variant"], a)
        if k and obs["variant"].get("outcome") != "timeout":
            return f"a configuration loads differently after another one was loaded in the same process ({k}: fresh {str(obs['variant'].get(k))[:120]} vs {str(a.get(k))[:120]})"
    v = obs.get("variant")
    if v is None:
        return None
    var = case["variant"]
    what = "after " + describe_variant(var)
    d = _one(v, what, _co_paths(case, obs.get("vtree")), case.get("api", "path"))
    if d:
        return d
    if var["op"] == "xdup" and not _redundant(case, var, b):
        return None  # the copied import was not part of the configuration (its file is not loaded): the edit adds a module
    if b["outcome"] != v["outcome"]:
        return f"the configuration {'loads' if b['outcome'] == 'ok' else 'fails (' + b.get('cls', '?') + ')'} as written but {'loads' if v['outcome'] == 'ok' else 'fails (' + v.get('cls', '?') + ': ' + v.get('msg', '')[:80] + ')'} {what}"
    if b["outcome"] != "ok":
        return None
    fb, fv = b["flows"], v["flows"]
    if var["op"] in ("xdup", "yml2co") and {k for k, _ in v.get("imported", [])} != {k for k, _ in b.get("imported", [])}:
        return None  # the copied import was not part of the configuration before (its file is not loaded): not a redundant import
    if _exact(case, var):
        if fb != fv or b["msgs"] != v["msgs"]:
            return f"{what} the configuration loads to different flows: " + _flow_diff(fb, fv)
    else:
        if sorted(map(tuple, fb)) != sorted(map(tuple, fv)) or b["msgs"] != v["msgs"]:
            return f"{what} the configuration loads to a different set of flows: " + _flow_diff(sorted(map(list, map(tuple, fb))), sorted(map(list, map(tuple, fv))))
    return None


def _redundant(case, var, b):
    """xdup: the copied import line names a path the configuration as written already imports"""
    if b.get("outcome") != "ok":
        return False
    try:
        text = case[var["where"]][var["file"]][1]
        il = import_lines(text)
        line = text.split("\n")[il[var["k"] % len(il)]].rstrip("\r")
    except (IndexError, KeyError, ZeroDivisionError):
        return False
    m = re.match(r"^import[ \t]+([A-Za-z_][\w.]*)[ \t]*(#.*)?$", line)
    return bool(m) and m.group(1).replace(".", "/") in (b.get("import_paths") or [])


def _exact(case, var):
    """the edit adds nothing but a copy of an import BEHIND the original (or layout): the order in which the files are loaded
    cannot change, the flows must be the same list; otherwise (a copy in front, another order, another file) the same multiset"""
    op = var["op"]
    if op == "layout":
        return True
    if op == "dup":
        return var["to"] in ("next", "after-all", "end")
    if op == "ymldup":
        y = case.get("yml_imports") or []
        return bool(y) and var["to"] % (len(y) + 1) > y.index(y[var["k"] % len(y)])
    return False


def _flow_diff(a, b):
    for i, (x, y) in enumerate(zip(a, b)):
        if x != y:
            return f"flow {i}: {x} != {y}"
    return f"{len(a)} flows != {len(b)} flows"


def describe_variant(v):
    op = v["op"]
    if op == "dup":
        return f"writing import line {v['k']} of {v['where']}[{v['file']}] a second time ({v['to']})"
    if op == "perm":
        return f"re-ordering the import lines of {v['where']}[{v['file']}]"
    if op == "xdup":
        return f"copying import line {v['k']} of {v['where']}[{v['file']}] into {v['to_where']}[{v['to_file']}]"
    if op == "ymldup":
        return f"listing entry {v['k']} of config.yml's import_paths twice"
    if op == "yml2co":
        return f"writing entry {v['k']} of config.yml's import_paths also as an import of {v['to_where']}[{v['to_file']}]"
    return f"the layout edit `{v['edit']}` at import line {v['k']} of {v['where']}[{v['file']}]"


def signature_cfg(case, obs, msg):
    """`unresolved-import-valueerror` (open finding) only when the import REALLY cannot be resolved: the path named in the
    message belongs to an import statement / config.yml entry of the tree (read off the texts) and the documented resolution
    rule finds nothing; a loader that fails to resolve a resolvable import is a new violation"""
    for w in ("base", "variant"):
        o = obs.get(w)
        if o and o.get("outcome") == "raised" and not o.get("is_cpe"):
            if o.get("site") == "_load_imported_paths" and o.get("cls") == "ValueError" and "could not be resolved" in o.get("msg", ""):
                m = re.search(r"Import path `(.*)` could not be resolved", o.get("msg", ""))
                tree = obs.get("vtree") if w == "variant" and obs.get("vtree") else case
                if m and _really_unresolvable(m.group(1), tree, o.get("world")):
                    return "unresolved-import-valueerror"
            return None
    return None


def resolves_by_rule(p):
    """the documented resolution rule, for a load without a local library: the path itself, else under a COLANGPATH root
    (the standard library is one), else that + ".co"""
    import nemoguardrails.rails.llm.config as cfgmod

    if os.path.exists(p):
        return True
    for r in cfgmod.colang_path_dirs:
        if os.path.exists(os.path.join(r, p)) or (not p.endswith(".co") and os.path.exists(os.path.join(r, p + ".co"))):
            return True
    return False


def _really_unresolvable(p, tree, wd):
    if wd is None:
        return True  # from_content: no world
    e = {x[0]: x for x in wd["paths"]}.get(p)
    if e is not None and e[1] is not None:
        return False  # the documented rule resolves it
    written = set(tree.get("yml_imports") or [])
    for f in tree["files"] + tree["lib"]:
        if f[0].endswith(".co"):
            written.update(m.group(1).replace(".", "/") for m in TEXT_IMPORT.finditer(f[1]))
            written.update(m.group(1) for m in re.finditer(r"^import[ \t]+(\"[^\n]*\"|'[^\n]*')", f[1], re.M))
        elif f[0].endswith(".yml"):
            written.update(x.strip() for x in re.findall(r"^\s*-\s*(\S+)\s*$", f[1], re.M))
    # standard library files import each other too: what their TEXTS say (never what the parser under test reports)
    for t in wd.get("ftext") or []:
        written.update(t or [])
    return p in written


def tags_cfg(case, obs):
    t = ["kind:cfg:" + obs["version"], "cfg-cpu:%.1f" % (int(max(obs["base"].get("cpu_used", 0), (obs.get("variant") or {}).get("cpu_used", 0)) * 5) / 5), "cfg-files:%d" % len(case["files"]), "cfg-lib:%d" % len(case["lib"])]
    for w in ("base", "variant"):
        o = obs.get(w)
        if o:
            t.append(f"cfg-{w}:" + o["outcome"] + (":" + o.get("cls", "") if o["outcome"] == "raised" else ""))
    b = obs["base"]
    if b["outcome"] == "ok" and "world" in b:
        t.append("cfg-composition:" + ("checked" if expected_flows(b["world"], obs["version"]) is not None else "undetermined"))
    if "seq" in obs:
        t.append("cfg-second-load:" + str((obs["seq"].get("base_again") or {}).get("outcome")))
    if case.get("variant"):
        t.append("cfg-variant:" + case["variant"]["op"] + (":" + case["variant"]["edit"] if case["variant"]["op"] == "layout" else ""))
    b = obs["base"]
    if b["outcome"] == "ok":
        t.append("cfg-imported:%d" % min(len(b.get("imported", [])), 8))
        t.append("cfg-parsed-files:%d" % min(len(b.get("parsed", [])), 10))
    texts = [f[1] for f in case["files"] + case["lib"]]
    if any(len(set(ls)) < len(ls) for ls in ([l.strip() for l in x.split("\n") if IMPORT_RE.match(l)] for x in texts)):
        t.append("cfg-has:repeated-import-in-one-file")
    y = case.get("yml_imports") or []
    if len(set(y)) < len(y):
        t.append("cfg-has:repeated-yml-import")
    return t


def shrink_cfg(case):
    # most aggressive first: a hanging candidate costs CPU_LIMIT seconds
    if case.get("lib"):
        yield dict(case, lib=[])
    if len(case["files"]) > 1:
        yield dict(case, files=case["files"][:1], variant=_keep_variant(case, 0))
        for i in range(len(case["files"])):
            if len(case["files"]) > 1:
                yield dict(case, files=case["files"][:i] + case["files"][i + 1:], variant=_drop_variant(case, "files", i))
    if case.get("yml_imports"):
        yield dict(case, yml_imports=None, variant=None if (case.get("variant") or {}).get("op") in ("ymldup", "yml2co") else case.get("variant"))
        y = case["yml_imports"]
        for i in range(len(y)):
            if len(y) > 1:
                yield dict(case, yml_imports=y[:i] + y[i + 1:])
    for i in range(len(case["lib"])):
        yield dict(case, lib=case["lib"][:i] + case["lib"][i + 1:], variant=_drop_variant(case, "lib", i))
    if case.get("variant"):
        yield dict(case, variant=None)
    for w in ("files", "lib"):
        for i, f in enumerate(case[w]):
            if not f[0].endswith(".co"):
                continue
            # drop the flows (everything that is not an import line), then single lines
            ls = f[1].split("\n")
            only = [l for l in ls if IMPORT_RE.match(l)]
            if only and len(only) < len([l for l in ls if l]):
                yield dict(case, **{w: case[w][:i] + [[f[0], "\n".join(only) + "\n"]] + case[w][i + 1:]})
            if len(ls) <= 12:
                for j in range(len(ls)):
                    yield dict(case, **{w: case[w][:i] + [[f[0], "\n".join(ls[:j] + ls[j + 1:])]] + case[w][i + 1:]})
    if case.get("mode") != "colangpath":
        yield dict(case, mode="colangpath")


def _drop_variant(case, where, i):
    v = case.get("variant")
    if not v:
        return v
    v = dict(v)
    for kw, kf in (("where", "file"), ("to_where", "to_file")):
        if v.get(kw) == where:
            if v[kf] == i:
                return None
            if v[kf] > i:
                v[kf] -= 1
    return v


def _keep_variant(case, i):
    v = case.get("variant")
    if not v:
        return v
    for kw, kf in (("where", "file"), ("to_where", "to_file")):
        if v.get(kw) == "files" and v[kf] != i:
            return None
    return v


def gen_cfg_case(rng):
    case = gen_cfg_v2(rng) if rng.random() < 0.8 else gen_cfg_v1(rng)
    if rng.random() < 0.75:
        case["variant"] = gen_variant(rng, case)
    else:
        case["variant"] = None
    # the same tree through from_content (main.co + config.yml only) now and then
    if case["version"] == "2.x" and len(case["files"]) == 1 and rng.random() < 0.25:
        case["api"] = "content"
    return case
