"""C18 — the way generation.py drives StreamingHandler (single-call mode and direct mode), as op sequences.

One usage case = one call-site configuration (prefix/suffix/stop/k), one LLM text, and for EVERY chunking of
the text EVERY schedule (a, b, end): the waiter of wait_top_k_nonempty_lines resumes after `a` tokens, `b`
more tokens arrive before generate_bot_message reaches disable_buffering(), on_llm_end arrives after the last
token (0), before disable_buffering (1, needs a+b = #tokens) or before the waiter resumed (2, needs a = #tokens).
The real handler is driven exactly as the library does it:

  generate_intent_steps_message:  h = StreamingHandler(); await h.enable_buffering();
        [LLM task: on_llm_new_token(...)*, on_llm_end]  ||  await h.wait_top_k_nonempty_lines(k); h.set_pattern(p, s)
  generate_bot_message:           h.set_pipe_to(user); await h.disable_buffering(); h.stop = [...]   (order as in the tree)
"""
import asyncio
import uuid

RID = uuid.UUID(int=0)


def all_chunkings(text):
    n = len(text)
    if n == 0:
        return [[]]
    res = []
    for mask in range(1 << (n - 1)):
        cs, start = [], 0
        for i in range(n - 1):
            if mask >> i & 1:
                cs.append(text[start:i + 1])
                start = i + 1
        cs.append(text[start:])
        res.append(cs)
    return res


def schedules_of_chunking(cs):
    out = []
    n = len(cs)
    for a in range(1, n + 1):
        for b in range(0, n - a + 1):
            out.append([cs, a, b, 0])
            if a + b == n:
                out.append([cs, a, b, 1])
            if a == n:
                out.append([cs, a, b, 2])
    return out


def units(case):
    """the list of runs of a usage case: [chunks, a, b, end]"""
    if case.get("direct"):
        cks = all_chunkings(case["text"]) if case["mode"] == "all" else case["chunkings"]
        return [[cs, 0, 0, 0] for cs in cks]
    if case["mode"] == "all":
        out = []
        for cs in all_chunkings(case["text"]):
            out.extend(schedules_of_chunking(cs))
        return out
    return case["schedules"]


async def _drain(handler, rounds=6):
    for _ in range(rounds):
        await asyncio.sleep(0)
    items = []
    while not handler.queue.empty():
        items.append(handler.queue.get_nowait())
    return items


async def run_single_call(StreamingHandler, case, unit, stop_before_disable):
    cs, a, b, end = unit
    user = StreamingHandler()
    h = StreamingHandler()
    await h.enable_buffering()
    waiter = asyncio.ensure_future(h.wait_top_k_nonempty_lines(k=case["k"]))
    await asyncio.sleep(0)  # the waiter sets k and blocks on the event
    i = 0
    for _ in range(a):
        await h.on_llm_new_token(cs[i], chunk=cs[i], run_id=RID)
        i += 1
    if not h.top_k_nonempty_lines_event.is_set():
        waiter.cancel()
        return {"event": False}
    if end == 2:
        await h.on_llm_end(None, run_id=RID)
    returned = await waiter
    h.set_pattern(prefix=case["prefix"], suffix=case["suffix"])
    for _ in range(b):
        await h.on_llm_new_token(cs[i], chunk=cs[i], run_id=RID)
        i += 1
    if end == 1:
        await h.on_llm_end(None, run_id=RID)
    # generate_bot_message
    h.set_pipe_to(user)
    if stop_before_disable:
        h.stop = list(case["stop"])
        await h.disable_buffering()
    else:
        await h.disable_buffering()
        h.stop = list(case["stop"])
    while i < len(cs):
        await h.on_llm_new_token(cs[i], chunk=cs[i], run_id=RID)
        i += 1
    if end == 0:
        await h.on_llm_end(None, run_id=RID)
    items = await _drain(user)
    return {"event": True, "items": items, "completion": h.completion, "finished": h.streaming_finished_event.is_set(), "returned": returned}


async def run_direct(StreamingHandler, case, unit):
    cs = unit[0]
    h = StreamingHandler()
    h.set_pattern(prefix=case["prefix"], suffix=case["suffix"])
    for c in cs:
        await h.on_llm_new_token(c, chunk=c, run_id=RID)
    await h.on_llm_end(None, run_id=RID)
    await h.push_chunk("<again>")  # `await streaming_handler.push_chunk(bot_utterance)` after the LLM call
    items = await _drain(h, 1)
    return {"items": items, "completion": h.completion, "finished": h.streaming_finished_event.is_set()}


def _counts(line):
    """a non-empty line that is not a comment: it has a non-blank character and the first one is not `#`
    (blank = Unicode white space, as for str.strip())"""
    for ch in line:
        if not ch.isspace():
            return ch != "#"
    return False


def rest_after_top_k(text, k):
    """the LLM text after its first k non-empty, non-comment lines (what generate_intent_steps_message leaves
    for the bot message); None if the k-th such line is not terminated"""
    pos = 0
    found = 0
    while True:
        nl = text.find("\n", pos)
        if nl < 0:
            return None
        line = text[pos:nl]
        pos = nl + 1
        if _counts(line):
            found += 1
            if found == k:
                return text[pos:]


def top_k_lines(text, k):
    """the first k non-empty, non-comment lines of the LLM text (what the intent parser is given)"""
    out = []
    for line in text.split("\n"):
        if _counts(line):
            out.append(line)
            if len(out) == k:
                break
    return "\n".join(out)
