"""C10 T2 tie — the token abstraction of one processing round (lean/NemoVerif/Models/RoundMachine.lean), written a second
time in Python (outcomes, potential by memoised recursion with cycle detection — a different algorithm from the Lean sweeps),
and the recorder that turns a REAL `run_to_completion` call into a run of that machine:

    pop of an internal event        -> step  ev k            => [new head (+ reserved FlowStarted)] (+ UnhandledEvent)
    head resumes / continues        -> step  head f u b      => [head f p0 b']
    one iteration of slide()        -> step  head f u b      => pushed internal events + [head f v b]
    fork                            -> step  head f u b      => [child heads behind their labels]
    flow finished / aborted, merge  -> step  head f u b      => terminal events (+ restart StartFlow)   /  []

The Lean driver (`C10.round`) checks that every recorded step consumes a token that is present and produces one of its
outcomes, and returns B(program, state) = potential of the initial token multiset; Python computes the same B beforehand and
uses it as the LIVE step budget of the round.
"""
import sys

INTERNAL = None  # set by init(): InternalEvents.ALL | {"ColangError"}
MAX_TERMINAL = 4


def init():
    global INTERNAL
    from nemoguardrails.colang.v2_x.runtime.flows import InternalEvents

    INTERNAL = set(InternalEvents.ALL) | {"ColangError"}


def _literal(expr):
    if isinstance(expr, str) and len(expr) >= 2 and expr[0] == expr[-1] and expr[0] in "'\"" and "{" not in expr:
        return expr[1:-1]
    return None


def round_prog(flow_configs, classify, err_ext=False):
    """expanded flow configs -> (RProg as JSON-able list, {flow_id: index}, reason the program is outside the model | None)

    err_ext: PHASED reading of a round for programs with flows that react to `ColangError` (phase 5): a `match ColangError` is an
    `ext` wait and the round is cut into phases at every pop of a ColangError event — each phase is a run of the machine from the
    snapshot of the state at that pop (heads parked on ColangError are `xhead`s there: the popped event may wake them once)."""
    from nemoguardrails.colang.v2_x.lang import colang_ast as A

    idx = {fid: i for i, fid in enumerate(flow_configs)}
    restartable = {fid for fid, fc in flow_configs.items() if "active" in fc.decorators}
    unsupported = None
    P = []
    for fid, fc in flow_configs.items():
        ctl = classify(fc)
        action_refs = set()
        for e in fc.elements:
            if isinstance(e, A.SpecOp) and e.op == "_new_action_instance" and isinstance(e.spec, A.Spec) and isinstance(e.spec.ref, dict):
                try:
                    action_refs.add(e.spec.ref["elements"][0]["elements"][0].lstrip("$"))
                except Exception:  # noqa
                    pass
        # `start g` expands to  send StartFlow(flow_id='g') ; match FlowStarted(..) [internal] ; $ref = $_flow_event_ref.flow
        flow_refs, last_started = {}, None
        for e in fc.elements:
            if isinstance(e, A.SpecOp) and isinstance(e.spec, A.Spec) and e.op == "send" and e.spec.name == "StartFlow":
                last_started = _literal(e.spec.arguments.get("flow_id"))
            elif isinstance(e, A.Assignment) and isinstance(e.expression, str) and e.expression.startswith("$_flow_event_ref_") \
                    and e.expression.endswith(".flow") and last_started is not None:
                flow_refs[e.key] = last_started
        emit, wk = [], []
        for pos, e in enumerate(fc.elements):
            em, w = [], "ext"
            if isinstance(e, A.SpecOp) and isinstance(e.spec, A.Spec):
                spec = e.spec
                if e.op == "send" and ctl[pos][0] == "step":
                    name = spec.name
                    if spec.var_name is not None:
                        unsupported = unsupported or f"flow {fid}: dynamic send through ${spec.var_name}"
                        em = ["plain"]
                    elif spec.members is not None:  # flow event: <flow>.Start() / .Stop() / .Finish()
                        m = spec.members[0]
                        mname = m["name"] if isinstance(m, dict) else m.name
                        if mname == "Start" and spec.name in idx:
                            em = [["start", idx[spec.name]]]
                            if spec.arguments.get("activated") not in (None, "False"):
                                restartable.add(spec.name)
                        else:
                            em = ["plain"]
                    elif name == "StartFlow":
                        tgt = _literal(spec.arguments.get("flow_id"))
                        if tgt is None:
                            unsupported = unsupported or f"flow {fid}: StartFlow with a computed flow_id"
                            em = ["plain"]
                        elif tgt in idx:
                            em = [["start", idx[tgt]]]
                            if spec.arguments.get("activated") not in (None, "False"):
                                restartable.add(tgt)
                        else:
                            em = ["plain"]  # unknown flow: nothing is created
                    else:
                        em = ["plain"]
                elif e.op == "send":
                    w = "action"
                elif e.op == "match":
                    if pos == 0:
                        w = "ext"  # the flow's own StartFlow match: passed by the pop that creates the instance
                    elif spec.var_name is not None:
                        v = spec.var_name.lstrip("$")
                        w = "ext" if v in action_refs else "int"
                        if w == "int" and v in flow_refs:
                            w = ("ref", flow_refs[v])  # resolved below: servable only if that flow can end after it announced itself
                    elif spec.members is not None:
                        w = "int" if spec.spec_type == A.SpecType.FLOW else "ext"
                    else:
                        w = "ext"
                        if spec.name in INTERNAL:
                            w = "tagged" if isinstance(e.info, dict) and "internal" in e.info else "int"
                        if err_ext and spec.name == "ColangError":
                            w = "ext"
            emit.append(em)
            wk.append(w)
        P.append({"ctl": ctl, "emit": emit, "wk": wk, "restartable": False, "catchAt": catch_at(ctl), "_id": fid})
    for fl in P:
        fl["restartable"] = fl["_id"] in restartable
    # least fix-point: a wait for the end of a freshly started child flow g is servable inside the round only if a fresh
    # instance of g can END AFTER IT ANNOUNCED ITSELF (reach its end, or move on in STARTED mode); otherwise the child is parked
    # on external waits when the parent arrives at the wait.  (Translator-level analysis; a real resume at a wait classified
    # `ext` would be rejected by the replay.)
    late = set()
    changed = True
    while changed:
        changed = False
        for fl in P:
            if fl["_id"] in late:
                continue
            wk_now = [("int" if (isinstance(w, tuple) and w[1] in late) else "ext" if isinstance(w, tuple) else w) for w in fl["wk"]]
            if _late_death(fl["ctl"], wk_now, fl["catchAt"]):
                late.add(fl["_id"])
                changed = True
    for fl in P:
        fl["wk"] = [("int" if (isinstance(w, tuple) and w[1] in late) else "ext" if isinstance(w, tuple) else w) for w in fl["wk"]]
    return P, idx, unsupported


def _late_death(ctl, wk, catch_at_):
    """from (1, fresh): is the end of the flow, or any node in STARTED mode, reachable without crossing an external wait?"""
    n = len(ctl)
    seen, work = {1}, [1]
    while work:
        u = work.pop()
        if u >= n:
            return True
        e = ctl[u]
        t = e[0]
        if t == "wait":
            w = wk[u]
            if w == "int":
                return True
            nxt = [] if w == "ext" else ([u + 1] if w == "action" else [u + 1] + [c + 1 for c in catch_at_[u]])
        elif t == "wh":
            return True
        elif t == "fork":
            nxt = [x + 1 for x in e[1]]
        elif t == "abort":
            nxt = [n] + [c + 1 for c in catch_at_[u]]
        else:
            nxt = _succs(ctl, u)
        for v in nxt:
            if v not in seen:
                seen.add(v)
                work.append(v)
    return False


def catch_at(ctl):
    """per position: the catch labels that can be innermost on the catch stack there — forward exploration of
    (position, stack) states from the flow start (same moves as SlideGraph.contMoves/resumeMoves); all labels if it blows up"""
    n = len(ctl)
    allc = sorted({x[1] for x in ctl if x[0] == "cpush"})
    seen = {(0, ())}
    work = [(0, ())]
    cap = 64 * (n + 2)
    while work:
        u, st = work.pop()
        if u >= n:
            continue
        e = ctl[u]
        t = e[0]
        if t == "wait":
            nxt = [(u + 1, st)] + ([(st[-1] + 1, st)] if st else [])
        elif t in ("step", "rl", "merge", "wh"):
            nxt = [(u + 1, st)]
        elif t == "cpush":
            nxt = [(u + 1, st + (e[1],))]
        elif t == "cpop":
            nxt = [(u + 1, st[:-1])] if st else []
        elif t == "goto":
            nxt = [(u + 1, st)] if e[1] is None else [(e[1] + 1, st), (u + 1, st)]
        elif t == "jump":
            nxt = [(u + 1, st)] if e[1] is None else [(e[1] + 1, st)]
        elif t == "ret":
            nxt = [(n, st)]
        elif t == "abort":
            nxt = [(st[-1] + 1, st)] if st else [(n, st)]
        elif t == "fork":
            nxt = [(x + 1, st) for x in e[1]]
        else:
            raise ValueError(t)
        for m in nxt:
            if m not in seen and m[0] <= n:
                seen.add(m)
                work.append(m)
                if len(seen) > cap:
                    return [allc for _ in range(n)]
    tops = [set() for _ in range(n)]
    for u, st in seen:
        if u < n and st:
            tops[u].add(st[-1])
    return [sorted(x) for x in tops]


# ----------------------------------------------------------------------------- the machine, in Python

def _succs(ctl, u):
    n = len(ctl)
    e = ctl[u]
    t = e[0]
    if t in ("step", "rl", "cpush", "cpop", "merge"):
        return [u + 1]
    if t == "goto":
        return [u + 1] if e[1] is None else [e[1] + 1, u + 1]
    if t == "jump":
        return [u + 1] if e[1] is None else [e[1] + 1]
    if t == "ret":
        return [n]
    if t == "abort":
        return [n] + [x[1] + 1 for x in ctl if x[0] == "cpush"]
    raise ValueError(t)


def head_outcomes(P, f, u, b, woken):
    if f >= len(P):
        return [[]]
    fl = P[f]
    ctl = fl["ctl"]
    outs = [[["ev", "plain"]] * n for n in range(MAX_TERMINAL + 1)]
    if fl["restartable"] and b:
        outs = outs + [[["ev", ["start", f]]] + o for o in outs]
    if u >= len(ctl):
        return outs
    e = ctl[u]
    t = e[0]
    catch = fl["catchAt"][u]

    def resume(b2):
        return [[["head", f, u + 1, b2]]] + [[["head", f, c + 1, b2]] for c in catch]

    if t == "fork":
        outs.append([["head", f, x + 1, b] for x in e[1]])
    elif t == "wait":
        w = fl["wk"][u]
        if w == "ext":
            outs += resume(True) if woken else []
        elif w == "tagged":
            outs += resume(b)
        elif w == "int":
            outs += resume(True)
        else:
            outs.append([["head", f, u + 1, b]])
    elif t == "wh":
        outs.append([["head", f, u + 1, True]])
    elif t == "rl":
        outs.append([["head", f, u + 1, b]])
        if b:
            outs.append([["ev", ["start", f]], ["head", f, u + 1, b]])
    elif t == "abort":
        for v in [len(ctl)] + [c + 1 for c in catch]:
            outs.append([["head", f, v, b]])
    else:
        for v in _succs(ctl, u):
            outs.append([["ev", k] for k in fl["emit"][u]] + [["head", f, v, b]])
    return outs


class Cyclic(Exception):
    pass


class Potential:
    """memoised recursion over (kind, f, u, b); a node met again while on the stack = a cycle = no potential exists"""

    def __init__(self, P):
        self.P = P
        self.memo = {}
        self.onstack = set()
        self.ok = True
        sys.setrecursionlimit(max(sys.getrecursionlimit(), 20000))
        try:
            for f, fl in enumerate(P):
                for u in range(len(fl["ctl"]), -1, -1):
                    for b in (False, True):
                        self.node(False, f, u, b)
                        self.node(True, f, u, b)
        except (Cyclic, RecursionError):
            self.ok = False

    def node(self, woken, f, u, b):
        if f >= len(self.P):
            return 1
        u = min(u, len(self.P[f]["ctl"]))
        key = (woken, f, u, b)
        if key in self.memo:
            return self.memo[key]
        if key in self.onstack:
            raise Cyclic()
        self.onstack.add(key)
        best = 1
        for o in head_outcomes(self.P, f, u, b, woken):
            best = max(best, 1 + sum(self.tok(t) for t in o))
        self.onstack.discard(key)
        self.memo[key] = best
        return best

    def tok(self, t):
        if t[0] == "ev":
            k = t[1]
            if k == "unhandled":
                return 1
            if k == "plain":
                return 2
            return 5 + self.node(False, k[1], 1, False)
        return self.node(t[0] == "xhead", t[1], t[2], t[3])

    def bound(self, tokens):
        return sum(self.tok(t) for t in tokens)


# ----------------------------------------------------------------------------- recorder

class Round:
    def __init__(self, P, idx, pot, sm, state, event, queued=()):
        self.P, self.idx, self.pot, self.sm = P, idx, pot, sm
        self.steps, self.orphans = [], []
        self.tok, self.inst = {}, {}
        self.ctx, self.pending = [], {}
        self.cur_pop = self.cur_slide = None
        self.last_err_head = None
        self.err_head = None  # head whose statement raised OUTSIDE slide (head-changed callback, _start_flow, _create_event_reference)
        self.failed_start = None  # token of an instance that could not be created while its StartFlow event was popped (+ its reports)
        self.failed_pushes = []
        self.in_pie = False
        name = getattr(event, "name", None) or (event.get("type") if isinstance(event, dict) else None)
        args = getattr(event, "arguments", None) or (event if isinstance(event, dict) else {})
        T = [["ev", self.kind(name, args)]]
        # a phase that begins in the middle of a round (pop of a ColangError): the events still queued are tokens of the snapshot
        T += [["ev", self.kind(e.name, e.arguments)] for e in queued]
        FS = sm.FlowStatus
        for fs in state.flow_states.values():
            if fs.flow_id not in idx or fs.status not in (FS.WAITING, FS.STARTING, FS.STARTED):
                continue
            f = idx[fs.flow_id]
            b = fs.status == FS.STARTED
            n_live = 0
            for h in fs.heads.values():
                if h.status == sm.FlowHeadStatus.INACTIVE:
                    continue
                n_live += 1
                t = self.mk(f, h.position, b, parked=True)
                T.append(list(t))
                self.tok[h.uid] = t
                self.inst[h.uid] = fs.uid
            if not b and n_live:
                T.append(["ev", "plain"])  # reserved FlowStarted announcement
        self.tokens0 = T
        self.bound = pot.bound(T) if pot is not None and pot.ok else None
        self.limit, self.exc = None, None

    def kind(self, name, args):
        if name == "StartFlow":
            fid = args.get("flow_id") if hasattr(args, "get") else None
            return ["start", self.idx[fid]] if fid in self.idx else "plain"
        return "unhandled" if name == "UnhandledEvent" else "plain"

    def mk(self, f, u, b, parked=False):
        ctl = self.P[f]["ctl"]
        if parked and u < len(ctl) and ctl[u][0] == "wait" and self.P[f]["wk"][u] == "ext":
            return ["xhead", f, u, b]
        return ["head", f, u, b]

    def step(self, tok, out):
        self.steps.append([list(tok), out])
        if self.limit is not None and len(self.steps) > self.limit:
            raise self.exc(f"round exceeded B(program, state) = {self.bound}: {len(self.steps)} steps")
        return out

    # -- internal event popped ------------------------------------------------------------------------------------
    def pop_begin(self, state, event):
        self.cur_slide = None
        self.cur_pop = self.step(["ev", self.kind(event.name, event.arguments)], [])
        self.in_pie = True
        self._keys = set(state.flow_states.keys())
        self._pop_event = event

    def start_failed(self, flow_id):
        """create_flow_instance raised while the StartFlow event was processed (bad default value expression, incomplete event): on the
        token machine the instance is created and dies at once; its terminal events are the reports (ColangError, FlowFailed) pushed
        before the pop ends"""
        g = self.idx.get(flow_id)
        if g is None or self.cur_pop is None:
            return
        self.failed_start = ["head", g, 1, False]
        self.failed_pushes = []
        self.cur_pop.append(list(self.failed_start))
        self.cur_pop.append(["ev", "plain"])

    def pop_end(self, state):
        self.in_pie = False
        if self.failed_start is not None:
            self.step(self.failed_start, self.failed_pushes)
            self.failed_start, self.failed_pushes = None, []
        ev = self._pop_event
        if ev.name != "StartFlow" or ev.arguments.get("flow_id") not in self.idx:
            return
        g = self.idx[ev.arguments["flow_id"]]
        new = [k for k in state.flow_states if k not in self._keys]
        targets = [state.flow_states[k] for k in new if state.flow_states[k].flow_id == ev.arguments["flow_id"]]
        if not targets and ev.arguments["flow_id"] == "main" and state.main_flow_state is not None:
            targets = [state.main_flow_state]
        for fs in targets[:1]:
            for h in list(fs.heads.values())[:1]:
                if h.position == 0:
                    old = self.tok.get(h.uid)
                    self.tok[h.uid] = ["head", g, 1, False]
                    self.inst[h.uid] = fs.uid
                    self.cur_pop.append(["head", g, 1, False])
                    if old is None:
                        self.cur_pop.append(["ev", "plain"])  # FlowStarted of the new instance, reserved now

    # -- pushes -----------------------------------------------------------------------------------------------------
    def push(self, event):
        k = self.kind(event.name, event.arguments)
        if self.failed_start is None and self.in_pie and not self.ctx and event.name == "ColangError" and self._pop_event.name == "StartFlow":
            # reported while the StartFlow event itself is processed (e.g. the event lacks flow_instance_uid: raised before
            # create_flow_instance is entered)
            self.start_failed(self._pop_event.arguments.get("flow_id"))
        if self.failed_start is not None and event.name in ("ColangError", "FlowFailed"):
            self.failed_pushes.append(["ev", k])
        elif self.ctx:
            self.ctx[-1]["pushes"].append(["ev", k])
        elif event.name == "UnhandledEvent" and self.cur_pop is not None:
            self.cur_pop.append(["ev", "unhandled"])
        elif event.name == "FlowStarted":
            pass  # paid by the reservation made when the instance was created / at the beginning of the round
        elif self.cur_slide is not None and self.cur_slide["open"]:
            self.cur_slide["pushes"].append(["ev", k])
        elif event.name == "ColangError":
            if self.err_head is not None:
                uid, self.err_head = self.err_head, None
            else:
                uid = self.cur_slide["uid"] if self.cur_slide is not None else self.last_err_head
            self.pending.setdefault(uid, []).append(["ev", k])
        else:
            self.orphans.append(f"push of {event.name} outside any recorded step")

    # -- slide ------------------------------------------------------------------------------------------------------
    def slide_begin(self, fs, head):
        uid = head.uid
        self.cur_pop_closed = True
        t = self.tok.get(uid)
        if t is None:
            self.orphans.append(f"slide of a head of flow {fs.flow_id} at {head.position} that holds no token")
            self.cur_slide = None
            return
        _, f, u, b = t
        p0 = head.position
        if p0 != u:
            ctl = self.P[f]["ctl"]
            b2 = b
            if u < len(ctl):
                e = ctl[u]
                if e[0] == "wh" or (e[0] == "wait" and (self.P[f]["wk"][u] == "int" or t[0] == "xhead")):
                    b2 = True
            nt = ["head", f, p0, b2]
            self.step(t, [list(nt)])
            self.tok[uid] = nt
        self.cur_slide = {"uid": uid, "pushes": [], "open": True, "merging": head.status == self.sm.FlowHeadStatus.MERGING}

    def moved(self, head):
        cs = self.cur_slide
        if cs is None or cs["uid"] != head.uid or not cs["open"]:
            return
        t = self.tok[head.uid]
        _, f, u, b = t
        if head.position == u:
            return
        ctl = self.P[f]["ctl"]
        b2 = True if (u < len(ctl) and ctl[u][0] == "wh") else b
        nt = ["head", f, head.position, b2]
        self.step(t, cs["pushes"] + [list(nt)])
        cs["pushes"] = []
        self.tok[head.uid] = nt

    def slide_end(self, fs, head, new_heads):
        cs = self.cur_slide
        if cs is None:
            return
        cs["open"] = False
        uid = head.uid
        if cs["pushes"]:
            self.pending.setdefault(uid, []).extend(cs["pushes"])
        t = self.tok.get(uid)
        if t is not None and new_heads:
            _, f, u, b = t
            ctl = self.P[f]["ctl"]
            if cs["merging"]:
                # the head that initiated the fork continues for the merged heads
                parent = new_heads[0]
                self.tok[parent.uid] = t
                self.inst[parent.uid] = fs.uid
                if parent.uid != uid:
                    del self.tok[uid]
            elif u < len(ctl) and ctl[u][0] == "fork":
                out = []
                for nh in new_heads:
                    nt = ["head", f, nh.position + 1, b]
                    self.tok[nh.uid] = nt
                    self.inst[nh.uid] = fs.uid
                    out.append(list(nt))
                self.step(t, out)
                del self.tok[uid]
        self.gc(fs)

    def gc(self, fs):
        for uid in [u for u, i in self.inst.items() if i == fs.uid and u in self.tok and u not in fs.heads]:
            self.step(self.tok.pop(uid), self.pending.pop(uid, []))

    # -- flow ends --------------------------------------------------------------------------------------------------
    def end_begin(self, fs):
        self.ctx.append({"inst": fs.uid, "pushes": []})

    def end_end(self, fs):
        c = self.ctx.pop()
        dead = [u for u, i in self.inst.items() if i == fs.uid and u in self.tok and u not in fs.heads]
        pushes = c["pushes"]
        if not dead:
            if pushes:
                self.orphans.append(f"flow {fs.flow_id} ended with {len(pushes)} events but holds no token")
            return
        for n, uid in enumerate(dead):
            out = self.pending.pop(uid, [])
            if n == 0:
                out = out + pushes
            self.step(self.tok.pop(uid), out)

    def finish(self):
        for uid, p in self.pending.items():
            if p:
                self.orphans.append("events pushed for a head that neither moved nor died")
        return {"tokens": self.tokens0, "steps": [s for s in self.steps if s is not None], "orphans": self.orphans[:3], "bound": self.bound,
                "n": len(self.steps)}
