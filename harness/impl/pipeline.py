"""Adapter shared by C01/C02/C03: drives the REAL `LLMRails.generate_async` over multi-turn conversations
with scripted rail actions, a prompt-recording fake LLM and deterministic embeddings.

A *case* (JSON):
  {"ver": "1.0"|"2.x", "dialog": bool, "exc": bool, "in": [rail ids in configured order], "out": [rail ids],
   "carry": "messages"|"state"|"fresh" (messages, but no events cache: stateless deployment)|"stateobj" (2.x: the caller decodes the returned JSON itself and passes a NEW State object to every call)|"liveobj" (2.x: the caller keeps ONE live State object and hands it to every call), "trail": null|"system"|"context" (1.0: a message of that role follows the user message in every request), "gen": "std"|"pt"|"ptp"|"ptfn"|"single" (1.0 generation mode), "front": bool,
   "usaid": "something"|"plain"|"regex"|"multi" (2.x without dialog rails: how the answering flow waits for the user; multi = two answering flows),
   "wire": bool (2.x: the returned state goes through json.dumps / json.loads before it is handed back, as on a server; default: the same dict),
   "turns": [{"user": str, "bot": str, "intent": "flow"|"free"|"act",
              "vin":  [[id, verdict]..], "vout": [[id, verdict]..], "act_fault": bool, "retr_fault": bool,
              "exc_kind": one of EXC_KINDS (the exception value every scripted fault of the turn raises),
              "opts": null | {"input": bool, "output": bool} (1.0: `options={"rails": {...}}` of THIS call; null = the call passes no options)}]}
  verdict = "a" (accept) | "r" (reject) | ["w", text] (rewrite) | "f" (the rail's action raises)
          | "x" (the LLM call made by the rail's action fails: `LLMCallException`, which the dispatcher FORWARDS out of `generate`)
  propagating failures of a turn (the call raises; the caller then goes on from the last state it was GIVEN - the state JSON /
  its own message list - on the same LLMRails instance, see `_run`):
    "x" verdicts; "llm_x": n (the n-th dialog / generation LLM call of the turn finds the provider down -> LLMCallException);
    "cancel": n (the task is cancelled at the n-th recorded step of the turn: CancelledError surfaces at that await point)
  "route": "a"|"b" (2.x, "usaid": "multi": which of the two answering flows the user text is addressed to)

An *observation*: per turn {"steps": [...], "reply": {"role", "content"|"exc"}, "raised": None|str}
  step = ["rail", "in"|"out", i, text_seen] | ["llm", task, prompt] | ["act", name]
"""
import asyncio
import contextlib
import hashlib
import io
import json
import logging
import os
import sys
import warnings

REPO = os.environ.get("VERIF_REPO", "/repo")
REFUSAL = "I'm sorry, I can't respond to that."
INTERNAL_ERROR = "I'm sorry, an internal error has occurred."

_STATE = {"script": None, "rec": None}
_RAILS = {}
_READY = False


class ScriptedFault(Exception):
    """Raised by a scripted action when the case asks for a fault at this call."""


def _setup():
    global _READY
    if _READY:
        return
    logging.disable(logging.CRITICAL)
    warnings.filterwarnings("ignore")
    tests = os.path.join(REPO, "tests")
    if tests not in sys.path:
        sys.path.insert(0, tests)
    from nemoguardrails.embeddings.providers import register_embedding_provider
    from nemoguardrails.embeddings.providers.base import EmbeddingModel

    class FakeEmb(EmbeddingModel):
        engine_name = "fakeemb"

        def __init__(self, embedding_model=None, **kw):
            self.model = embedding_model

        def encode(self, documents):
            out = []
            for d in documents:
                h = hashlib.md5(d.encode("utf-8")).digest()
                out.append([b / 255.0 for b in h])
            return out

        async def encode_async(self, documents):
            return self.encode(documents)

    # COLANGPATH: make `import nemoguardrails.library.…` (the shipped 2.x rail flows) resolvable
    from nemoguardrails.rails.llm import config as _cfgmod

    if REPO not in _cfgmod.colang_path_dirs:
        _cfgmod.colang_path_dirs.append(REPO)
    try:
        register_embedding_provider(FakeEmb, "fakeemb")
    except Exception:  # noqa  already registered
        pass
    _READY = True


# ------------------------------------------------------------------ configs

YAML_V1 = """
models:
  - type: main
    engine: openai
    model: gpt-3.5-turbo-instruct
  - type: embeddings
    engine: fakeemb
    model: fake
enable_rails_exceptions: {exc}
passthrough: {passthrough}
rails:
  input:
    flows: [{inflows}]
  output:
    flows: [{outflows}]
  dialog:
    single_call:
      enabled: {single}
"""

# Colang 1.0 generation modes ("gen" of a case) through which a user message reaches an LLM prompt:
#   std    - task prompts rendered from the event history (general / user intent / next steps / bot message)
#   pt     - `passthrough: true`, request made with messages=[...] (chat mode): the request itself is the prompt
#   ptp    - `passthrough: true`, request made with prompt="..." (completion mode, no history)
#   ptfn   - `passthrough: true` and a `passthrough_fn` (as RunnableRails installs) instead of the LLM call
#   single - `rails.dialog.single_call.enabled`: one generate_intent_steps_message call
PT_MODES = ("pt", "ptp", "ptfn")
FRONT_SYSTEM = {"role": "system", "content": "SYSTEM-FRONT keep answers short"}
FRONT_CONTEXT = {"role": "context", "content": {"verif_front_marker": "ctx"}}
TRAIL_SYSTEM = {"role": "system", "content": "SYSTEM-TRAIL answer politely"}
TRAIL_CONTEXT = {"role": "context", "content": {"verif_trail_marker": "ctx"}}

YAML_V2 = """
colang_version: "2.x"
models:
  - type: main
    engine: openai
    model: gpt-3.5-turbo-instruct
  - type: embeddings
    engine: fakeemb
    model: fake
enable_rails_exceptions: {exc}
"""

# with "sc": the shipped `self check input` / `self check output` rails are configured last (rail id SC_ID);
# in 2.x the rail lists then go through the YAML `rails:` section (config.py generates `input rails` / `output rails`)
SC_ID = 100
SC_IN_PREFIX = "SELF-CHECK-INPUT::"
SC_OUT_PREFIX = "SELF-CHECK-OUTPUT::"
YAML_SC = """
prompts:
  - task: self_check_input
    content: |-
      SELF-CHECK-INPUT::{{ user_input }}::END
  - task: self_check_output
    content: |-
      SELF-CHECK-OUTPUT::{{ bot_response }}::END
"""
YAML_RAILS = """
rails:
  input:
    flows: [{inflows}]
  output:
    flows: [{outflows}]
"""


# Pure-Colang rails (Colang 1.0, rail ids PURE_BASE..PURE_BASE+49): the verdict is computed by the FLOW from its own view of
# the variable (`if "BLK<i>" in $bot_message`), not by an action from the action-side context.  The flows' context is rebuilt
# from the visible history, the actions' context from all ContextUpdate events - the two kinds of rails are the two readers.
# To make the call observable the flow copies what it sees into `$rail_seen` and executes a note action, which is also passed
# the variable as an action parameter (resolved on the action side): it records the flow's view, or both if they differ.
PURE_BASE = 50


def is_pure(i):
    return PURE_BASE <= i < PURE_BASE + 50


def pure_marker(i):
    return f"BLK{i}"


def v1_pure_rail_flow(kind, i):
    var = "user_message" if kind == "in" else "bot_message"
    exc = "InputRailException" if kind == "in" else "OutputRailException"
    name = f"scripted {kind} rail r{i}"
    return f"""
define flow {name}
  $rail_seen = ${var}
  execute rail_{kind}_{i}_note(text=${var})

  if "{pure_marker(i)}" in ${var}
    if $config.enable_rails_exceptions
      create event {exc}(message="blocked by {name}")
    else
      bot refuse to respond
    stop
"""


def v1_rail_flow(kind, i):
    """A rail flow of the same shape as the shipped library rails (self check input / mask sensitive data)."""
    if is_pure(i):
        return v1_pure_rail_flow(kind, i)
    var = "user_message" if kind == "in" else "bot_message"
    exc = "InputRailException" if kind == "in" else "OutputRailException"
    name = f"scripted {kind} rail r{i}"
    return f"""
define flow {name}
  $allowed = execute rail_{kind}_{i}_check

  if not $allowed
    if $config.enable_rails_exceptions
      create event {exc}(message="blocked by {name}")
    else
      bot refuse to respond
    stop

  ${var} = execute rail_{kind}_{i}_mask
"""


def v1_colang(case):
    parts = ['define bot refuse to respond\n  "' + REFUSAL + '"\n']
    for i in sorted(set(case["in"])):
        parts.append(v1_rail_flow("in", i))
    for i in sorted(set(case["out"])):
        parts.append(v1_rail_flow("out", i))
    if case["dialog"]:
        parts.append("""
define user ask flow
  "question with a flow"

define user ask act
  "question with an action"

define user ask free
  "question without a flow"

define flow answer flow
  user ask flow
  bot respond flow

define flow answer act
  user ask act
  $r = execute dialog_act
  bot respond act
""")
    return "\n".join(parts)


def v2_rail_flow(kind, i):
    exc = "InputRailException" if kind == "in" else "OutputRailException"
    name = f"scripted {kind} rail r{i}"
    return f"""
flow {name}
  $allowed = await Rail{kind.capitalize()}{i}CheckAction

  if not $allowed
    if $system.config.enable_rails_exceptions
      send {exc}(message="blocked by {name}")
    else
      bot refuse to respond
    abort
"""


# how the answering flow of the 2.x non-dialog configuration waits for the user ("usaid" of a case)
PLAIN_TEXT = "plain question Uplainx"
REGEX_WORD = "magicword"
USAID_FORMS = {
    "something": "user said something",
    "plain": 'user said "%s"' % PLAIN_TEXT,
    "regex": 'user said (regex("(?i).*%s.*"))' % REGEX_WORD,
}


MULTI_MAIN = """
flow main
  activate answering a
  activate answering b

flow answering a
  user said "%s"
  $answer = ..."Answer the question of the user."
  bot say $answer

flow answering b
  user said (regex("(?i).*%s.*"))
  $answer = ..."Answer the question of the user."
  bot say $answer
""" % (PLAIN_TEXT, REGEX_WORD)


def v2_colang(case):
    parts = ["import core", "import guardrails", "import llm", ""]
    if not case["dialog"] and case.get("usaid") == "multi":
        # two answering flows (a conversation in which a turn is answered by another flow than the previous one)
        parts.append(MULTI_MAIN)
    elif case["dialog"]:
        parts.append("""
flow main
  activate llm continuation
  activate answer act

flow user asked act
  user said "question with an action"

flow answer act
  user asked act
  $r = await DialogActAction
  $answer = ..."Answer the question of the user."
  bot say $answer
""")
    else:
        parts.append("""
flow main
  activate answering

flow answering
  %s
  $answer = ..."Answer the question of the user."
  bot say $answer
""" % USAID_FORMS[case.get("usaid", "something")])
    sc = bool(case.get("sc"))
    if sc:
        parts.insert(3, "import nemoguardrails.library.self_check.input_check\nimport nemoguardrails.library.self_check.output_check")
    if case["in"] or sc:
        parts.append("flow input rails $input_text\n" + "".join(f"  scripted in rail r{i}\n" for i in case["in"]) + ("  self check input\n" if sc else ""))
    if case["out"] or sc:
        parts.append("flow output rails $output_text\n" + "".join(f"  scripted out rail r{i}\n" for i in case["out"]) + ("  self check output\n" if sc else ""))
    for i in sorted(set(case["in"])):
        parts.append(v2_rail_flow("in", i))
    for i in sorted(set(case["out"])):
        parts.append(v2_rail_flow("out", i))
    return "\n".join(parts)


# ------------------------------------------------------------------ scripted actions and LLM

EXC_KINDS = ["msg", "empty", "multiline", "timeout", "assert", "notimpl", "keyerror"]


def _raise_fault(where):
    """Raise the turn's scripted exception VALUE (`exc_kind` of the turn): with a message, with an empty `str()`
    (ValueError(), asyncio.TimeoutError(), a bare assert, NotImplementedError()), with a multi-line message.
    BaseException subclasses (KeyboardInterrupt, CancelledError) are not faults of the action in the property's sense."""
    kind = (_STATE["script"] or {}).get("exc_kind", "msg")
    if kind == "empty":
        raise ValueError()
    if kind == "multiline":
        raise RuntimeError(f"scripted fault in {where}\nsecond line of the message\n  third line")
    if kind == "timeout":
        raise asyncio.TimeoutError()
    if kind == "assert":
        assert False
    if kind == "notimpl":
        raise NotImplementedError()
    if kind == "keyerror":
        raise KeyError("missing key in " + where)
    raise ScriptedFault(f"scripted fault in {where}")


class ProviderDown(ConnectionError):
    """What the (fake) LLM provider raises when it is unreachable; `llm_call` wraps it into `LLMCallException`."""


def _llm_call_exception(where):
    from nemoguardrails.actions.llm.utils import LLMCallException

    return LLMCallException(ProviderDown(f"scripted provider outage in {where}"))


def _step_hook():
    """Called right after a step (rail / llm / act) was recorded: `"cancel": n` of the turn cancels the task at the n-th step
    (what `asyncio.wait_for` / a disconnecting client does; the CancelledError surfaces at the await point the call is in)."""
    t = _STATE["script"] or {}
    n = t.get("cancel")
    if n is not None and len(_STATE["rec"]) - 1 == n:
        raise asyncio.CancelledError()


def _verdict(kind, i):
    t = _STATE["script"]
    for rid, v in (t.get("vin") if kind == "in" else t.get("vout")) or []:
        if rid == i:
            return v
    return "a"


def _system_action(fn):
    """Like the shipped rail actions (`@action(is_system_action=True)`): results are not echoed into the
    Colang history that dialog prompts are rendered from."""
    from nemoguardrails.actions import action

    return action(is_system_action=True, name=fn.__name__)(fn)


def _make_check(kind, i):
    """Rail check action. Even rail ids are async functions, odd ids plain (synchronous) functions - the dispatcher
    supports both; the dialog action below is a class-based action."""
    def body(context):
        var = "user_message" if kind == "in" else "bot_message"
        text = (context or {}).get(var)
        _STATE["rec"].append(["rail", kind, i, text if isinstance(text, (str, type(None))) else repr(text)])
        _step_hook()
        v = _verdict(kind, i)
        if v == "f":
            _raise_fault(f"{kind} rail {i}")
        if v == "x":
            # the rail's action asks an LLM and the provider is down: `llm_call` raises LLMCallException, which
            # `execute_action` re-raises on purpose - it leaves `generate` in the middle of the turn
            raise _llm_call_exception(f"{kind} rail {i}")
        return v != "r"

    if i % 2 == 0:
        async def check(context: dict = None):
            return body(context)
    else:
        def check(context: dict = None):
            return body(context)

    check.__name__ = f"rail_{kind}_{i}_check"
    return _system_action(check)


def _make_note(kind, i):
    """The note action of a pure-Colang rail: records what the flow saw (`$rail_seen`, set by the flow from its own context);
    if the same variable resolved on the action side (`text=`) differs, both are recorded."""
    async def note(text=None, context: dict = None):
        seen = (context or {}).get("rail_seen")
        if seen != text:
            seen = f"<flow-side {seen!r} / action-side {text!r}>"
        _STATE["rec"].append(["rail", kind, i, seen if isinstance(seen, (str, type(None))) else repr(seen)])
        _step_hook()
        return True

    note.__name__ = f"rail_{kind}_{i}_note"
    return _system_action(note)


def _make_mask(kind, i):
    async def mask(context: dict = None):
        var = "user_message" if kind == "in" else "bot_message"
        text = (context or {}).get(var)
        v = _verdict(kind, i)
        if isinstance(v, list) and v[0] == "w":
            return v[1]
        return text

    mask.__name__ = f"rail_{kind}_{i}_mask"
    return _system_action(mask)


class DialogAct:
    """Class-based custom action of the dialog flow (instantiated lazily by the dispatcher, `run` is synchronous)."""

    def run(self, **kwargs):
        _STATE["rec"].append(["act", "dialog_act"])
        _step_hook()
        if _STATE["script"].get("act_fault"):
            _raise_fault("dialog action")
        return True


async def retrieve_relevant_chunks():
    """User-supplied retrieval action (replaces the built-in one, as the docs allow for custom RAG)."""
    from nemoguardrails.actions.actions import ActionResult

    _STATE["rec"].append(["act", "retrieve"])
    _step_hook()
    if _STATE["script"].get("retr_fault"):
        _raise_fault("retrieve_relevant_chunks")
    return ActionResult(return_value="", context_updates={"relevant_chunks": ""})


def _make_llm():
    from utils import FakeLLM  # tests/utils.py of the tree under test
    from nemoguardrails.context import llm_call_info_var

    class ScriptedLLM(FakeLLM):
        def _answer(self, prompt):
            info = llm_call_info_var.get()
            task = _STATE.get("last_task") or getattr(info, "task", None) or "?"
            _STATE["last_task"] = None
            _STATE["rec"].append(["llm", task, prompt if isinstance(prompt, str) else str(prompt)])
            t = _STATE["script"]
            if task in ("self_check_input", "self_check_output"):
                # the shipped self-check rails: an LLM call is the rail's check; answer "Yes" = block
                kind = "in" if task == "self_check_input" else "out"
                pre = SC_IN_PREFIX if kind == "in" else SC_OUT_PREFIX
                p = prompt if isinstance(prompt, str) else str(prompt)
                seen = p.split(pre, 1)[1].rsplit("::END", 1)[0] if pre in p else None
                _STATE["rec"][-1] = ["rail", kind, SC_ID, seen]
                _step_hook()
                if _verdict(kind, SC_ID) == "x":
                    raise ProviderDown(f"scripted provider outage in self check {kind}put")  # -> LLMCallException in llm_call
                return "Yes" if _verdict(kind, SC_ID) == "r" else "No"
            _step_hook()
            n_gen = sum(1 for s in _STATE["rec"] if s[0] == "llm") - 1
            if t.get("llm_x") is not None and n_gen == t["llm_x"]:
                raise ProviderDown(f"scripted provider outage in LLM call {n_gen} ({task})")
            if task == "generate_user_intent":
                return "  ask " + t.get("intent", "free")
            if task == "generate_next_steps":
                return "  bot respond free"
            if task == "generate_bot_message":
                if _STATE.get("gen") in PT_MODES:
                    return t["bot"]  # passthrough: the completion is used as it is
                return '  "' + t["bot"] + '"'
            if task == "generate_intent_steps_message":
                i = t.get("intent", "free")
                return f'  ask {i}\nbot respond {i}\n  "' + t["bot"] + '"'
            if task == "general":
                return t["bot"]
            if task == "generate_value_from_instruction":
                return repr(t["bot"])
            if task == "generate_user_intent_from_user_action":
                return "user intent: user asked free"
            if task == "generate_flow_continuation":
                return "bot intent: bot answered\nbot action: bot say " + _q(t["bot"])
            return t["bot"]

        def _call(self, prompt, stop=None, run_manager=None, **kw):
            return self._answer(prompt)

        async def _acall(self, prompt, stop=None, run_manager=None, **kw):
            return self._answer(prompt)

    return ScriptedLLM(responses=[])


def _q(s):
    return '"' + s.replace("\\", "\\\\").replace('"', '\\"') + '"'


def config_key(case):
    return (case["ver"], bool(case["dialog"]), bool(case["exc"]), tuple(case["in"]), tuple(case["out"]), bool(case.get("sc")), case.get("gen", "std") if case["ver"] == "1.0" else "std",
            case.get("usaid", "something") if case["ver"] == "2.x" and not case["dialog"] else "-")


def propagating(t):
    """the turn scripts a failure that leaves `generate` by design (LLMCallException / cancellation)"""
    return t.get("llm_x") is not None or t.get("cancel") is not None or any(v == "x" for key in ("vin", "vout") for _, v in t.get(key) or [])


def get_rails(case):
    _setup()
    key = config_key(case)
    if key in _RAILS:
        return _RAILS[key]
    from nemoguardrails import LLMRails, RailsConfig

    with contextlib.redirect_stdout(io.StringIO()):
        sc = bool(case.get("sc"))
        inflows = [f"scripted in rail r{i}" for i in case["in"]] + (["self check input"] if sc else [])
        outflows = [f"scripted out rail r{i}" for i in case["out"]] + (["self check output"] if sc else [])
        if case["ver"] == "1.0":
            yaml = YAML_V1.format(
                exc="True" if case["exc"] else "False",
                passthrough="True" if case.get("gen") in PT_MODES else "False",
                single="True" if case.get("gen") == "single" else "False",
                inflows=", ".join(f'"{f}"' for f in inflows),
                outflows=", ".join(f'"{f}"' for f in outflows),
            ) + (YAML_SC if sc else "")
            cfg = RailsConfig.from_content(colang_content=v1_colang(case), yaml_content=yaml)
        else:
            yaml = YAML_V2.format(exc="True" if case["exc"] else "False")
            if sc:
                yaml += YAML_SC
            cfg = RailsConfig.from_content(colang_content=v2_colang(case), yaml_content=yaml)
        rails = LLMRails(cfg, llm=_make_llm())
        for kind, ids in (("in", case["in"]), ("out", case["out"])):
            for i in sorted(set(ids)):
                if case["ver"] == "1.0" and is_pure(i):
                    rails.register_action(_make_note(kind, i), f"rail_{kind}_{i}_note")
                elif case["ver"] == "1.0":
                    rails.register_action(_make_check(kind, i), f"rail_{kind}_{i}_check")
                    rails.register_action(_make_mask(kind, i), f"rail_{kind}_{i}_mask")
                else:
                    rails.register_action(_make_check(kind, i), f"Rail{kind.capitalize()}{i}CheckAction")
        rails.register_action(DialogAct, "dialog_act" if case["ver"] == "1.0" else "DialogActAction")
        if case["ver"] == "1.0":
            rails.register_action(retrieve_relevant_chunks, "retrieve_relevant_chunks")
            if case.get("gen") == "ptfn":
                replaced = "generate_bot_message" if case["dialog"] else "general"

                async def passthrough_fn(context: dict, events: list):
                    # stands in for the LLM call; like RunnableRails' function it reads the text from the context
                    _STATE["rec"].append(["llm", replaced, str((context or {}).get("user_message"))])
                    _step_hook()
                    if _STATE["script"].get("llm_x") is not None and sum(1 for s in _STATE["rec"] if s[0] == "llm") - 1 == _STATE["script"]["llm_x"]:
                        raise _llm_call_exception("passthrough function")
                    return _STATE["script"]["bot"], {"passthrough": True}

                rails.llm_generation_actions.passthrough_fn = passthrough_fn
        tm = rails.runtime.llm_task_manager
        orig_render = tm.render_task_prompt

        def render(task, *a, **kw):
            _STATE["last_task"] = getattr(task, "value", str(task))
            return orig_render(task, *a, **kw)

        tm.render_task_prompt = render
        if case["ver"] == "2.x":
            rails.runtime.disable_async_execution = True
            # the State OBJECT every call works on (`process_events` mutates it in place): recorded so that the call-level model's
            # "a new object for every call" and "the object a failed call leaves behind" can be compared with the real thing
            orig_pe = rails.runtime.process_events

            async def process_events(events, state=None, **kw):
                obj = state if state is not None and not isinstance(state, dict) else None
                _STATE["obj"] = obj
                if obj is not None:
                    if any(obj is o for o in _STATE["objs"]) and not _STATE.get("live"):
                        _STATE["reused"] = True
                    _STATE["objs"].append(obj)
                return await orig_pe(events, state=state, **kw)

            rails.runtime.process_events = process_events
    _RAILS[key] = rails
    return rails


# ------------------------------------------------------------------ conversation driver

def _canon_reply(res):
    """-> {"role": "assistant"|"exception", "content": str, "exc": type name or None, "events": [event types]}"""
    msg = res
    if isinstance(res, str):  # completion mode (`prompt=`): only the content is returned
        msg = {"role": "assistant", "content": res}
    elif isinstance(res, dict) and "role" not in res and str(res.get("type", "")).endswith("Exception"):
        msg = {"role": "exception", "content": res}
    if hasattr(res, "response"):
        msg = res.response[0] if isinstance(res.response, list) else {"role": "assistant", "content": res.response}
    out = {"role": msg.get("role"), "content": msg.get("content"), "exc": None, "events": []}
    if msg.get("role") == "exception":
        ev = msg.get("content") or {}
        out["exc"] = ev.get("type")
        out["content"] = ev.get("message")
    for ev in msg.get("events") or []:
        out["events"].append(ev.get("type"))
        if str(ev.get("type", "")).endswith("Exception"):
            out["exc"] = out["exc"] or ev.get("type")
    return out


async def _run(case):
    rails = get_rails(case)
    if hasattr(rails, "events_history_cache"):
        rails.events_history_cache.clear()
    obs = []
    messages = []
    state = None if case.get("carry", "messages") in ("messages", "fresh") and case["ver"] == "1.0" else {}
    gen = case.get("gen", "std") if case["ver"] == "1.0" else "std"
    _STATE["gen"] = gen
    front = []
    if case.get("front") and case["ver"] == "1.0":
        # a context message is not a chat message: in passthrough chat mode the request is the prompt, so only the system one
        front = [FRONT_SYSTEM] if gen in PT_MODES else [FRONT_CONTEXT, FRONT_SYSTEM]
    # "trail": a message of another role AFTER the new user message in every request (a client that appends a system reminder
    # or per-request context at the end of the list)
    trail = []
    if case.get("trail") and case["ver"] == "1.0":
        trail = [TRAIL_SYSTEM] if case["trail"] == "system" else [TRAIL_CONTEXT]
    _STATE["objs"] = []
    _STATE["live"] = case.get("carry") == "liveobj"
    live = None
    for t in case["turns"]:
        _STATE["script"] = t
        _STATE["rec"] = rec = []
        _STATE["obj"] = None
        _STATE["reused"] = False
        o = {"steps": rec, "reply": None, "raised": None}
        kw = {}
        if t.get("opts") is not None and case["ver"] == "1.0" and gen != "ptp":
            # explicit generation options of THIS call (a call without "opts" passes none: all rails enabled)
            kw["options"] = {"rails": {"input": bool(t["opts"].get("input", True)), "output": bool(t["opts"].get("output", True))}}
        try:
            with contextlib.redirect_stdout(io.StringIO()):
                if gen == "ptp":
                    res = await rails.generate_async(prompt=t["user"])
                    rep = _canon_reply(res)
                elif case["ver"] == "1.0" and state is None:
                    if case.get("carry") == "fresh":
                        # a stateless deployment (new worker / restarted server): no cached events, the history is
                        # rebuilt from the plain messages on every request
                        rails.events_history_cache.clear()
                    # the usual client: append the user message to its own list and pass that list (the passthrough
                    # branch overwrites the last entry in place with the rewritten text - the client's copy follows)
                    messages.append({"role": "user", "content": t["user"]})
                    messages.extend(trail)
                    try:
                        res = await rails.generate_async(messages=front + messages, **kw)
                    except BaseException:
                        del messages[-1 - len(trail):]
                        raise
                    rep = _canon_reply(res)
                    if gen in PT_MODES and rep["role"] == "exception":
                        # passthrough chat mode: the request IS the prompt, an {"role": "exception"} entry cannot be sent to
                        # the LLM ("Unknown message type") - the client discards the failed exchange
                        del messages[-1 - len(trail):]
                    else:
                        # the client keeps whatever `generate` returned in its history (as tests/utils.py::TestChat
                        # does), also a {"role": "exception"} reply: the events-history cache is keyed by it
                        if hasattr(res, "response") and isinstance(res.response, list) and res.response:
                            messages.append(dict(res.response[0]))  # a call with options returns a GenerationResponse
                        else:
                            messages.append(dict(res) if isinstance(res, dict) else {"role": "assistant", "content": rep["content"]})
                else:
                    given = state
                    if case.get("carry") == "liveobj" and case["ver"] == "2.x" and live is not None:
                        # the caller keeps ONE live State object (as the chat CLI does with `process_events`) and hands the object to
                        # every call; the call mutates it in place - also when it fails
                        given = live
                    elif case.get("carry") == "stateobj" and case["ver"] == "2.x" and isinstance(state, dict) and state.get("version") == "2.x":
                        # a caller that decodes the JSON it was given itself (a new object for every call) and passes the object
                        from nemoguardrails.colang.v2_x.runtime.serialization import json_to_state

                        given = json_to_state(state["state"])
                    res = await rails.generate_async(messages=front + [{"role": "user", "content": t["user"]}] + trail, state=given, **kw)
                    rep = _canon_reply(res)
                    state = res.state
                    if case.get("carry") == "liveobj" and case["ver"] == "2.x" and live is None and isinstance(state, dict) and state.get("version") == "2.x":
                        from nemoguardrails.colang.v2_x.runtime.serialization import json_to_state

                        live = json_to_state(state["state"])
                    if case.get("wire") and isinstance(state, dict) and state.get("version") == "2.x":
                        state = json.loads(json.dumps(state))  # the state travels like on a server: as a JSON document
            o["reply"] = rep
        except BaseException as e:  # noqa  -- `generate` must return normally (C03); record what escaped
            o["raised"] = f"{type(e).__name__}: {e}"[:300]
            obs.append(o)
            _note_object(o)
            if propagating(t):
                # a failure that leaves `generate` by design (LLM provider down / cancelled request): the caller got nothing
                # back, so it still holds the state of the last completed call (`state` / `messages` were not touched) and the
                # conversation GOES ON from there, on the same LLMRails instance
                continue
            break
        _note_object(o)
        obs.append(o)
    _STATE["objs"] = []
    return obs


def _note_object(o):
    """2.x: what became of the State object the call worked on"""
    if _STATE.get("reused"):
        o["reused_obj"] = True  # the call worked on an object an EARLIER call of the conversation had worked on
    obj = _STATE.get("obj")
    if obj is not None and o["raised"]:
        ctx = getattr(obj, "context", None) or {}
        o["left"] = {"orip": bool(ctx.get("output_rails_in_progress")), "talking": bool(ctx.get("bot_talking_state"))}


def run_conversation(case):
    loop = asyncio.new_event_loop()
    try:
        return loop.run_until_complete(_run(case))
    finally:
        loop.close()
