"""Adapter around the REAL Colang 2.x interpreter (statemachine.py / flows.py) for C09 and the CoreVM users.

No source hooks: everything is done by monkey-patching module globals / class attributes in the worker process
(`install()`), which is why a property module using this adapter must not share a process with other properties.

What is patched
  * uids:    `new_uuid` / `new_readable_uuid` / `new_var_uuid` in every module that imported them -> counter `u<n>z`
  * random:  `statemachine.random` -> shim whose `choice` records (n, picked index) and picks by the case's seeded rng
  * clock:   `statemachine.datetime`, `flows.datetime` -> virtual clock (advanced by the harness between events)
  * index recorder (layer 3 of C09): `FlowHead.position` / `FlowHead.status` setters, `FlowState.status` setter,
    `FlowState.heads` (recording dict), `_flow_head_changed`, `_remove_head_from_event_matching_structures`,
    `add_new_flow_instance`, `_clean_up_state`.  The recorder only appends to a list; it never changes behaviour.
  * worklist recorder (C09, only while `REC.loops_on`): `_resolve_action_conflicts` (called once per iteration of
    `while heads_are_advancing` with the pending list) and `_advance_head_front` (top-level calls from `run_to_completion`:
    per internal event with the matching heads, per iteration of `while heads_are_merging` with the merging heads, per
    advancing iteration with the advancing heads) are wrapped; each call / return appends a boundary record
    (`loop_boundary`) with the worklists and every non-INACTIVE head of the state.  Pass-through otherwise.
"""
import contextlib
import datetime as _dt
import io
import os
import re
import sys
import types

_INSTALLED = False
sm = None
fl = None
_ORIG = {}


class _Rec:
    def __init__(self):
        self.reset()

    def reset(self):
        self.uid = 0
        self.prims = []          # primitive index operations since the last `take()`
        self.state = None
        self.depth = 0           # >0 while inside the real _flow_head_changed / a setter wrapper
        self.in_add = 0
        self.choices = []        # (n, idx) of every random.choice since the last `take_choices()`
        self.rng = None
        self.clock = 0.0
        self.notes = []
        self.loops_on = False    # C09 (worklist tie): record the pending lists at the loop boundaries of run_to_completion
        self.loops = []          # boundary records since the last `take_loops()`
        self.regnames = {}       # (flow uid, head uid) -> event name the head's match element named WHEN it was last registered
        self.stmt_names = {}     # (flow id, position) -> set of event names heads were registered with at that statement
        self.refregs = []        # registrations on reference match elements since the last `take_refregs()` (tie of Models/RefName.lean)


REC = _Rec()
_BASE_TIME = _dt.datetime(2024, 1, 1, 12, 0, 0)


def _new_uuid():
    REC.uid += 1
    return f"u{REC.uid}z"


def _new_readable_uuid(name):
    return f"({name}){_new_uuid()}"


class _Random:
    @staticmethod
    def choice(seq):
        n = len(seq)
        idx = REC.rng.randrange(n) if REC.rng is not None else 0
        REC.choices.append((n, idx))
        return seq[idx]


class _Clock(_dt.datetime):
    @classmethod
    def now(cls, tz=None):
        return _BASE_TIME + _dt.timedelta(seconds=REC.clock)


def name_at(state, flow_state, pos):
    """What `_flow_head_changed` would see at `pos` right now: None if no match element there, else the event name
    computed by the real `get_event_name_from_element` ('!raise' if that raises). Side-effect free (uid counter restored)."""
    els = state.flow_configs[flow_state.flow_id].elements
    if not (0 <= pos < len(els)):
        return None
    el = els[pos]
    if not sm.is_match_op_element(el):
        return None
    saved = REC.uid
    try:
        return _ORIG["get_event_name_from_element"](state, flow_state, el)
    except Exception:  # noqa
        return "!raise"
    finally:
        REC.uid = saved


def _without_arguments(el):
    """a copy of a match element with every argument expression removed (constructor and member arguments)"""
    import copy

    el = copy.deepcopy(el)
    spec = el.spec
    spec.arguments = {}
    for m in spec.members or []:
        try:
            m.arguments = {}
        except Exception:  # noqa
            pass
    return el


def waited_name_info(state, flow_state, pos):
    """(name, with_args): `waited_name_at` and whether the name comes from the evaluation WITH the argument expressions"""
    els = state.flow_configs[flow_state.flow_id].elements
    if not (0 <= pos < len(els)):
        return None, False
    el = els[pos]
    if not sm.is_match_op_element(el):
        return None, False
    saved = REC.uid
    try:
        with_args = True
        try:
            ev = sm.get_event_from_element(state, flow_state, el)
        except Exception:  # noqa
            with_args = False
            ev = sm.get_event_from_element(state, flow_state, _without_arguments(el))
        nm = getattr(ev, "name", None)
        return (nm if isinstance(nm, str) else "!raise"), with_args
    except Exception:  # noqa
        return "!raise", False
    finally:
        REC.uid = saved


def waited_name_at(state, flow_state, pos):
    """The event name the match element at `pos` waits for NOW, the way the DISPATCHER sees it: an incoming event is compared
    with `get_event_from_element(state, flow_state, element)` (`_compute_event_matching_score`), evaluated on the current
    context — not with whatever name the index was given when the head was registered, and not with the answer of the
    indexer's own name function (`get_event_name_from_element` is NOT consulted here: a shortcut inside it must not reach the
    oracle).  None if there is no match element.  If the full evaluation raises, the element is evaluated once more without
    its argument expressions (an argument that cannot be evaluated makes the statement match nothing, but it still has a
    name); if that raises as well the element names NO event ('!raise'): a head must not stay parked there under any name.
    Side-effect free on the uid counter."""
    return waited_name_info(state, flow_state, pos)[0]


def obj_json(v, path):
    """A context value as `get_event_name_from_element` sees it (Models/RefName.lean::Obj): its class, and along the member
    path the attribute / key the walk takes next (absent: `hasattr` false / key missing)."""
    if isinstance(v, fl.Action):
        d = {"k": "action", "n": v.name}
    elif isinstance(v, fl.FlowState):
        d = {"k": "flow"}
    elif isinstance(v, fl.Event):
        d = {"k": "event", "n": v.name}
    elif isinstance(v, dict):
        d = {"k": "dict"}
    else:
        d = {"k": "other"}
    if path:
        a = path[0]
        if isinstance(v, dict):
            if a in v:
                d["a"] = {a: obj_json(v[a], path[1:])}
        elif a is not None and hasattr(v, a):
            d["a"] = {a: obj_json(getattr(v, a), path[1:])}
    return d


def ref_registration(state, flow_state, head):
    """None unless the head stands on a match element whose name is computed THROUGH AN OBJECT: over a reference
    (`match $ref.Finished()` …: case 1 of the name function) or over a flow / action given by name (`match some_flow.Start()`,
    `match SomeAction.Stop()`: case 2)."""
    try:
        el = state.flow_configs[flow_state.flow_id].elements[head.position]
        spec = el.spec
        var = spec.var_name
        members = None if spec.members is None else [m.name for m in spec.members]
        if members is not None and any(not isinstance(m, str) for m in members):
            return None
        if var is None:
            if members is None:
                return None           # case 3, a bare event: the name is the spec's name
            st = spec.spec_type.value if hasattr(spec.spec_type, "value") else str(spec.spec_type)
            return {"var": None, "name": spec.name, "type": st, "members": members, "known": spec.name in state.flow_configs,
                    "flow_id": flow_state.flow_id, "pos": head.position, "key": [flow_state.uid, head.uid], "obj": None}
        if members is not None and not members:
            return None
        rec = {"var": var, "members": members, "flow_id": flow_state.flow_id, "pos": head.position, "key": [flow_state.uid, head.uid]}
        rec["obj"] = obj_json(flow_state.context[var], (members or [])[:-1]) if var in flow_state.context else None
        return rec
    except Exception:  # noqa
        return None


def take_refregs():
    r, REC.refregs = REC.refregs, []
    return r


def _flow_of(head):
    st = REC.state
    if st is None:
        return None
    return st.flow_states.get(head.flow_state_uid)


class RecHeads(dict):
    """`FlowState.heads` with recording of the mutations the interpreter performs on it."""

    __slots__ = ("owner",)

    def __setitem__(self, k, v):
        o = getattr(self, "owner", None)
        if o is not None and getattr(o, "_rec_live", False) and REC.state is not None:
            REC.prims.append(["insertHead", o.uid, k, name_at(REC.state, o, v.position), v.position, v.status.value, k in self])
        dict.__setitem__(self, k, v)

    def __delitem__(self, k):
        o = getattr(self, "owner", None)
        if o is not None and getattr(o, "_rec_live", False):
            REC.prims.append(["delHead", o.uid, k])
        dict.__delitem__(self, k)

    def clear(self):
        o = getattr(self, "owner", None)
        if o is not None and getattr(o, "_rec_live", False):
            REC.prims.append(["clearHeads", o.uid, list(self.keys())])
        dict.clear(self)

    def _unknown(self, what):
        o = getattr(self, "owner", None)
        if o is not None and getattr(o, "_rec_live", False):
            REC.prims.append(["unknown", o.uid, what])

    def pop(self, *a):
        self._unknown("heads.pop")
        return dict.pop(self, *a)

    def popitem(self):
        self._unknown("heads.popitem")
        return dict.popitem(self)

    def update(self, *a, **k):
        self._unknown("heads.update")
        return dict.update(self, *a, **k)

    def setdefault(self, *a):
        self._unknown("heads.setdefault")
        return dict.setdefault(self, *a)

    def __reduce__(self):  # deepcopy / pickle: plain dict content, owner dropped
        return (dict, (dict(self),))


def elem_kind(el):
    """'match' / 'wait' (the two kinds of element a head may be parked on), 'end' (no element), else the element's kind."""
    from nemoguardrails.colang.v2_x.lang import colang_ast as A

    if el is None:
        return "end"
    if isinstance(el, A.SpecOp):
        return "match" if el.op == "match" else ("send" if el.op == "send" else "op:" + str(el.op))
    if isinstance(el, A.WaitForHeads):
        return "wait"
    if isinstance(el, A.MergeHeads):
        return "merge"
    return type(el).__name__


def heads_list(heads):
    """A worklist as data: [[flow uid, head uid, position, head status], ...] (list order kept)."""
    out = []
    for h in heads or []:
        try:
            out.append([h.flow_state_uid, h.uid, h.position, h.status.value])
        except Exception:  # noqa
            out.append([None, repr(h)[:40], None, None])
    return out


def live_heads(state):
    """Every non-INACTIVE head of every flow instance: [flow uid, flow status, head uid, position, head status, element kind]."""
    out = []
    for uid, fs in state.flow_states.items():
        cfg = state.flow_configs.get(fs.flow_id)
        els = cfg.elements if cfg is not None else []
        for hu, h in fs.heads.items():
            if h.status.value == "inactive":
                continue
            el = els[h.position] if 0 <= h.position < len(els) else None
            out.append([uid, fs.status.value, hu, h.position, h.status.value, elem_kind(el)])
    return out


def loop_boundary(state, at, **lists):
    """One boundary record of the loops of `run_to_completion`: `at` names the point, the keyword lists are worklists."""
    rec = {"at": at, "queue": len(state.internal_events), "live": live_heads(state)}
    for k, v in lists.items():
        rec[k] = None if v is None else heads_list(v)
    REC.loops.append(rec)


def take_loops():
    l, REC.loops = REC.loops, []
    return l


def install():
    global _INSTALLED, sm, fl
    if _INSTALLED:
        return
    import nemoguardrails.utils as nu
    from nemoguardrails.colang.v2_x.lang import expansion
    from nemoguardrails.colang.v2_x.runtime import eval as ev
    from nemoguardrails.colang.v2_x.runtime import flows, statemachine
    from nemoguardrails.colang.v2_x.runtime import utils as rutils

    sm, fl = statemachine, flows
    # ---- uids
    for mod in (nu, statemachine, flows, ev, rutils):
        if hasattr(mod, "new_uuid"):
            mod.new_uuid = _new_uuid
    for mod in (nu, statemachine, flows):
        if hasattr(mod, "new_readable_uuid"):
            mod.new_readable_uuid = _new_readable_uuid
    nu.new_var_uuid = _new_uuid
    expansion.new_var_uuid = _new_uuid
    try:
        from nemoguardrails.colang.v2_x.runtime import runtime as rt

        rt.new_readable_uuid = _new_readable_uuid
    except Exception:  # noqa
        pass
    # ---- random, clock
    statemachine.random = _Random
    statemachine.datetime = _Clock
    flows.datetime = _Clock

    # ---- recorder
    _ORIG["get_event_name_from_element"] = statemachine.get_event_name_from_element
    FlowHead, FlowState = flows.FlowHead, flows.FlowState
    pos_prop, st_prop, fst_prop = FlowHead.position, FlowHead.status, FlowState.status

    def set_position(self, p):
        fs = _flow_of(self)
        if fs is not None and getattr(fs, "_rec_live", False):
            attached = fs.heads.get(self.uid) is self
            REC.prims.append(["setPos", fs.uid, self.uid, p, name_at(REC.state, fs, p), attached,
                              self.position_changed_callback is not None, self._position != p])
        REC.depth += 1
        try:
            pos_prop.fset(self, p)
        finally:
            REC.depth -= 1

    def set_status(self, s):
        fs = _flow_of(self)
        if fs is not None and getattr(fs, "_rec_live", False):
            attached = fs.heads.get(self.uid) is self
            REC.prims.append(["setStatus", fs.uid, self.uid, s.value, name_at(REC.state, fs, self._position), attached,
                              self.status_changed_callback is not None, self._status != s])
        REC.depth += 1
        try:
            st_prop.fset(self, s)
        finally:
            REC.depth -= 1

    FlowHead.position = property(pos_prop.fget, set_position)
    FlowHead.status = property(st_prop.fget, set_status)

    def set_flow_status(self, s):
        if getattr(self, "_rec_live", False):
            REC.prims.append(["setFlowStatus", self.uid, s.value])
        fst_prop.fset(self, s)

    FlowState.status = property(fst_prop.fget, set_flow_status)

    def fs_setattr(self, name, value):
        if name == "heads" and not isinstance(value, RecHeads) and isinstance(value, dict):
            rh = RecHeads(value)
            rh.owner = self
            if self.__dict__.get("_rec_live", False):
                REC.prims.append(["installHeads", self.uid, list(value.keys())])
            value = rh
        object.__setattr__(self, name, value)

    FlowState.__setattr__ = fs_setattr

    orig_changed = statemachine._flow_head_changed
    orig_remove = statemachine._remove_head_from_event_matching_structures
    orig_add_head = statemachine._add_head_to_event_matching_structures

    def add_head(state, flow_state, head):
        # what the element names at the moment of the registration (for the oracle: a wrong bucket is either wrong from the
        # start, or the name changed while the head waited)
        rec = None
        if REC.state is state:
            nm, with_args = waited_name_info(state, flow_state, head.position)
            REC.regnames[(flow_state.uid, head.uid)] = [nm, head.position]
            REC.stmt_names.setdefault((flow_state.flow_id, head.position), set()).add(nm)
            rec = ref_registration(state, flow_state, head)
            if rec is not None:
                # the dispatcher's name at this moment, and whether the member arguments (evaluated) contain `arguments`
                rec["dispatch"] = nm
                try:
                    ms = state.flow_configs[flow_state.flow_id].elements[head.position].spec.members
                    rec["change_args"] = bool(with_args and ms and "arguments" in (ms[-1].arguments or {}))
                except Exception:  # noqa
                    rec["change_args"] = False
        if rec is None:
            return orig_add_head(state, flow_state, head)
        # a reference match: the referent as the name computation sees it, and what the interpreter did with it
        try:
            r = orig_add_head(state, flow_state, head)
        except Exception as e:  # noqa
            rec["raise"] = type(e).__name__
            REC.refregs.append(rec)
            raise
        rec["bucket"] = state.event_matching_heads_reverse_map.get(flow_state.uid + head.uid)
        REC.refregs.append(rec)
        return r
    orig_add_inst = statemachine.add_new_flow_instance
    orig_cleanup = statemachine._clean_up_state
    _ORIG.update(changed=orig_changed, remove=orig_remove, add_inst=orig_add_inst, cleanup=orig_cleanup)

    def flow_head_changed(state, flow_state, head):
        if REC.depth == 0 and getattr(flow_state, "_rec_live", False):
            # a direct call (not through a setter): add_new_flow_instance or the main-flow restart
            attached = flow_state.heads.get(head.uid) is head
            REC.prims.append(["changed", flow_state.uid, head.uid, name_at(state, flow_state, head.position), head.position,
                              head.status.value, attached])
        REC.depth += 1
        try:
            return orig_changed(state, flow_state, head)
        finally:
            REC.depth -= 1

    def remove_head(state, flow_state, head):
        if REC.depth == 0 and getattr(flow_state, "_rec_live", False):
            REC.prims.append(["rm", flow_state.uid, head.uid])
        return orig_remove(state, flow_state, head)

    def add_new_flow_instance(state, flow_state):
        object.__setattr__(flow_state, "_rec_live", True)
        heads = list(flow_state.heads.values())
        h = heads[0] if heads else None
        REC.prims.append(["addInst", flow_state.uid, h.uid if h else None, name_at(state, flow_state, 0) if h else None,
                          len(heads), h.position if h else None])
        REC.in_add += 1
        REC.depth += 1   # the nested _flow_head_changed is part of addInst
        try:
            return orig_add_inst(state, flow_state)
        finally:
            REC.depth -= 1
            REC.in_add -= 1

    def clean_up_state(state):
        before = list(state.flow_states.keys())
        r = orig_cleanup(state)
        after = set(state.flow_states.keys())
        for u in before:
            if u not in after:
                REC.prims.append(["removeInst", u])
        return r

    # exceptions the interpreter catches itself (try/except in _advance_head_front and around the match evaluation)
    orig_warning = statemachine.log.warning

    def warning(msg, *args, **kw):
        exc = [a for a in args if isinstance(a, BaseException)]
        if exc:
            REC.notes.append([type(exc[-1]).__name__, str(exc[-1])[:80]])
        return orig_warning(msg, *args, **kw)

    # ---- worklist recorder (loop boundaries of run_to_completion); pass-through unless REC.loops_on
    orig_resolve = statemachine._resolve_action_conflicts
    orig_advance = statemachine._advance_head_front
    _ORIG.update(resolve=orig_resolve, advance=orig_advance)

    def resolve_action_conflicts(state, actionable_heads):
        if REC.loops_on and REC.state is state:
            top = sys._getframe(1).f_code.co_name == "run_to_completion"
            loop_boundary(state, "resolve" if top else "resolve-nested", pending=list(actionable_heads))
        return orig_resolve(state, actionable_heads)

    def advance_head_front(state, heads):
        site = None
        if REC.loops_on and REC.state is state:
            caller = sys._getframe(1)
            if caller.f_code.co_name == "run_to_completion":
                # which of the three call sites: by identity of the argument with the caller's local worklists
                loc = caller.f_locals
                if heads is loc.get("merging_heads"):
                    site = "merge"
                elif heads is loc.get("advancing_heads"):
                    site = "advance"
                elif heads is loc.get("heads_matching"):
                    site = "match"
                else:
                    site = "unknown"
                act = loc.get("actionable_heads")
                act = list(act) if isinstance(act, list) else None
                loop_boundary(state, site + "-in", heads=list(heads), actionable=act)
        out = orig_advance(state, heads)
        if site is not None:
            loop_boundary(state, site + "-out", out=list(out), actionable=act)
        return out

    statemachine._resolve_action_conflicts = resolve_action_conflicts
    statemachine._advance_head_front = advance_head_front
    statemachine.log.warning = warning
    statemachine._flow_head_changed = flow_head_changed
    statemachine._add_head_to_event_matching_structures = add_head
    statemachine._remove_head_from_event_matching_structures = remove_head
    statemachine.add_new_flow_instance = add_new_flow_instance
    statemachine._clean_up_state = clean_up_state
    _INSTALLED = True


# ----------------------------------------------------------------------------------------- grouping

def group_ops(prims):
    """Primitive recorder events -> operations of Models/CoreIndex.lean.  Returns (ops, problems).
    Patterns (the statement groups of statemachine.py):
        rm(f,h)* for exactly the heads of f, then clearHeads f                      -> dropHeads f
        insertHead f h' ; setPos f h' p                                             -> fork f h' nm0 p nm
        [dropHeads f] changed(f,h detached) ; installHeads f [h] ; setFlowStatus f waiting -> mainRestart f h nm0
    Anything that does not fit is passed through as the nearest primitive operation and reported."""
    ops, problems = [], []
    # a name whose computation raises: the real callback raises after the removal and before the insertion
    prims = [[(None if x == "!raise" else x) for x in p] for p in prims]
    i, n = 0, len(prims)
    done = set()     # instances that were set STOPPED / FINISHED (heads dropped) earlier in this segment and not revived since
    while i < n:
        p = prims[i]
        k = p[0]
        if k == "setFlowStatus":
            (done.add if p[2] in ("stopped", "finished") else done.discard)(p[1])
        elif k in ("addInst", "installHeads"):
            done.discard(p[1])
        if k in ("setPos", "setStatus") and not p[5] and p[1] in done:
            # a flow that ended ITSELF in the middle of the slide of its own head (e.g. a `when FlowStarted()` without flow_id
            # matched the flow's own FlowStarted event: the flow sits in its own scope and is aborted by its own `EndScope`):
            # `slide` still advances the head object, which is no longer in `flow_state.heads`.  The callback removes nothing
            # (the head was unregistered by the abort) and adds nothing (the flow is not listening): no index operation.
            i += 1
            continue
        if k == "addInst":
            _, f, h, nm0, nheads, pos = p
            if nheads != 1 or pos != 0:
                problems.append(f"add_new_flow_instance with {nheads} heads / first head at {pos}")
            ops.append(["addInst", f, h, nm0])
        elif k == "setPos":
            _, f, h, pos, nm, attached, cb, changed = p
            if not attached:
                problems.append(f"position of a head that is not in flow_state.heads was set ({f},{h})")
            ops.append(["setPos", f, h, pos, nm, changed])
        elif k == "setStatus":
            _, f, h, st, nm, attached, cb, changed = p
            if not attached:
                problems.append(f"status of a head that is not in flow_state.heads was set ({f},{h})")
            ops.append(["setStatus", f, h, st, nm, changed])
        elif k == "insertHead":
            _, f, h, nm0, pos, st, existed = p
            if existed or pos != 0 or st != "active":
                problems.append(f"heads[{h}] assigned with existed={existed} pos={pos} status={st}")
            if i + 1 < n and prims[i + 1][0] == "setPos" and prims[i + 1][1] == f and prims[i + 1][2] == h:
                q = prims[i + 1]
                ops.append(["fork", f, h, nm0, q[3], q[4]])
                i += 1
            else:
                problems.append(f"heads[{h}] assigned without a following position assignment")
                ops.append(["fork", f, h, nm0, 0, nm0])
        elif k == "rm":
            f = p[1]
            j = i
            hs = []
            while j < n and prims[j][0] == "rm" and prims[j][1] == f:
                hs.append(prims[j][2])
                j += 1
            if j < n and prims[j][0] == "clearHeads" and prims[j][1] == f and sorted(prims[j][2]) == sorted(hs):
                ops.append(["dropHeads", f])
                i = j
            else:
                problems.append(f"explicit index removal of heads {hs} of {f} not followed by a matching heads.clear()")
                for h in hs:
                    ops.append(["rmHead", f, h])
                i = j - 1
        elif k == "clearHeads":
            f, keys = p[1], p[2]
            if keys:
                problems.append(f"heads.clear() on {f} without explicit index removal of {keys}")
                ops.append(["clearHeads", f])
            else:
                ops.append(["dropHeads", f])   # nothing to remove: same thing
        elif k == "changed":
            _, f, h, nm, pos, st, attached = p
            if (not attached and pos == 0 and st == "active" and i + 2 < n and prims[i + 1][:2] == ["installHeads", f]
                    and prims[i + 1][2] == [h] and prims[i + 2] == ["setFlowStatus", f, "waiting"]):
                ops.append(["mainRestart", f, h, nm])
                i += 2
            else:
                problems.append(f"direct _flow_head_changed on ({f},{h}) outside the known patterns")
                ops.append(["setStatus", f, h, st, nm])
        elif k == "installHeads":
            problems.append(f"flow_state.heads replaced on {p[1]} outside the main-restart pattern")
            ops.append(["clearHeads", p[1]])
        elif k == "delHead":
            ops.append(["delHead", p[1], p[2]])
        elif k == "setFlowStatus":
            ops.append(["setFlowStatus", p[1], p[2]])
        elif k == "removeInst":
            ops.append(["removeInst", p[1]])
        elif k == "unknown":
            problems.append(f"unmodelled mutation {p[2]} on heads of {p[1]}")
        else:
            problems.append(f"unknown primitive {p}")
        i += 1
    return ops, problems


# ----------------------------------------------------------------------------------------- driving

LIB_DIR = None


def lib_path(name):
    global LIB_DIR
    if LIB_DIR is None:
        import nemoguardrails.colang.v2_x as pkg

        LIB_DIR = os.path.join(os.path.dirname(pkg.__file__), "library")
    return os.path.join(LIB_DIR, name)


def build_state(sources):
    """sources: list of (filename, content). Parses with the repo's parser, expands with `expand_elements` (inside
    `initialize_state`). Returns the real `State`."""
    from nemoguardrails.colang import parse_colang_file
    from nemoguardrails.colang.v2_x.runtime.flows import State
    from nemoguardrails.colang.v2_x.runtime.runtime import create_flow_configs_from_flow_list

    flows_ = []
    for fn, content in sources:
        flows_.extend(parse_colang_file(filename=fn, content=content, include_source_mapping=False, version="2.x")["flows"])
    cfg = create_flow_configs_from_flow_list(flows_)
    st = State(flow_states=[], flow_configs=cfg)
    REC.state = st
    sm.initialize_state(st)
    return st


@contextlib.contextmanager
def quiet():
    with contextlib.redirect_stdout(io.StringIO()):
        yield


def take_prims():
    p, REC.prims = REC.prims, []
    return p


def take_choices():
    c, REC.choices = REC.choices, []
    return c


def adopt(state):
    """After json_to_state: the new FlowState objects become the recorded ones."""
    REC.state = state
    for fs in state.flow_states.values():
        object.__setattr__(fs, "_rec_live", True)
        if not isinstance(fs.heads, RecHeads):
            rh = RecHeads(fs.heads)
            rh.owner = fs
            object.__setattr__(fs, "heads", rh)
        else:
            fs.heads.owner = fs


UID_RE = re.compile(r"u\d+z")


def canon_uids(obj, table=None):
    """Rename uids by order of first appearance in a depth-first walk of a JSON-able object."""
    table = {} if table is None else table

    def sub(m):
        u = m.group(0)
        if u not in table:
            table[u] = f"#{len(table)}"
        return table[u]

    def walk(x):
        if isinstance(x, str):
            return UID_RE.sub(sub, x)
        if isinstance(x, list):
            return [walk(y) for y in x]
        if isinstance(x, tuple):
            return [walk(y) for y in x]
        if isinstance(x, dict):
            return {walk(k): walk(v) for k, v in x.items()}
        return x

    return walk(obj)


DIGEST_FIELDS = ("out", "insts", "index", "actions", "gctx")


def uid_order(obj, table):
    """Append to `table` (a list) the uids of `obj` in depth-first order of first appearance (same walk as the Lean driver)."""
    if isinstance(obj, str):
        for u in UID_RE.findall(obj):
            if u not in table:
                table.append(u)
    elif isinstance(obj, (list, tuple)):
        for y in obj:
            uid_order(y, table)
    elif isinstance(obj, dict):
        for k, v in obj.items():
            uid_order(k, table)
            uid_order(v, table)
    return table


def digest_uid_order(d, table):
    for k in DIGEST_FIELDS:
        uid_order(d.get(k), table)
    return table


def to_refs(obj, table):
    """Replace the uids of `obj` by `@@n@@` references into `table`."""
    idx = {u: n for n, u in enumerate(table)}

    def sub(m):
        u = m.group(0)
        return f"@@{idx[u]}@@" if u in idx else u

    def walk(x):
        if isinstance(x, str):
            return UID_RE.sub(sub, x)
        if isinstance(x, list):
            return [walk(y) for y in x]
        if isinstance(x, dict):
            return {walk(k): walk(v) for k, v in x.items()}
        return x

    return walk(obj)
